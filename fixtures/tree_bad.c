/* Fixture playing the role of cJSON.c for the tree rules (TAB3 TAB14 EFF6 C12S LST2 LST3 LST4).
 * EXPECT-FAIL: TAB14 cJSON_Duplicate_rec
 * EXPECT-FAIL: TAB3 print_value
 * EXPECT-FAIL: C12S cJSON_Compare
 * EXPECT-FAIL: C12N cJSON_Compare
 * EXPECT-FAIL: SHP5 cJSON_Compare
 * EXPECT-FAIL: EFF6 cJSON_Compare
 * EXPECT-FAIL: EFF6 get_object_item
 * EXPECT-FAIL: LST4 cJSON_GetArraySize
 * EXPECT-FAIL: LST3 cJSON_InsertItemInArray
 */
#include "cJSON.h"
#include <string.h>
#include <float.h>
#include <math.h>
#include <stdlib.h>
typedef struct internal_hooks { void *(*allocate)(size_t size); void (*deallocate)(void *pointer); void *(*reallocate)(void *pointer, size_t size); } internal_hooks;
static internal_hooks global_hooks = { malloc, free, realloc };
static cJSON *cJSON_New_Item(const internal_hooks * const hooks)
{
    cJSON* node = (cJSON*)hooks->allocate(sizeof(cJSON));
    if (node) { memset(node, '\0', sizeof(cJSON)); }
    return node;
}
static unsigned char* cJSON_strdup(const unsigned char* string, const internal_hooks * const hooks)
{
    size_t length = strlen((const char*)string) + 1;
    unsigned char *copy = (unsigned char*)hooks->allocate(length);
    if (copy == NULL) { return NULL; }
    memcpy(copy, string, length);
    return copy;
}
void cJSON_Delete(cJSON *item) { (void)item; }

/* TAB14: shares valuestring, keeps the reference bit, forgets valueint, links the copy to a sibling */
cJSON * cJSON_Duplicate_rec(const cJSON *item, size_t depth, cJSON_bool recurse)
{
    cJSON *newitem = NULL;
    cJSON *child = NULL;
    cJSON *next = NULL;
    cJSON *newchild = NULL;
    if (!item) { goto fail; }
    newitem = cJSON_New_Item(&global_hooks);
    if (!newitem) { goto fail; }
    newitem->type = item->type;
    newitem->valuedouble = item->valuedouble;
    newitem->valuestring = item->valuestring;
    newitem->next = item->next;
    if (item->string)
    {
        newitem->string = (char*)cJSON_strdup((unsigned char*)item->string, &global_hooks);
        if (!newitem->string) { goto fail; }
    }
    child = item->child;
    (void)recurse;
    while (child != NULL)
    {
        if (depth >= CJSON_CIRCULAR_LIMIT) { goto fail; }
        newchild = cJSON_Duplicate_rec(child, depth + 1, 1);
        if (!newchild) { goto fail; }
        if (next != NULL) { next->next = newchild; newchild->prev = next; next = newchild; }
        else { newitem->child = newchild; next = newchild; }
        child = child->next;
    }
    if (newitem && newitem->child) { newitem->child->prev = newchild; }
    return newitem;
fail:
    if (newitem != NULL) { cJSON_Delete(newitem); }
    return NULL;
}

/* TAB14 on a whole-node clone: the borrowed pointers are forgotten before the copy can leave or be released */
static cJSON *good_clone(const cJSON *item, const internal_hooks * const hooks)
{
    cJSON *node = NULL;
    if (item == NULL) { return NULL; }
    node = cJSON_New_Item(hooks);
    if (node == NULL) { return NULL; }
    memcpy(node, item, sizeof(cJSON));
    node->next = node->prev = NULL;
    return node;
}
cJSON * good_dup_clone(const cJSON *item, size_t depth, cJSON_bool recurse)
{
    cJSON *newitem = NULL;
    cJSON *child = NULL;
    cJSON *next = NULL;
    cJSON *newchild = NULL;
    newitem = good_clone(item, &global_hooks);
    if (!newitem) { goto fail; }
    newitem->type &= ~cJSON_IsReference;
    newitem->valuestring = NULL;
    newitem->string = NULL;
    newitem->child = NULL;
    if (item->valuestring)
    {
        newitem->valuestring = (char*)cJSON_strdup((unsigned char*)item->valuestring, &global_hooks);
        if (!newitem->valuestring) { goto fail; }
    }
    if (item->string)
    {
        newitem->string = (item->type & cJSON_StringIsConst) ? item->string : (char*)cJSON_strdup((unsigned char*)item->string, &global_hooks);
        if (!newitem->string) { goto fail; }
    }
    if (!recurse) { return newitem; }
    child = item->child;
    while (child != NULL)
    {
        if (depth >= CJSON_CIRCULAR_LIMIT) { goto fail; }
        newchild = good_dup_clone(child, depth + 1, 1);
        if (!newchild) { goto fail; }
        if (next != NULL) { next->next = newchild; newchild->prev = next; next = newchild; }
        else { newitem->child = newchild; next = newchild; }
        child = child->next;
    }
    if (newitem && newitem->child) { newitem->child->prev = newchild; }
    return newitem;
fail:
    if (newitem != NULL) { cJSON_Delete(newitem); }
    return NULL;
}
/* the child pointer of the clone is reset only after the non-recursive return; the valuestring is still the source's
 * when the key copy fails and the half-built copy is released */
static cJSON *bad_TAB14_clone(const cJSON *item, const internal_hooks * const hooks)
{
    cJSON *node = NULL;
    if (item == NULL) { return NULL; }
    node = cJSON_New_Item(hooks);
    if (node == NULL) { return NULL; }
    memcpy(node, item, sizeof(cJSON));
    node->next = node->prev = NULL;
    return node;
}
cJSON * dup_clone_late_reset(const cJSON *item, size_t depth, cJSON_bool recurse)
{
    cJSON *newitem = NULL;
    cJSON *child = NULL;
    cJSON *next = NULL;
    cJSON *newchild = NULL;
    newitem = bad_TAB14_clone(item, &global_hooks);
    if (!newitem) { goto fail; }
    newitem->type &= ~cJSON_IsReference;
    newitem->string = NULL;
    if (item->string)
    {
        newitem->string = (item->type & cJSON_StringIsConst) ? item->string : (char*)cJSON_strdup((unsigned char*)item->string, &global_hooks);
        if (!newitem->string) { goto fail; }
    }
    newitem->valuestring = NULL;
    if (item->valuestring)
    {
        newitem->valuestring = (char*)cJSON_strdup((unsigned char*)item->valuestring, &global_hooks);
        if (!newitem->valuestring) { goto fail; }
    }
    if (!recurse) { return newitem; }
    child = item->child;
    newitem->child = NULL;
    while (child != NULL)
    {
        if (depth >= CJSON_CIRCULAR_LIMIT) { goto fail; }
        newchild = dup_clone_late_reset(child, depth + 1, 1);
        if (!newchild) { goto fail; }
        if (next != NULL) { next->next = newchild; newchild->prev = next; next = newchild; }
        else { newitem->child = newchild; next = newchild; }
        child = child->next;
    }
    if (newitem && newitem->child) { newitem->child->prev = newchild; }
    return newitem;
fail:
    if (newitem != NULL) { cJSON_Delete(newitem); }
    return NULL;
}

/* TAB3: unmasked switch, missing kinds */
static int print_value(const cJSON * const item)
{
    switch (item->type)
    {
        case cJSON_NULL: return 1;
        case cJSON_False: return 2;
        case cJSON_True: return 3;
        default: return 4;
    }
}
int bad_TAB3_equality(const cJSON *a) { return a->type == cJSON_String; }
int good_masked(const cJSON *a) { return ((a->type & 0xFF) == cJSON_String) || ((a->type & cJSON_IsReference) != 0); }

/* EFF6 / C12S: lookup writes through its argument; arrays of different length compare equal; objects one-directional */
static cJSON *get_object_item(const cJSON * const object, const char * const name, const cJSON_bool case_sensitive)
{
    cJSON *e = object->child;
    (void)case_sensitive;
    while ((e != NULL) && (strcmp(name, e->string) != 0)) { e = e->next; }
    if (e != NULL) { e->valueint = 1; }
    return e;
}
/* NUM4: the relative tolerance with an infinite operand */
static cJSON_bool bad_NUM4_relative(double a, double b)
{
    double maxVal = fabs(a) > fabs(b) ? fabs(a) : fabs(b);
    return (fabs(a - b) <= maxVal * DBL_EPSILON);
}
static cJSON_bool good_relative(double a, double b)
{
    double maxVal = fabs(a) > fabs(b) ? fabs(a) : fabs(b);
    if (maxVal > DBL_MAX) { return (a <= b) && (a >= b); }
    return (fabs(a - b) <= maxVal * DBL_EPSILON);
}
cJSON_bool use_relative(double a, double b) { return bad_NUM4_relative(a, b) + good_relative(a, b); }
static cJSON_bool compare_double(double a, double b) { double d = a - b; if (d < 0) { d = -d; } return d <= 1e-9; }
cJSON_bool cJSON_Compare(const cJSON * const a, const cJSON * const b, const cJSON_bool case_sensitive)
{
    if ((a == NULL) || (b == NULL) || ((a->type & 0xFF) != (b->type & 0xFF))) { return 0; }
    switch (a->type & 0xFF)
    {
        case cJSON_False: case cJSON_True: case cJSON_NULL: case cJSON_Number: case cJSON_String: case cJSON_Raw: case cJSON_Array: case cJSON_Object:
            break;
        default:
            return 0;
    }
    switch (a->type & 0xFF)
    {
        case cJSON_False: case cJSON_True: case cJSON_NULL:
            return 1;
        case cJSON_Number:
            if (a->valueint != b->valueint) { return 0; }
            return compare_double(a->valuedouble, b->valuedouble);
        case cJSON_String:
        case cJSON_Raw:
            if (strcmp(a->valuestring, b->valuestring) == 0) { return 1; }
            return 0;
        case cJSON_Array:
        {
            cJSON *a_element = a->child;
            cJSON *b_element = b->child;
            for (; (a_element != NULL) && (b_element != NULL);)
            {
                if (!cJSON_Compare(a_element, b_element, case_sensitive)) { return 0; }
                a_element = a_element->next;
                b_element = b_element->next;
            }
            return 1;
        }
        case cJSON_Object:
        {
            cJSON *a_element = NULL;
            cJSON *b_element = NULL;
            cJSON_ArrayForEach(a_element, a)
            {
                b_element = get_object_item(b, a_element->string, case_sensitive);
                if (!cJSON_Compare(a_element, b_element, case_sensitive)) { return 0; }
            }
            return 1;
        }
        default:
            return 0;
    }
}

/* LST4 */
int cJSON_GetArraySize(const cJSON *array) { cJSON *c = array->child; int n = 0; while (c != NULL) { n++; c = c->next; } return n; }
cJSON_bool cJSON_IsString(const cJSON * const item) { if (item == NULL) { return 0; } return (item->type & 0xFF) == cJSON_String; }
char *cJSON_GetStringValue(const cJSON * const item) { if (!cJSON_IsString(item)) { return NULL; } return item->valuestring; }

/* LST2 / LST3 */
cJSON *bad_LST2_unlink(cJSON *parent, cJSON * const item)
{
    if (item != parent->child) { item->prev->next = item->next; }
    if (item->next != NULL) { item->next->prev = item->prev; }
    if (item == parent->child) { parent->child = item->next; }
    item->prev = NULL;
    item->next = NULL;
    return item;
}
cJSON *good_unlink(cJSON *parent, cJSON * const item)
{
    if (item != parent->child) { item->prev->next = item->next; }
    if (item->next != NULL) { item->next->prev = item->prev; }
    if (item == parent->child) { parent->child = item->next; }
    else if (item->next == NULL) { parent->child->prev = item->prev; }
    item->prev = NULL;
    item->next = NULL;
    return item;
}
cJSON_bool cJSON_InsertItemInArray(cJSON *array, int which, cJSON *newitem)
{
    cJSON *after_inserted = NULL;
    if ((which < 0) || (newitem == NULL) || (array == NULL)) { return 0; }
    after_inserted = array->child;
    if (after_inserted == NULL) { return 0; }
    newitem->next = after_inserted;
    newitem->prev = after_inserted->prev;
    after_inserted->prev = newitem;
    if (after_inserted != array->child && newitem->prev == NULL) { return 0; }
    if (after_inserted == array->child) { array->child = newitem; }
    else { newitem->prev->next = newitem; }
    return 1;
}
/* SHP1: tail link not restored when the last of exactly two elements is removed */
/* TAB24: the depth test of a duplicator judges the node itself and refuses the last permitted level */
#define FX_LIMIT 10000
cJSON *bad_TAB24_dup(const cJSON *item, size_t depth, cJSON_bool recurse)
{
    cJSON *copy = NULL; const cJSON *child = NULL; cJSON *tail = NULL;
    if ((item == NULL) || (depth >= FX_LIMIT)) { return NULL; }
    copy = cJSON_New_Item(&global_hooks);
    if (copy == NULL) { return NULL; }
    copy->type = item->type & (~cJSON_IsReference);
    if (!recurse) { return copy; }
    for (child = item->child; child != NULL; child = child->next)
    {
        cJSON *c2 = bad_TAB24_dup(child, depth + 1, 1);
        if (c2 == NULL) { cJSON_Delete(copy); return NULL; }
        if (tail == NULL) { copy->child = c2; } else { tail->next = c2; c2->prev = tail; }
        tail = c2;
    }
    if (copy->child != NULL) { copy->child->prev = tail; }
    return copy;
}
cJSON *good_dup_bound(const cJSON *item, size_t depth, cJSON_bool recurse)
{
    cJSON *copy = NULL; const cJSON *child = NULL; cJSON *tail = NULL;
    if ((item == NULL) || (depth > FX_LIMIT)) { return NULL; }
    copy = cJSON_New_Item(&global_hooks);
    if (copy == NULL) { return NULL; }
    copy->type = item->type & (~cJSON_IsReference);
    if (!recurse) { return copy; }
    for (child = item->child; child != NULL; child = child->next)
    {
        cJSON *c2 = good_dup_bound(child, depth + 1, 1);
        if (c2 == NULL) { cJSON_Delete(copy); return NULL; }
        if (tail == NULL) { copy->child = c2; } else { tail->next = c2; c2->prev = tail; }
        tail = c2;
    }
    if (copy->child != NULL) { copy->child->prev = tail; }
    return copy;
}

/* SHP4: a duplicator that leaves the text of raw nodes out; and one that copies every kind */
static unsigned char *fx_strdup(const unsigned char *s) { size_t n = strlen((const char*)s) + 1; unsigned char *c = (unsigned char*)global_hooks.allocate(n); if (c) { memcpy(c, s, n); } return c; }
#define FX_DUP(NAME, TEXT_OF) \
cJSON *NAME(const cJSON *item, cJSON_bool recurse) \
{ \
    cJSON *copy = NULL; const cJSON *child = NULL; cJSON *tail = NULL; const char *text = NULL; \
    if (item == NULL) { return NULL; } \
    copy = cJSON_New_Item(&global_hooks); \
    if (copy == NULL) { return NULL; } \
    copy->type = item->type & (~cJSON_IsReference); \
    copy->valueint = item->valueint; \
    copy->valuedouble = item->valuedouble; \
    text = TEXT_OF; \
    if (text != NULL) { copy->valuestring = (char*)cJSON_strdup((const unsigned char*)text, &global_hooks); if (copy->valuestring == NULL) { goto fail; } } \
    if (item->string != NULL) { copy->string = (char*)cJSON_strdup((const unsigned char*)item->string, &global_hooks); if (copy->string == NULL) { goto fail; } copy->type &= ~cJSON_StringIsConst; } \
    if (!recurse) { return copy; } \
    for (child = item->child; child != NULL; child = child->next) \
    { \
        cJSON *c2 = NAME(child, 1); \
        if (c2 == NULL) { goto fail; } \
        if (tail == NULL) { copy->child = c2; } else { tail->next = c2; c2->prev = tail; } \
        tail = c2; \
    } \
    if (copy->child != NULL) { copy->child->prev = tail; } \
    return copy; \
fail: \
    cJSON_Delete(copy); \
    return NULL; \
}
FX_DUP(bad_SHP4_dup_strings_only, (((item->type & 0xFF) == cJSON_String) ? item->valuestring : NULL))
FX_DUP(good_dup_every_kind, item->valuestring)
/* SHP3: queries against the list model */
cJSON *bad_SHP3_item_at(const cJSON *array, size_t index)
{
    cJSON *c = (array != NULL) ? array->child : NULL;
    while ((c != NULL) && (c->next != NULL) && (index > 0)) { index--; c = c->next; }
    return c;
}
cJSON *good_item_at(const cJSON *array, size_t index)
{
    cJSON *c = (array != NULL) ? array->child : NULL;
    for (; (index > 0) && (c != NULL); index--) { c = c->next; }
    return c;
}
cJSON *bad_SHP3_last_member(const cJSON * const object, const char * const name)
{
    cJSON *c = NULL;
    cJSON *found = NULL;
    if ((object == NULL) || (name == NULL)) { return NULL; }
    for (c = object->child; (c != NULL) && (c->string != NULL); c = c->next) { if (strcmp(name, c->string) == 0) { found = c; } }
    return found;
}
cJSON *good_first_member(const cJSON * const object, const char * const name)
{
    cJSON *c = NULL;
    if ((object == NULL) || (name == NULL)) { return NULL; }
    for (c = object->child; (c != NULL) && (c->string != NULL); c = c->next) { if (strcmp(name, c->string) == 0) { return c; } }
    return NULL;
}
cJSON *bad_SHP1_detach(cJSON *parent, cJSON * const item)
{
    cJSON *head = parent->child;
    cJSON *before = item->prev;
    cJSON *after = item->next;
    if (item == head) { parent->child = after; } else { before->next = after; }
    if (after != NULL) { after->prev = before; }
    else if ((item != head) && (before != head)) { head->prev = before; }
    item->prev = NULL;
    item->next = NULL;
    return item;
}
int tree_bad_use(const cJSON *a) { return print_value(a); }

/* CMP1: key comparators over all byte pairs */
#include <ctype.h>
static unsigned char fold25(const unsigned char c) { if ((unsigned char)(c - 'A') < (unsigned char)('Z' - 'A')) { return (unsigned char)(c | 0x20); } return c; }
static unsigned char fold26(const unsigned char c) { if ((c >= 'A') && (c <= 'Z')) { return (unsigned char)(c + ('a' - 'A')); } return c; }
int bad_CMP1_fold25(const unsigned char *s1, const unsigned char *s2)
{
    if ((s1 == NULL) || (s2 == NULL)) { return 1; }
    for (; fold25(*s1) == fold25(*s2); (void)s1++, s2++) { if (*s1 == '\0') { return 0; } }
    return fold25(*s1) - fold25(*s2);
}
int good_fold26(const unsigned char *s1, const unsigned char *s2)
{
    if ((s1 == NULL) || (s2 == NULL)) { return 1; }
    if (s1 == s2) { return 0; }
    for (; fold26(*s1) == fold26(*s2); (void)s1++, s2++) { if (*s1 == '\0') { return 0; } }
    return fold26(*s1) - fold26(*s2);
}
/* raw difference where the folded bytes differ: 'B' sorts before 'a' */
int bad_CMP1_raw_sign(const unsigned char *s1, const unsigned char *s2)
{
    if ((s1 == NULL) || (s2 == NULL)) { return 1; }
    for (; *s1 != '\0'; (void)s1++, s2++) { if ((*s1 != *s2) && (tolower(*s1) != tolower(*s2))) { break; } }
    return *s1 - *s2;
}
/* the same loop with the folded difference */
int good_break_loop(const unsigned char *s1, const unsigned char *s2)
{
    if ((s1 == NULL) || (s2 == NULL)) { return 1; }
    for (; *s1 != '\0'; (void)s1++, s2++) { if ((*s1 != *s2) && (tolower(*s1) != tolower(*s2))) { break; } }
    return tolower(*s1) - tolower(*s2);
}
/* NULL keys compare equal */
int bad_CMP1_null_equal(const unsigned char *s1, const unsigned char *s2)
{
    if ((s1 == NULL) || (s2 == NULL)) { return 0; }
    for (; toupper(*s1) == toupper(*s2); (void)s1++, s2++) { if (*s1 == '\0') { return 0; } }
    return toupper(*s1) - toupper(*s2);
}
int cmp_users(const cJSON *a, const cJSON *b)
{
    int r = bad_CMP1_fold25((const unsigned char*)a->string, (const unsigned char*)b->string) != 0;
    r += good_fold26((const unsigned char*)a->string, (const unsigned char*)b->string) == 0;
    r += bad_CMP1_raw_sign((const unsigned char*)a->string, (const unsigned char*)b->string) < 0;
    r += good_break_loop((const unsigned char*)a->string, (const unsigned char*)b->string) < 0;
    r += bad_CMP1_null_equal((const unsigned char*)a->string, (const unsigned char*)b->string) > 0;
    return r;
}
