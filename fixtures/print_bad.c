/* Fixture playing the role of cJSON.c for the print-family rules (OUT1-OUT4 TAB2 TAB5b TAB5c TAB15 TAB16).
 * EXPECT-FAIL: OUT4 ensure
 * EXPECT-FAIL: OUT4 cJSON_PrintPreallocated
 * EXPECT-FAIL: OUT2 print_value
 * EXPECT-FAIL: PRT1 print_value
 * EXPECT-FAIL: OUT3 print_array
 * EXPECT-FAIL: OUT8 print_array
 * EXPECT-FAIL: OUT2 print_array
 * EXPECT-FAIL: TAB15 print_array
 * EXPECT-FAIL: TAB5b print_string_ptr
 * EXPECT-FAIL: TAB5c print_string_ptr
 * EXPECT-FAIL: TAB16 print_number
 * EXPECT-FAIL: OUT1 print_number
 * EXPECT-FAIL: NUM1 print_number
 * EXPECT-FAIL: OUT3 print_number   (the terminator is written through the raw buffer, OUT1; through the granted pointer none is)
 * EXPECT-FAIL: TAB2 cJSON_PrintUnformatted
 * EXPECT-FAIL: TAB2 print
 */
#include "cJSON.h"
#include <string.h>
#include <stdlib.h>
#include <stdio.h>
#include <limits.h>
#define true ((cJSON_bool)1)
#define false ((cJSON_bool)0)
typedef struct internal_hooks { void *(*allocate)(size_t size); void (*deallocate)(void *pointer); void *(*reallocate)(void *pointer, size_t size); } internal_hooks;
static internal_hooks global_hooks = { malloc, free, realloc };
typedef struct { unsigned char *buffer; size_t length; size_t offset; size_t depth; cJSON_bool noalloc; cJSON_bool format; internal_hooks hooks; } printbuffer;

/* OUT4: growth before the noalloc test; request compared with one byte of slack too many */
static unsigned char* ensure(printbuffer * const p, size_t needed)
{
    unsigned char *newbuffer = NULL;
    size_t newsize = 0;
    if ((p == NULL) || (p->buffer == NULL)) { return NULL; }
    if (needed > INT_MAX) { return NULL; }
    needed += p->offset;
    if (needed <= p->length) { return p->buffer + p->offset; }
    newsize = needed * 2;
    newbuffer = (unsigned char*)p->hooks.allocate(newsize);
    if (p->noalloc) { return NULL; }
    if (!newbuffer) { p->hooks.deallocate(p->buffer); p->length = 0; p->buffer = NULL; return NULL; }
    memcpy(newbuffer, p->buffer, p->offset + 1);
    p->hooks.deallocate(p->buffer);
    p->length = newsize;
    p->buffer = newbuffer;
    return newbuffer + p->offset;
}
static void update_offset(printbuffer * const buffer)
{
    if ((buffer == NULL) || (buffer->buffer == NULL)) { return; }
    buffer->offset += strlen((const char*)(buffer->buffer + buffer->offset));
}
static unsigned char get_decimal_point(void) { return '.'; }
/* TAB16: no decimal point handling; OUT1: writes through the raw buffer */
static cJSON_bool print_number(const cJSON * const item, printbuffer * const output_buffer)
{
    unsigned char *output_pointer = NULL;
    int length = 0;
    size_t i = 0;
    unsigned char number_buffer[26] = {0};
    /* NUM1: -Infinity is formatted */
    if ((item->valuedouble != item->valuedouble) || (item->valuedouble > 1.7976931348623157e308)) { length = sprintf((char*)number_buffer, "null"); }
    else { length = sprintf((char*)number_buffer, "%1.15g", item->valuedouble); }
    if ((length < 0) || (length > (int)(sizeof(number_buffer) - 1))) { return false; }
    output_pointer = ensure(output_buffer, (size_t)length + sizeof(""));
    if (output_pointer == NULL) { return false; }
    for (i = 0; i < ((size_t)length); i++) { output_pointer[i] = number_buffer[i]; }
    output_buffer->buffer[output_buffer->offset + i] = '\0';
    output_buffer->offset += (size_t)length;
    return true;
}
/* OUT1: a bounded text printed straight into the output where the code itself has shown that it fits */
static cJSON_bool bad_OUT1_direct_tight(const int number, printbuffer * const output_buffer)
{
    int length = 0;
    if (output_buffer->buffer == NULL) { return false; }
    if ((output_buffer->offset < output_buffer->length) && ((output_buffer->length - output_buffer->offset) >= 11))
    {
        length = sprintf((char*)(output_buffer->buffer + output_buffer->offset), "%d", number);
        if (length < 0) { return false; }
        output_buffer->offset += (size_t)length;
        return true;
    }
    return false;
}
static cJSON_bool good_direct_room(const int number, printbuffer * const output_buffer)
{
    int length = 0;
    if (output_buffer->buffer == NULL) { return false; }
    if ((output_buffer->offset < output_buffer->length) && ((output_buffer->length - output_buffer->offset) > 11))
    {
        length = sprintf((char*)(output_buffer->buffer + output_buffer->offset), "%d", number);
        if (length < 0) { return false; }
        output_buffer->offset += (size_t)length;
        return true;
    }
    return false;
}
cJSON_bool use_direct(int n, printbuffer *p) { return bad_OUT1_direct_tight(n, p) + good_direct_room(n, p); }
/* TAB5b: tab not counted; TAB5c: vertical tab written as \v */
static cJSON_bool print_string_ptr(const unsigned char * const input, printbuffer * const output_buffer)
{
    const unsigned char *input_pointer = NULL;
    unsigned char *output = NULL;
    unsigned char *output_pointer = NULL;
    size_t output_length = 0;
    size_t escape_characters = 0;
    if (output_buffer == NULL) { return false; }
    if (input == NULL) { return false; }
    for (input_pointer = input; *input_pointer; input_pointer++)
    {
        switch (*input_pointer)
        {
            case '\"': case '\\': case '\b': case '\f': case '\n': case '\r': case '\v':
                escape_characters++;
                break;
            default:
                if (*input_pointer < 32) { escape_characters += 5; }
                break;
        }
    }
    output_length = (size_t)(input_pointer - input) + escape_characters;
    output = ensure(output_buffer, output_length + sizeof("\"\""));
    if (output == NULL) { return false; }
    output[0] = '\"';
    output_pointer = output + 1;
    for (input_pointer = input; *input_pointer != '\0'; (void)input_pointer++, output_pointer++)
    {
        if ((*input_pointer > 31) && (*input_pointer != '\"') && (*input_pointer != '\\')) { *output_pointer = *input_pointer; }
        else
        {
            *output_pointer++ = '\\';
            switch (*input_pointer)
            {
                case '\\': *output_pointer = '\\'; break;
                case '\"': *output_pointer = '\"'; break;
                case '\b': *output_pointer = 'b'; break;
                case '\f': *output_pointer = 'f'; break;
                case '\n': *output_pointer = 'n'; break;
                case '\r': *output_pointer = 'r'; break;
                case '\t': *output_pointer = 't'; break;
                case '\v': *output_pointer = 'v'; break;
                default:
                    sprintf((char*)output_pointer, "u%04x", *input_pointer);
                    output_pointer += 4;
                    break;
            }
        }
    }
    output[output_length + 1] = '\"';
    output[output_length + 2] = '\0';
    return true;
}
static cJSON_bool print_array(const cJSON * const item, printbuffer * const output_buffer);
/* OUT2: "false" needs 6 bytes */
typedef struct { size_t depth; } parse_buffer_stub;
static int parse_array(parse_buffer_stub * const b) { if (b->depth >= CJSON_NESTING_LIMIT) { return 0; } b->depth++; return 1; }
static cJSON_bool print_value(const cJSON * const item, printbuffer * const output_buffer)
{
    unsigned char *output = NULL;
    if ((item == NULL) || (output_buffer == NULL)) { return false; }
    /* PRT1: refuses scalars inside the deepest containers the parser accepts */
    if (output_buffer->depth >= CJSON_NESTING_LIMIT) { return false; }
    switch ((item->type) & 0xFF)
    {
        case cJSON_False:
            output = ensure(output_buffer, 5);
            if (output == NULL) { return false; }
            strcpy((char*)output, "false");
            return true;
        case cJSON_Number: return print_number(item, output_buffer);
        case cJSON_String: return print_string_ptr((unsigned char*)item->valuestring, output_buffer);
        case cJSON_Array: return print_array(item, output_buffer);
        default: return false;
    }
}
/* OUT3: '[' written but offset not advanced; OUT2: separator request one short; TAB15: format decides a non-blank byte */
static cJSON_bool print_array(const cJSON * const item, printbuffer * const output_buffer)
{
    unsigned char *output_pointer = NULL;
    size_t length = 0;
    cJSON *current_element = item->child;
    if (output_buffer == NULL) { return false; }
    output_pointer = ensure(output_buffer, 1);
    if (output_pointer == NULL) { return false; }
    *output_pointer = '[';
    output_buffer->depth++;
    while (current_element != NULL)
    {
        if (!print_value(current_element, output_buffer)) { return false; }
        update_offset(output_buffer);
        if (current_element->next)
        {
            length = (size_t) (output_buffer->format ? 2 : 1);
            output_pointer = ensure(output_buffer, length);
            if (output_pointer == NULL) { return false; }
            *output_pointer++ = ',';
            if (output_buffer->format) { *output_pointer++ = ';'; }
            *output_pointer = '\0';
            output_buffer->offset += length;
        }
        current_element = current_element->next;
    }
    output_pointer = ensure(output_buffer, 2);
    if (output_pointer == NULL) { return false; }
    *output_pointer++ = ']';
    *output_pointer = '\0';
    output_buffer->depth--;
    return true;
}
/* TAB2: print() ignores its format argument */
static unsigned char *print(const cJSON * const item, cJSON_bool format, const internal_hooks * const hooks)
{
    printbuffer buffer[1];
    memset(buffer, 0, sizeof(buffer));
    buffer->buffer = (unsigned char*) hooks->allocate(256);
    buffer->length = 256;
    buffer->format = true;
    buffer->hooks = *hooks;
    (void)format;
    if (buffer->buffer == NULL) { return NULL; }
    if (!print_value(item, buffer)) { hooks->deallocate(buffer->buffer); return NULL; }
    return buffer->buffer;
}
char *cJSON_Print(const cJSON *item) { return (char*)print(item, true, &global_hooks); }
/* TAB2: asks for formatted output */
char *cJSON_PrintUnformatted(const cJSON *item) { return (char*)print(item, true, &global_hooks); }
char *cJSON_PrintBuffered(const cJSON *item, int prebuffer, cJSON_bool fmt)
{
    printbuffer p = { 0, 0, 0, 0, 0, 0, { 0, 0, 0 } };
    if (prebuffer < 0) { return NULL; }
    p.buffer = (unsigned char*)global_hooks.allocate((size_t)prebuffer);
    if (!p.buffer) { return NULL; }
    p.length = (size_t)prebuffer; p.offset = 0; p.noalloc = false; p.format = fmt; p.hooks = global_hooks;
    if (!print_value(item, &p)) { global_hooks.deallocate(p.buffer); p.buffer = NULL; return NULL; }
    return (char*)p.buffer;
}
/* OUT4: noalloc not set, length one too large */
cJSON_bool cJSON_PrintPreallocated(cJSON *item, char *buffer, const int length, const cJSON_bool format)
{
    printbuffer p = { 0, 0, 0, 0, 0, 0, { 0, 0, 0 } };
    if ((length < 0) || (buffer == NULL)) { return false; }
    p.buffer = (unsigned char*)buffer;
    p.length = (size_t)length + 1;
    p.offset = 0;
    p.noalloc = false;
    p.format = format;
    p.hooks = global_hooks;
    return print_value(item, &p);
}
unsigned char print_bad_use(void) { return get_decimal_point(); }

/* OUT8 (stale offset): the text is cut where the last token starts */
char *bad_OUT8_detach_without_update(const cJSON *item)
{
    printbuffer p;
    memset(&p, 0, sizeof(p));
    p.buffer = (unsigned char*)malloc(64);
    p.length = 64;
    p.hooks = global_hooks;
    if (p.buffer == NULL) { return NULL; }
    if (!print_value(item, &p)) { free(p.buffer); return NULL; }
    return (p.offset > 0) ? (char*)p.buffer : NULL;
}
char *good_detach_after_update(const cJSON *item)
{
    printbuffer p;
    memset(&p, 0, sizeof(p));
    p.buffer = (unsigned char*)malloc(64);
    p.length = 64;
    p.hooks = global_hooks;
    if (p.buffer == NULL) { return NULL; }
    if (!print_value(item, &p)) { free(p.buffer); return NULL; }
    update_offset(&p);
    return (p.offset > 0) ? (char*)p.buffer : NULL;
}
