/* Fixture for BND3 (NUL-terminated cursors): functions are analysed as entry points taking strings. */
#include <stddef.h>
char *bad_BND3_skip_two(char *s) { if (s[0] == '/') { s += 2; } return s; }
char *good_skip_two(char *s) { if ((s[0] == '/') && (s[1] == '/')) { s += 2; } return s; }
int bad_BND3_lookahead(const char *s) { return s[1] == 'x'; }
int good_lookahead(const char *s) { return (s[0] != '\0') && (s[1] == 'x'); }
size_t bad_BND3_loop_steps_over(const char *s) { size_t n = 0; for (; s[0] != '\0'; s++) { if (s[0] == '*') { s++; } n++; } return n; }
size_t good_loop(const char *s) { size_t n = 0; for (; s[0] != '\0'; s++) { if ((s[0] == '*') && (s[1] == '/')) { s++; } n++; } return n; }
static void h_skip(char **input) { *input += 2; }
char *bad_BND3_call(char *s) { if (s[0] == '/') { h_skip(&s); } return s; }
char *good_call(char *s) { if ((s[0] == '/') && (s[1] == '*')) { h_skip(&s); } return s; }
size_t bad_BND3_index(const unsigned char *p) { size_t i = 0; while (p[i] != '/') { i++; } return i; }
size_t good_index(const unsigned char *p) { size_t i = 0; while ((p[i] >= '0') && (p[i] <= '9')) { i++; } return i; }
/* cursor handed back to the caller / local copies of the caller's cursor */
static void bad_BND3_handback(char **input) { char *c = *input; while (*c != '\0') { c++; } *input = c + 1; }
static void good_handback(char **input) { char *c = *input; while (*c != '\0') { if (*c++ == '\n') { break; } } *input = c; }
static void h_place(char **input) { char *c = *input + 2; while (*c != '\0') { c++; } *input = c; }
char *bad_BND3_place_call(char *s) { if (s[0] == '/') { h_place(&s); } return s; }
char *good_place_call(char *s) { if ((s[0] == '/') && (s[1] == '/')) { h_place(&s); } return s; }
char *use_handback(char *s) { bad_BND3_handback(&s); good_handback(&s); return s; }
