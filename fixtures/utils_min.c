/* minimal clean unit playing the role of cJSON_Utils.c */
#include <stddef.h>
static int utils_min_dummy(int x) { return x + 1; }
int utils_min_use(int x) { return utils_min_dummy(x); }
