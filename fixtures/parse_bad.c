/* Fixture playing the role of cJSON.c for the parser rules (BND1 BND2 BND4 BND5 BND6 EFF7 TAB1 TAB13 C10*).
 * bad_<RULE>_* must be reported by <RULE>; h_* helpers and good_* must stay silent.
 * EXPECT-FAIL: C10R cJSON_ParseWithLengthOpts
 * EXPECT-FAIL: C10P cJSON_ParseWithLengthOpts
 * EXPECT-FAIL: C10T cJSON_ParseWithLengthOpts
 * EXPECT-FAIL: NUM2 parse_number
 * EXPECT-FAIL: NUM3 parse_number
 */
#include <stddef.h>
#include <string.h>
#include <stdio.h>
#include <stdlib.h>
#define CJSON_NESTING_LIMIT 1000
typedef struct internal_hooks { void *(*allocate)(size_t size); void (*deallocate)(void *pointer); void *(*reallocate)(void *pointer, size_t size); } internal_hooks;
typedef struct
{
    const unsigned char *content;
    size_t length;
    size_t offset;
    size_t depth;
    internal_hooks hooks;
} parse_buffer;
typedef struct { const unsigned char *json; size_t position; } error;
static error global_error = { NULL, 0 };
#define can_read(buffer, size) ((buffer != NULL) && (((buffer)->offset + size) <= (buffer)->length))
#define can_access_at_index(buffer, index) ((buffer != NULL) && (((buffer)->offset + index) < (buffer)->length))
#define cannot_access_at_index(buffer, index) (!can_access_at_index(buffer, index))
#define buffer_at_offset(buffer) ((buffer)->content + (buffer)->offset)

static parse_buffer *buffer_skip_whitespace(parse_buffer * const buffer)
{
    if ((buffer == NULL) || (buffer->content == NULL)) { return NULL; }
    if (cannot_access_at_index(buffer, 0)) { return buffer; }
    while (can_access_at_index(buffer, 0) && (buffer_at_offset(buffer)[0] <= 32)) { buffer->offset++; }
    if (buffer->offset == buffer->length) { buffer->offset--; }
    return buffer;
}
/* TAB22: read through a plain char, bytes 0x80..0xFF are negative and pass for whitespace */
static parse_buffer *bad_TAB22_signed_skip(parse_buffer * const buffer)
{
    const char *cursor = NULL;
    const char *end = NULL;
    if ((buffer == NULL) || (buffer->content == NULL)) { return NULL; }
    cursor = (const char*)buffer_at_offset(buffer);
    end = (const char*)buffer->content + buffer->length;
    while ((cursor < end) && (*cursor <= ' ')) { cursor++; }
    buffer->offset = (size_t)(cursor - (const char*)buffer->content);
    return buffer;
}
static parse_buffer *good_unsigned_skip(parse_buffer * const buffer)
{
    const unsigned char *cursor = NULL;
    const unsigned char *end = NULL;
    if ((buffer == NULL) || (buffer->content == NULL)) { return NULL; }
    cursor = buffer_at_offset(buffer);
    end = buffer->content + buffer->length;
    while ((cursor < end) && (*cursor <= ' ')) { cursor++; }
    buffer->offset = (size_t)(cursor - buffer->content);
    return buffer;
}
int use_skips(parse_buffer *b) { return (bad_TAB22_signed_skip(b) != NULL) + (good_unsigned_skip(b) != NULL); }
static parse_buffer *skip_utf8_bom(parse_buffer * const buffer)
{
    if ((buffer == NULL) || (buffer->content == NULL) || (buffer->offset != 0)) { return NULL; }
    if (can_access_at_index(buffer, 4) && (strncmp((const char*)buffer_at_offset(buffer), "\xEF\xBB\xBF", 3) == 0)) { buffer->offset += 3; }
    return buffer;
}

/* helpers with entry requirements (inferred) */
static int h_reads_first(parse_buffer * const b) { return buffer_at_offset(b)[0] == '['; }
static int h_reads_second(parse_buffer * const b) { return buffer_at_offset(b)[1] == '['; }
static int h_guarded(parse_buffer * const b) { return can_access_at_index(b, 2) && (buffer_at_offset(b)[2] == 'x'); }
static int h_literal(parse_buffer * const b) { return can_read(b, 4) && (strncmp((const char*)buffer_at_offset(b), "null", 4) == 0); }
static unsigned h_hex(const unsigned char * const input) { return (unsigned)input[0] + input[3]; }

/* BND1 */
int bad_BND1_empty_buffer(const char *v, size_t n)
{
    parse_buffer b = { 0, 0, 0, 0, { 0, 0, 0 } };
    b.content = (const unsigned char*)v; b.length = n; b.offset = 0;
    return h_reads_first(&b);
}
int good_nonempty_buffer(const char *v, size_t n)
{
    parse_buffer b = { 0, 0, 0, 0, { 0, 0, 0 } };
    if (n == 0) { return 0; }
    b.content = (const unsigned char*)v; b.length = n; b.offset = 0;
    return h_reads_first(&b) + h_guarded(&b) + h_literal(&b);
}
int bad_BND1_needs_two(const char *v, size_t n)
{
    parse_buffer b = { 0, 0, 0, 0, { 0, 0, 0 } };
    if (n == 0) { return 0; }
    b.content = (const unsigned char*)v; b.length = n; b.offset = 0;
    return h_reads_second(&b);
}
int good_needs_two(const char *v, size_t n)
{
    parse_buffer b = { 0, 0, 0, 0, { 0, 0, 0 } };
    if (n < 2) { return 0; }
    b.content = (const unsigned char*)v; b.length = n; b.offset = 0;
    return h_reads_second(&b);
}
static int bad_BND1_far(parse_buffer * const b) { return buffer_at_offset(b)[100] == 'x'; }
static int bad_BND1_guard_too_small(parse_buffer * const b) { return can_access_at_index(b, 100) && (buffer_at_offset(b)[101] == 'x'); }
static int bad_BND1_strncmp(parse_buffer * const b) { return can_read(b, 4) && (strncmp((const char*)buffer_at_offset(b), "a-very-long-literal", 19) == 0); }
static int bad_BND1_after_advance(parse_buffer * const b)
{
    if (cannot_access_at_index(b, 0)) { return 0; }
    b->offset++;
    b->offset += 20;
    return buffer_at_offset(b)[0] == ',';
}
static int good_after_advance(parse_buffer * const b)
{
    if (cannot_access_at_index(b, 1)) { return 0; }
    b->offset++;
    return buffer_at_offset(b)[0] == ',';
}
static int bad_BND1_strlen(parse_buffer * const b) { return (int)strlen((const char*)buffer_at_offset(b)); }

/* BND2 */
int bad_BND2_scan(const char *v, size_t n)
{
    parse_buffer b = { 0, 0, 0, 0, { 0, 0, 0 } };
    const unsigned char *p = NULL;
    if (n == 0) { return 0; }
    b.content = (const unsigned char*)v; b.length = n; b.offset = 0;
    p = buffer_at_offset(&b);
    while (*p != '\"') { p++; }
    return (int)(p - b.content);
}
int good_scan(const char *v, size_t n)
{
    parse_buffer b = { 0, 0, 0, 0, { 0, 0, 0 } };
    const unsigned char *p = NULL;
    if (n == 0) { return 0; }
    b.content = (const unsigned char*)v; b.length = n; b.offset = 0;
    p = buffer_at_offset(&b);
    while (((size_t)(p - b.content) < b.length) && (*p != '\"')) { p++; }
    return (int)(p - b.content);
}
int bad_BND2_hex(const char *v, size_t n)
{
    parse_buffer b = { 0, 0, 0, 0, { 0, 0, 0 } };
    if (n < 3) { return 0; }
    b.content = (const unsigned char*)v; b.length = n; b.offset = 0;
    return (int)h_hex(buffer_at_offset(&b));
}
int good_hex(const char *v, size_t n)
{
    parse_buffer b = { 0, 0, 0, 0, { 0, 0, 0 } };
    if (n < 4) { return 0; }
    b.content = (const unsigned char*)v; b.length = n; b.offset = 0;
    return (int)h_hex(buffer_at_offset(&b));
}

/* BND4 */
static int bad_BND4_loop(parse_buffer * const b) { unsigned char tmp[8]; size_t i; for (i = 0; i <= 8; i++) { tmp[i] = 0; } return tmp[0] + (b != NULL); }
static int good_loop(parse_buffer * const b) { unsigned char tmp[8]; size_t i; for (i = 0; i < sizeof(tmp); i++) { tmp[i] = 0; } return tmp[7] + (b != NULL); }
static int bad_BND4_sprintf(parse_buffer * const b, int v) { char tmp[8]; sprintf(tmp, "%d", v); return tmp[0] + (b != NULL); }
static int good_sprintf(parse_buffer * const b, int v) { char tmp[16]; sprintf(tmp, "%d", v); return tmp[0] + (b != NULL); }
static int bad_BND4_terminator(parse_buffer * const b) { unsigned char tmp[8]; size_t i; for (i = 0; (i < sizeof(tmp)) && can_access_at_index(b, i); i++) { tmp[i] = buffer_at_offset(b)[i]; } tmp[i] = '\0'; return tmp[0]; }

/* BND5 */
static size_t bad_BND5_position(parse_buffer * const b) { error e; e.json = b->content; e.position = b->offset; return e.position; }
static size_t bad_BND5_length(parse_buffer * const b) { error e; e.json = b->content; e.position = 0; if (b->offset >= b->length) { e.position = b->length; } return e.position; }
static size_t good_position(parse_buffer * const b) { error e; e.json = b->content; e.position = 0; if (b->offset < b->length) { e.position = b->offset; } else if (b->length > 0) { e.position = b->length - 1; } return e.position; }

/* the position is stored first and clamped afterwards; published before the clamp in the bad variant */
static size_t bad_BND5_publish_early(parse_buffer * const b, size_t *end) { error e; e.json = b->content; e.position = b->offset; *end = e.position; if (e.position >= b->length) { e.position = (b->length > 0) ? (b->length - 1) : 0; } return 0; }
static size_t good_clamp_then_publish(parse_buffer * const b, size_t *end) { error e; e.json = b->content; e.position = b->offset; if (e.position >= b->length) { e.position = (b->length > 0) ? (b->length - 1) : 0; } *end = e.position; return e.position; }

/* absolute index into the content */
static int bad_BND1_abs_index(parse_buffer * const b) { const unsigned char * const content = b->content; size_t end_index = b->offset + 1; while ((end_index <= b->length) && (content[end_index] != '\"')) { end_index++; } return (int)end_index; }
static int good_abs_index(parse_buffer * const b) { const unsigned char * const content = b->content; size_t end_index = b->offset + 1; while ((end_index < b->length) && (content[end_index] != '\"')) { if (content[end_index] == '\\') { if ((end_index + 1) >= b->length) { return 0; } end_index++; } end_index++; } return (int)end_index; }
/* hoisted limit */
static int bad_BND2_limit(parse_buffer * const b) { const unsigned char *digits = NULL; size_t limit = 0; size_t i = 0; int n = 0; if (b->offset < b->length) { digits = buffer_at_offset(b); limit = b->length - b->offset + 1; } for (i = 0; i < limit; i++) { n += digits[i]; } return n; }
static int good_limit(parse_buffer * const b) { const unsigned char *digits = NULL; size_t limit = 0; size_t i = 0; int n = 0; if (b->offset < b->length) { digits = buffer_at_offset(b); limit = b->length - b->offset; if (limit > 63) { limit = 63; } } for (i = 0; i < limit; i++) { n += digits[i]; } return n; }

/* NUM2: the offset moves by the length of the run that was copied, not by what strtod converted */
static int parse_number(parse_buffer * const b, double *out)
{
    unsigned char text[64];
    unsigned char *after_end = NULL;
    size_t i = 0;
    size_t limit = sizeof(text) - 1;
    if ((b == NULL) || cannot_access_at_index(b, 0)) { return 0; }
    if (cannot_access_at_index(b, limit)) { limit = (b->length - b->offset) - 1; }     /* NUM3: one short */
    for (i = 0; i < limit; i++) { if ((buffer_at_offset(b)[i] < '+') || (buffer_at_offset(b)[i] > 'e')) { break; } text[i] = buffer_at_offset(b)[i]; }
    text[i] = '\0';
    *out = strtod((const char*)text, (char**)&after_end);
    if (text == after_end) { return 0; }
    b->offset += i;
    return 1;
}

/* NUM6: a converted number is refused only if it is not finite */
extern int fx_errno;
static int bad_NUM6_erange(const char *text, double *out)
{
    char *after_end = NULL;
    double number = 0;
    fx_errno = 0;
    number = strtod(text, &after_end);
    if (fx_errno == 34) { return 0; }           /* raised for subnormal results as well */
    if (after_end == text) { return 0; }
    *out = number;
    return 1;
}
static int good_overflow_only(const char *text, double *out)
{
    char *after_end = NULL;
    double number = 0;
    fx_errno = 0;
    number = strtod(text, &after_end);
    if ((fx_errno == 34) && ((number > 1.7976931348623157e308) || (number < -1.7976931348623157e308))) { return 0; }
    if (after_end == text) { return 0; }
    *out = number;
    return 1;
}
int use_num6(const char *t, double *o) { return bad_NUM6_erange(t, o) + good_overflow_only(t, o); }

/* EFF7 */
static void bad_EFF7_write(parse_buffer * const b) { if (can_access_at_index(b, 0)) { ((unsigned char*)b->content)[b->offset] = '\0'; } }

/* BND6 */
static void bad_BND6_loop(parse_buffer * const b) { while (can_access_at_index(b, 0)) { if (buffer_at_offset(b)[0] == ' ') { b->offset++; } } }
static void good_progress(parse_buffer * const b) { while (can_access_at_index(b, 0) && (buffer_at_offset(b)[0] == ' ')) { b->offset++; } }

/* TAB1 */
static int pv_bad(parse_buffer * const b);
static int bad_TAB1_arr(parse_buffer * const b) { if (cannot_access_at_index(b, 1)) { return 0; } b->offset++; return pv_bad(b); }
static int pv_bad(parse_buffer * const b) { if (can_access_at_index(b, 0) && (buffer_at_offset(b)[0] == '[')) { return bad_TAB1_arr(b); } return 0; }
static int pv_good(parse_buffer * const b);
static int good_arr(parse_buffer * const b)
{
    int r = 0;
    if (b->depth >= CJSON_NESTING_LIMIT) { return 0; }
    b->depth++;
    if (cannot_access_at_index(b, 1)) { return 0; }
    b->offset++;
    r = pv_good(b);
    if (r) { b->depth--; }
    return r;
}
static int pv_good(parse_buffer * const b) { if (can_access_at_index(b, 0) && (buffer_at_offset(b)[0] == '[')) { return good_arr(b); } return 1; }
static int pv_skip(parse_buffer * const b);
static int bad_TAB1_skips_increment(parse_buffer * const b)
{
    if (b->depth >= CJSON_NESTING_LIMIT) { return 0; }
    if (cannot_access_at_index(b, 1)) { return 0; }
    if (buffer_at_offset(b)[1] == ' ') { b->depth++; }
    b->offset++;
    return pv_skip(b);
}
static int pv_skip(parse_buffer * const b) { if (can_access_at_index(b, 0) && (buffer_at_offset(b)[0] == '[')) { return bad_TAB1_skips_increment(b); } return 1; }

/* TAB13 */
static int bad_TAB13_scan(const char *p) { int n = 0; while (p[0] != '\0') { if ((p[0] == '\\') && (p[1] == '\"')) { p++; } p++; n++; } return n; }
static int good_scan_pairs(const char *p) { int n = 0; while (p[0] != '\0') { if ((p[0] == '\\') && (p[1] != '\0')) { p++; } p++; n++; } return n; }

/* NUM5: digits accumulated in a double */
static size_t bad_NUM5_seventeen(const parse_buffer * const b, double * const number)
{
    const unsigned char *text = buffer_at_offset(b);
    double value = 0.0;
    size_t first = 0;
    size_t i = 0;
    for (i = first; can_access_at_index(b, i) && (text[i] >= '0') && (text[i] <= '9'); i++)
    {
        if ((i - first) >= 17) { return 0; }
        value = (value * 10.0) + (double)(text[i] - '0');
    }
    *number = value;
    return i;
}
static size_t good_fifteen(const parse_buffer * const b, double * const number)
{
    const unsigned char *text = buffer_at_offset(b);
    double value = 0.0;
    size_t i = 0;
    for (i = 0; (i < 15) && can_access_at_index(b, i) && (text[i] >= '0') && (text[i] <= '9'); i++)
    {
        value = (value * 10.0) + (double)(text[i] - '0');
    }
    *number = value;
    return i;
}
size_t use_num5(const parse_buffer *b, double *n) { return bad_NUM5_seventeen(b, n) + good_fifteen(b, n); }

/* ENT1: the entry point gives up in front of the value parser only when the value could not be parsed either */
static int fx_value(void *item, parse_buffer * const b) { return (item != NULL) && can_access_at_index(b, 0) && (buffer_at_offset(b)[0] == '['); }
void *bad_ENT1_blank_test(const char *value, size_t n)
{
    parse_buffer buffer = { 0, 0, 0, 0, { 0, 0, 0 } };
    if (value == NULL || n == 0) { return NULL; }
    buffer.content = (const unsigned char*)value; buffer.length = n; buffer.offset = 0;
    /* "stopped on the last byte": true for a one character document in a buffer of exact length as well */
    if ((buffer_skip_whitespace(&buffer) == NULL) || ((buffer.offset + 1) >= buffer.length)) { return NULL; }
    if (!fx_value((void*)value, &buffer)) { return NULL; }
    return (void*)value;
}
void *good_blank_test(const char *value, size_t n)
{
    parse_buffer buffer = { 0, 0, 0, 0, { 0, 0, 0 } };
    if (value == NULL || n == 0) { return NULL; }
    buffer.content = (const unsigned char*)value; buffer.length = n; buffer.offset = 0;
    if ((buffer_skip_whitespace(&buffer) == NULL) || (((buffer.offset + 1) >= buffer.length) && (buffer_at_offset(&buffer)[0] <= 32))) { return NULL; }
    if (!fx_value((void*)value, &buffer)) { return NULL; }
    return (void*)value;
}
void *bad_ENT1_refuses_digits(const char *value, size_t n)
{
    parse_buffer buffer = { 0, 0, 0, 0, { 0, 0, 0 } };
    if (value == NULL || n == 0) { return NULL; }
    buffer.content = (const unsigned char*)value; buffer.length = n; buffer.offset = 0;
    if ((buffer_skip_whitespace(&buffer) == NULL) || (buffer_at_offset(&buffer)[0] < 'A')) { return NULL; }
    if (!fx_value((void*)value, &buffer)) { return NULL; }
    return (void*)value;
}
void *good_nothing_left(const char *value, size_t n)
{
    parse_buffer buffer = { 0, 0, 0, 0, { 0, 0, 0 } };
    if (value == NULL || n == 0) { return NULL; }
    buffer.content = (const unsigned char*)value; buffer.length = n; buffer.offset = 0;
    if (cannot_access_at_index(&buffer, 0)) { return NULL; }
    if (!fx_value((void*)value, &buffer)) { return NULL; }
    return (void*)value;
}

/* C10 structure: resets only one field, publishes from two different values, no terminator check */
void *cJSON_ParseWithLengthOpts(const char *value, size_t buffer_length, const char **return_parse_end, int require_null_terminated)
{
    parse_buffer buffer = { 0, 0, 0, 0, { 0, 0, 0 } };
    void *item = NULL;
    global_error.json = NULL;
    if (value == NULL || 0 == buffer_length) { goto fail; }
    buffer.content = (const unsigned char*)value;
    buffer.length = buffer_length;
    buffer.offset = 0;
    item = (void*)value;
    if (require_null_terminated)
    {
        if (buffer.offset >= buffer.length) { goto fail; }
    }
    if (return_parse_end) { *return_parse_end = (const char*)buffer_at_offset(&buffer); }
    return item;
fail:
    if (value != NULL)
    {
        error local_error;
        local_error.json = (const unsigned char*)value;
        local_error.position = 0;
        if (buffer.offset < buffer.length) { local_error.position = buffer.offset; }
        if (return_parse_end != NULL) { *return_parse_end = (const char*)value + buffer.offset; }
        global_error = local_error;
    }
    return NULL;
}

int parse_bad_use_all(parse_buffer *b)
{
    (void)buffer_skip_whitespace(skip_utf8_bom(b));
    return pv_good(b);
}
