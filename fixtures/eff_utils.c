/* plays the role of cJSON_Utils.c */
#include <stdlib.h>
#include <string.h>
extern void *cJSON_malloc(size_t size);
extern void cJSON_free(void *object);
unsigned char *good_utils_strdup(const unsigned char *s)
{
    size_t n = strlen((const char*)s) + 1;
    unsigned char *c = (unsigned char*)cJSON_malloc(n);
    if (c != NULL) { memcpy(c, s, n); }
    return c;
}
void bad_EFF1_utils_free(void *p) { free(p); }
void bad_EFF2_utils_indirect(void (*f)(void*), void *p) { f(p); }
