/* plays the role of cJSON.c for fixtures that only need the other unit */
#include "cJSON.h"
#include <string.h>
#include <ctype.h>
static cJSON *get_object_item(const cJSON * const object, const char * const name, const cJSON_bool case_sensitive)
{
    cJSON *e = object ? object->child : NULL;
    while ((e != NULL) && (e->string != NULL) &&
           (case_sensitive ? (strcmp(name, e->string) != 0) : (tolower(name[0]) != tolower(e->string[0]))))
    {
        e = e->next;
    }
    return e;
}
cJSON *cJSON_GetObjectItem(const cJSON * const object, const char * const string) { return get_object_item(object, string, 0); }
cJSON *cJSON_GetObjectItemCaseSensitive(const cJSON * const object, const char * const string) { return get_object_item(object, string, 1); }
cJSON *cJSON_DetachItemFromObject(cJSON *object, const char *string) { return cJSON_GetObjectItem(object, string); }
cJSON *cJSON_DetachItemFromObjectCaseSensitive(cJSON *object, const char *string) { return cJSON_GetObjectItemCaseSensitive(object, string); }
