/* Fixture playing the role of cJSON.c for the parser table/structure rules (TAB4 TAB5a TAB6 TAB7 C02S C03S).
 * Every anchor function carries one seeded defect per rule.
 * EXPECT-FAIL: TAB4 parse_value
 * EXPECT-FAIL: C02S parse_value
 * EXPECT-FAIL: C03S parse_value
 * EXPECT-FAIL: TAB4 skip_utf8_bom
 * EXPECT-FAIL: TAB5a parse_string
 * EXPECT-FAIL: TAB6 utf16_literal_to_utf8
 * EXPECT-FAIL: TAB7 parse_number
 * EXPECT-FAIL: TAB21 parse_hex4
 * EXPECT-FAIL: TAB23 bad_TAB23_scan_single
 * EXPECT-FAIL: OUT9 bad_OUT9_no_terminator
 * EXPECT-FAIL: OUT9 bad_OUT9_counts_plain
 * EXPECT-FAIL: OUT9 bad_OUT9_two_for_two
 * EXPECT-FAIL: TAB23 bad_TAB23_search_single
 * EXPECT-FAIL: TAB23 bad_TAB23_search_inverted
 * EXPECT-FAIL: C02S parse_array
 * EXPECT-FAIL: C03S parse_array
 * EXPECT-FAIL: C02S parse_object
 * EXPECT-FAIL: C03S parse_object
 */
#include "cJSON.h"
#include <string.h>
#include <stddef.h>
#include <stdlib.h>
#include <limits.h>
#define true ((cJSON_bool)1)
#define false ((cJSON_bool)0)
typedef struct internal_hooks { void *(*allocate)(size_t size); void (*deallocate)(void *pointer); void *(*reallocate)(void *pointer, size_t size); } internal_hooks;
typedef struct { const unsigned char *content; size_t length; size_t offset; size_t depth; internal_hooks hooks; } parse_buffer;
#define can_read(buffer, size) ((buffer != NULL) && (((buffer)->offset + size) <= (buffer)->length))
#define can_access_at_index(buffer, index) ((buffer != NULL) && (((buffer)->offset + index) < (buffer)->length))
#define cannot_access_at_index(buffer, index) (!can_access_at_index(buffer, index))
#define buffer_at_offset(buffer) ((buffer)->content + (buffer)->offset)
static cJSON *cJSON_New_Item(const internal_hooks * const hooks) { cJSON* node = (cJSON*)hooks->allocate(sizeof(cJSON)); if (node) { memset(node, '\0', sizeof(cJSON)); } return node; }
void cJSON_Delete(cJSON *item) { (void)item; }
static cJSON_bool parse_value(cJSON * const item, parse_buffer * const input_buffer);

/* TAB7: no INT_MIN arm */
static cJSON_bool parse_number(cJSON * const item, parse_buffer * const input_buffer)
{
    double number = 0;
    unsigned char *after_end = NULL;
    unsigned char number_c_string[64];
    number_c_string[0] = '\0';
    number = strtod((const char*)number_c_string, (char**)&after_end);
    item->valuedouble = number;
    if (number >= INT_MAX) { item->valueint = INT_MAX; }
    else { item->valueint = (int)number; }
    item->type = cJSON_Number;
    input_buffer->offset += (size_t)(after_end - number_c_string);
    return true;
}
/* TAB21: case folding with | 0x20 also maps 0x10..0x19 onto the digits */
static unsigned parse_hex4(const unsigned char * const input)
{
    unsigned int h = 0;
    size_t i = 0;
    for (i = 0; i < 4; i++)
    {
        unsigned char digit = (unsigned char)(input[i] | 0x20);
        h = h << 4;
        if ((digit >= '0') && (digit <= '9')) { h += (unsigned int) digit - '0'; }
        else if ((digit >= 'a') && (digit <= 'f')) { h += (unsigned int) 10 + digit - 'a'; }
        else { return 0; }
    }
    return h;
}
/* TAB6: high-surrogate upper bound wrong, combine constant wrong */
static unsigned char utf16_literal_to_utf8(const unsigned char * const input_pointer, const unsigned char * const input_end, unsigned char **output_pointer)
{
    long unsigned int codepoint = 0;
    unsigned int first_code = 0;
    const unsigned char *first_sequence = input_pointer;
    unsigned char utf8_length = 0;
    unsigned char utf8_position = 0;
    unsigned char sequence_length = 0;
    unsigned char first_byte_mark = 0;
    if ((input_end - first_sequence) < 6) { goto fail; }
    first_code = parse_hex4(first_sequence + 2);
    if ((first_code == 0) || ((first_code >= 0xDC00) && (first_code <= 0xDFFF))) { goto fail; }
    if ((first_code >= 0xD800) && (first_code <= 0xDFFF))
    {
        const unsigned char *second_sequence = first_sequence + 6;
        unsigned int second_code = 0;
        sequence_length = 12;
        if ((input_end - second_sequence) < 6) { goto fail; }
        second_code = parse_hex4(second_sequence + 2);
        if ((second_code < 0xDC00) || (second_code > 0xDFFF)) { goto fail; }
        codepoint = 0x1000 + (((first_code & 0x3FF) << 10) | (second_code & 0x3FF));
    }
    else { sequence_length = 6; codepoint = first_code; }
    if (codepoint < 0x80) { utf8_length = 1; }
    else if (codepoint < 0x800) { utf8_length = 2; first_byte_mark = 0xC0; }
    else if (codepoint < 0x10000) { utf8_length = 3; first_byte_mark = 0xE0; }
    else if (codepoint <= 0x10FFFF) { utf8_length = 4; first_byte_mark = 0xF0; }
    else { goto fail; }
    for (utf8_position = (unsigned char)(utf8_length - 1); utf8_position > 0; utf8_position--)
    {
        (*output_pointer)[utf8_position] = (unsigned char)((codepoint | 0x80) & 0xBF);
        codepoint >>= 6;
    }
    if (utf8_length > 1) { (*output_pointer)[0] = (unsigned char)((codepoint | first_byte_mark) & 0xFF); }
    else { (*output_pointer)[0] = (unsigned char)(codepoint & 0x7F); }
    *output_pointer += utf8_length;
    return sequence_length;
fail:
    return 0;
}
/* TAB5a: \b decodes to form feed, \v accepted, default copies */
static cJSON_bool parse_string(cJSON * const item, parse_buffer * const input_buffer)
{
    const unsigned char *input_pointer = buffer_at_offset(input_buffer) + 1;
    const unsigned char *input_end = input_pointer + 4;
    unsigned char *output_pointer = (unsigned char*)input_buffer->hooks.allocate(16);
    unsigned char *output = output_pointer;
    if (output == NULL) { goto fail; }
    while (input_pointer < input_end)
    {
        if (*input_pointer != '\\') { *output_pointer++ = *input_pointer++; }
        else
        {
            unsigned char sequence_length = 2;
            switch (input_pointer[1])
            {
                case 'b': *output_pointer++ = '\f'; break;
                case 'f': *output_pointer++ = '\f'; break;
                case 'n': *output_pointer++ = '\n'; break;
                case 'r': *output_pointer++ = '\r'; break;
                case 't': *output_pointer++ = '\t'; break;
                case 'v': *output_pointer++ = '\v'; break;
                case '\"': case '\\': case '/': *output_pointer++ = input_pointer[1]; break;
                case 'u':
                    sequence_length = utf16_literal_to_utf8(input_pointer, input_end, &output_pointer);
                    break;
                default:
                    *output_pointer++ = input_pointer[1];
                    break;
            }
            input_pointer += sequence_length;
        }
    }
    *output_pointer = '\0';
    item->type = cJSON_String;
    item->valuestring = (char*)output;
    return true;
fail:
    return false;
}
/* TAB23: where the literal ends. The scan and the copying loop behind it stand for parse_string's two passes. */
#define SCAN_TAIL \
    out = (unsigned char*)input_buffer->hooks.allocate((size_t)(input_end - input_pointer) + 1); \
    if (out == NULL) { return false; } \
    item->valuestring = (char*)out; \
    while (input_pointer < input_end) { *out++ = *input_pointer++; } \
    *out = '\0'; \
    return true;
/* a backslash is stepped over alone: the quote of \" ends the literal */
static cJSON_bool bad_TAB23_scan_single(cJSON * const item, parse_buffer * const input_buffer)
{
    const unsigned char *input_pointer = buffer_at_offset(input_buffer) + 1;
    const unsigned char *input_end = buffer_at_offset(input_buffer) + 1;
    unsigned char *out = NULL;
    while (((size_t)(input_end - input_buffer->content) < input_buffer->length) && (*input_end != '\"'))
    {
        input_end++;
    }
    if (((size_t)(input_end - input_buffer->content) >= input_buffer->length) || (*input_end != '\"')) { return false; }
    SCAN_TAIL
}
static cJSON_bool good_scan_forward(cJSON * const item, parse_buffer * const input_buffer)
{
    const unsigned char *input_pointer = buffer_at_offset(input_buffer) + 1;
    const unsigned char *input_end = buffer_at_offset(input_buffer) + 1;
    unsigned char *out = NULL;
    while (((size_t)(input_end - input_buffer->content) < input_buffer->length) && (*input_end != '\"'))
    {
        if (input_end[0] == '\\')
        {
            if ((size_t)(input_end + 1 - input_buffer->content) >= input_buffer->length) { return false; }
            input_end++;
        }
        input_end++;
    }
    if (((size_t)(input_end - input_buffer->content) >= input_buffer->length) || (*input_end != '\"')) { return false; }
    SCAN_TAIL
}
/* the quote is looked for with memchr and taken for escaped when one backslash precedes it: wrong behind \\ */
static cJSON_bool bad_TAB23_search_single(cJSON * const item, parse_buffer * const input_buffer)
{
    const unsigned char *input_pointer = buffer_at_offset(input_buffer) + 1;
    const unsigned char *input_end = buffer_at_offset(input_buffer) + 1;
    const unsigned char * const buffer_end = input_buffer->content + input_buffer->length;
    unsigned char *out = NULL;
    for (;;)
    {
        if (input_end >= buffer_end) { return false; }
        input_end = (const unsigned char*)memchr(input_end, '\"', (size_t)(buffer_end - input_end));
        if (input_end == NULL) { return false; }
        if (input_end[-1] != '\\') { break; }
        input_end++;
    }
    SCAN_TAIL
}
static cJSON_bool good_search_parity(cJSON * const item, parse_buffer * const input_buffer)
{
    const unsigned char *input_pointer = buffer_at_offset(input_buffer) + 1;
    const unsigned char *input_end = buffer_at_offset(input_buffer) + 1;
    const unsigned char * const buffer_end = input_buffer->content + input_buffer->length;
    unsigned char *out = NULL;
    for (;;)
    {
        const unsigned char *run = NULL;
        if (input_end >= buffer_end) { return false; }
        input_end = (const unsigned char*)memchr(input_end, '\"', (size_t)(buffer_end - input_end));
        if (input_end == NULL) { return false; }
        run = input_end;
        while ((run > input_pointer) && (run[-1] == '\\')) { run--; }
        if (((size_t)(input_end - run) % 2) == 0) { break; }
        input_end++;
    }
    SCAN_TAIL
}
/* the run is counted, but an odd run ends the search */
static cJSON_bool bad_TAB23_search_inverted(cJSON * const item, parse_buffer * const input_buffer)
{
    const unsigned char *input_pointer = buffer_at_offset(input_buffer) + 1;
    const unsigned char *input_end = buffer_at_offset(input_buffer) + 1;
    const unsigned char * const buffer_end = input_buffer->content + input_buffer->length;
    unsigned char *out = NULL;
    for (;;)
    {
        size_t run = 0;
        if (input_end >= buffer_end) { return false; }
        input_end = (const unsigned char*)memchr(input_end, '\"', (size_t)(buffer_end - input_end));
        if (input_end == NULL) { return false; }
        while (((input_end - run) > input_pointer) && (input_end[-1 - (ptrdiff_t)run] == '\\')) { run++; }
        if ((run & 1) != 0) { break; }
        input_end++;
    }
    SCAN_TAIL
}
cJSON_bool use_scans(cJSON *item, parse_buffer *b)
{
    return bad_TAB23_scan_single(item, b) + good_scan_forward(item, b) + bad_TAB23_search_single(item, b) + good_search_parity(item, b) + bad_TAB23_search_inverted(item, b);
}
/* OUT9: the decoded string fits its block. One template, the defect selected per function. */
#define DECODE_FN(NAME, SIZE_EXTRA, PLAIN_COUNT, ESCAPE_WRITE) \
static cJSON_bool NAME(cJSON * const item, parse_buffer * const input_buffer) \
{ \
    const unsigned char *input_pointer = buffer_at_offset(input_buffer) + 1; \
    const unsigned char *input_end = buffer_at_offset(input_buffer) + 1; \
    unsigned char *output_pointer = NULL; \
    unsigned char *output = NULL; \
    size_t skipped = 0; \
    while (((size_t)(input_end - input_buffer->content) < input_buffer->length) && (*input_end != '\"')) \
    { \
        if (input_end[0] == '\\') \
        { \
            if ((size_t)(input_end + 1 - input_buffer->content) >= input_buffer->length) { return false; } \
            skipped++; \
            input_end++; \
        } \
        PLAIN_COUNT \
        input_end++; \
    } \
    if (((size_t)(input_end - input_buffer->content) >= input_buffer->length) || (*input_end != '\"')) { return false; } \
    output = (unsigned char*)input_buffer->hooks.allocate((size_t)(input_end - input_pointer) - skipped SIZE_EXTRA); \
    if (output == NULL) { return false; } \
    output_pointer = output; \
    while (input_pointer < input_end) \
    { \
        if (*input_pointer != '\\') { *output_pointer++ = *input_pointer++; } \
        else \
        { \
            switch (input_pointer[1]) \
            { \
                case 'n': *output_pointer++ = '\n'; break; \
                case '\\': case '\"': ESCAPE_WRITE *output_pointer++ = input_pointer[1]; break; \
                default: goto fail; \
            } \
            input_pointer += 2; \
        } \
    } \
    *output_pointer = '\0'; \
    item->valuestring = (char*)output; \
    return true; \
fail: \
    input_buffer->hooks.deallocate(output); \
    return false; \
}
#define NOTHING
DECODE_FN(good_decode_fits, + 1, NOTHING, NOTHING)
DECODE_FN(bad_OUT9_no_terminator, NOTHING, NOTHING, NOTHING)
DECODE_FN(bad_OUT9_counts_plain, + 1, skipped++;, NOTHING)
DECODE_FN(bad_OUT9_two_for_two, + 1, NOTHING, *output_pointer++ = '\\';)
cJSON_bool use_decoders(cJSON *item, parse_buffer *b)
{
    return good_decode_fits(item, b) + bad_OUT9_no_terminator(item, b) + bad_OUT9_counts_plain(item, b) + bad_OUT9_two_for_two(item, b);
}
/* C02S: new element linked in front; C03S: closer not demanded */
static cJSON_bool parse_array(cJSON * const item, parse_buffer * const input_buffer)
{
    cJSON *head = NULL;
    cJSON *current_item = NULL;
    if (input_buffer->depth >= CJSON_NESTING_LIMIT) { return false; }
    input_buffer->depth++;
    do
    {
        cJSON *new_item = cJSON_New_Item(&(input_buffer->hooks));
        if (new_item == NULL) { goto fail; }
        new_item->next = head;
        if (head != NULL) { head->prev = new_item; }
        head = new_item;
        current_item = new_item;
        input_buffer->offset++;
        if (!parse_value(current_item, input_buffer)) { goto fail; }
    }
    while (can_access_at_index(input_buffer, 0) && (buffer_at_offset(input_buffer)[0] == ','));
    input_buffer->depth--;
    item->type = cJSON_Array;
    item->child = head;
    input_buffer->offset++;
    return true;
fail:
    if (head != NULL) { cJSON_Delete(head); }
    return false;
}
/* C02S: key not moved; C03S: value parsed without the colon */
static cJSON_bool parse_object(cJSON * const item, parse_buffer * const input_buffer)
{
    cJSON *head = NULL;
    cJSON *current_item = NULL;
    if (input_buffer->depth >= CJSON_NESTING_LIMIT) { return false; }
    input_buffer->depth++;
    do
    {
        cJSON *new_item = cJSON_New_Item(&(input_buffer->hooks));
        if (new_item == NULL) { goto fail; }
        if (head == NULL) { current_item = head = new_item; }
        else { current_item->next = new_item; new_item->prev = current_item; current_item = new_item; }
        input_buffer->offset++;
        if (!parse_string(current_item, input_buffer)) { goto fail; }
        input_buffer->offset++;
        if (!parse_value(current_item, input_buffer)) { goto fail; }
    }
    while (can_access_at_index(input_buffer, 0) && (buffer_at_offset(input_buffer)[0] == ','));
    if (cannot_access_at_index(input_buffer, 0) || (buffer_at_offset(input_buffer)[0] != '}')) { goto fail; }
    input_buffer->depth--;
    if (head != NULL) { head->prev = current_item; }
    item->type = cJSON_Object;
    item->child = head;
    input_buffer->offset++;
    return true;
fail:
    if (head != NULL) { cJSON_Delete(head); }
    return false;
}
/* TAB4: "false" advanced by 4, "nul" accepted; C02S: numbers may start with '+'; C03S: `true` accepted without a type */
static cJSON_bool parse_value(cJSON * const item, parse_buffer * const input_buffer)
{
    if ((input_buffer == NULL) || (input_buffer->content == NULL)) { return false; }
    if (can_read(input_buffer, 4) && (strncmp((const char*)buffer_at_offset(input_buffer), "null", 3) == 0)) { item->type = cJSON_NULL; input_buffer->offset += 4; return true; }
    if (can_read(input_buffer, 5) && (strncmp((const char*)buffer_at_offset(input_buffer), "false", 5) == 0)) { item->type = cJSON_False; input_buffer->offset += 4; return true; }
    if (can_read(input_buffer, 4) && (strncmp((const char*)buffer_at_offset(input_buffer), "true", 4) == 0)) { input_buffer->offset += 4; return true; }
    if (can_access_at_index(input_buffer, 0) && (buffer_at_offset(input_buffer)[0] == '\"')) { return parse_string(item, input_buffer); }
    if (can_access_at_index(input_buffer, 0) && ((buffer_at_offset(input_buffer)[0] == '-') || (buffer_at_offset(input_buffer)[0] == '+') || ((buffer_at_offset(input_buffer)[0] >= '0') && (buffer_at_offset(input_buffer)[0] <= '9')))) { return parse_number(item, input_buffer); }
    if (can_access_at_index(input_buffer, 0) && (buffer_at_offset(input_buffer)[0] == '[')) { return parse_array(item, input_buffer); }
    if (can_access_at_index(input_buffer, 0) && (buffer_at_offset(input_buffer)[0] == '{')) { return parse_object(item, input_buffer); }
    return false;
}
static parse_buffer *skip_utf8_bom(parse_buffer * const buffer)
{
    if ((buffer == NULL) || (buffer->content == NULL) || (buffer->offset != 0)) { return NULL; }
    if (can_access_at_index(buffer, 4) && (strncmp((const char*)buffer_at_offset(buffer), "\xEF\xBB\xBF", 3) == 0)) { buffer->offset += 2; }
    return buffer;
}
int tables_bad_use(cJSON *i, parse_buffer *b) { return parse_value(i, skip_utf8_bom(b)); }
