/* Fixture for the EFF rules: plays the role of cJSON.c.  bad_<RULE>_* must be reported by <RULE>,
 * everything else must stay silent. */
#include <stdlib.h>
#include <string.h>
#include <stdio.h>
#include <time.h>
#include <locale.h>

typedef struct internal_hooks
{
    void *(*allocate)(size_t size);
    void (*deallocate)(void *pointer);
    void *(*reallocate)(void *pointer, size_t size);
} internal_hooks;
typedef struct cJSON_Hooks
{
    void *(*malloc_fn)(size_t sz);
    void (*free_fn)(void *ptr);
} cJSON_Hooks;

static internal_hooks global_hooks = { malloc, free, realloc };

typedef struct { const unsigned char *json; size_t position; } error;
static error global_error = { NULL, 0 };

typedef struct { unsigned char *buffer; size_t length; internal_hooks hooks; } printbuffer;

void cJSON_InitHooks(cJSON_Hooks* hooks)
{
    if (hooks == NULL)
    {
        global_hooks.allocate = malloc;
        global_hooks.deallocate = free;
        global_hooks.reallocate = realloc;
        return;
    }
    global_hooks.allocate = malloc;
    if (hooks->malloc_fn != NULL)
    {
        global_hooks.allocate = hooks->malloc_fn;
    }
    global_hooks.deallocate = free;
    if (hooks->free_fn != NULL)
    {
        global_hooks.deallocate = hooks->free_fn;
    }
    global_hooks.reallocate = NULL;
    if ((global_hooks.allocate == malloc) && (global_hooks.deallocate == free))
    {
        global_hooks.reallocate = realloc;
    }
}

void *cJSON_malloc(size_t size) { return global_hooks.allocate(size); }
void cJSON_free(void *object) { global_hooks.deallocate(object); }
const char *cJSON_GetErrorPtr(void) { return (const char*)(global_error.json + global_error.position); }
static void good_private_error_helper(const char *value);
void *cJSON_ParseWithLengthOpts(const char *value) { global_error.json = (const unsigned char*)value; global_error.position = 0; good_private_error_helper(value); return NULL; }
const char *cJSON_Version(void) { static char version[15]; sprintf(version, "%i", 1); return version; }

/* EFF1 */
void *bad_EFF1_direct_malloc(size_t n) { return malloc(n); }
char *bad_EFF1_strdup(const char *s) { return strdup(s); }
void bad_EFF1_free_elsewhere(void *p) { void (*f)(void*) = free; (void)f; (void)p; }
void *good_hook_alloc(size_t n) { return global_hooks.allocate(n); }
int good_compare_only(void) { return global_hooks.allocate == malloc; }

/* EFF2 */
static void use_buffer(printbuffer *p) { p->hooks.deallocate(p->buffer); }
static void *use_hooks(const internal_hooks * const hooks) { return hooks->allocate(1); }
void bad_EFF2_uninit_holder(void) { printbuffer p; p.buffer = NULL; use_buffer(&p); }
void good_holder(void) { printbuffer p; p.buffer = NULL; p.hooks = global_hooks; use_buffer(&p); }
void bad_EFF2_member_store(cJSON_Hooks *h) { printbuffer p; p.hooks = global_hooks; p.hooks.allocate = h->malloc_fn; use_buffer(&p); }
void *bad_EFF2_foreign_table(internal_hooks *mine) { internal_hooks local; local = *mine; return use_hooks(&local); }
void *good_pass_global(void) { return use_hooks(&global_hooks); }
void bad_EFF2_conditional_copy(int c) { printbuffer p; p.buffer = NULL; if (c) { p.hooks = global_hooks; } use_buffer(&p); }

/* EFF3 */
void *bad_EFF3_unguarded_realloc(void *q) { return global_hooks.reallocate(q, 10); }
void *good_guarded_realloc(void *q) { if (global_hooks.reallocate != NULL) { return global_hooks.reallocate(q, 10); } return NULL; }
void *good_guarded_realloc_neg(void *q) { if (global_hooks.reallocate == NULL) { return NULL; } return global_hooks.reallocate(q, 10); }
void *bad_EFF3_wrong_guard(void *q) { if (global_hooks.allocate != NULL) { return global_hooks.reallocate(q, 10); } return NULL; }
void bad_EFF3_always_realloc(cJSON_Hooks* hooks)
{
    if (hooks == NULL)
    {
        global_hooks.allocate = malloc;
        global_hooks.deallocate = free;
        global_hooks.reallocate = realloc;
        return;
    }
    global_hooks.allocate = malloc;
    if (hooks->malloc_fn != NULL)
    {
        global_hooks.allocate = hooks->malloc_fn;
    }
    global_hooks.deallocate = free;
    if (hooks->free_fn != NULL)
    {
        global_hooks.deallocate = hooks->free_fn;
    }
    global_hooks.reallocate = realloc;
}
void bad_EFF3_only_malloc_checked(cJSON_Hooks* hooks)
{
    if (hooks == NULL)
    {
        global_hooks.allocate = malloc;
        global_hooks.deallocate = free;
        global_hooks.reallocate = realloc;
        return;
    }
    global_hooks.allocate = malloc;
    if (hooks->malloc_fn != NULL)
    {
        global_hooks.allocate = hooks->malloc_fn;
    }
    global_hooks.deallocate = free;
    if (hooks->free_fn != NULL)
    {
        global_hooks.deallocate = hooks->free_fn;
    }
    global_hooks.reallocate = NULL;
    if (global_hooks.allocate == malloc)
    {
        global_hooks.reallocate = realloc;
    }
}
void bad_EFF3_null_keeps_custom(cJSON_Hooks* hooks)
{
    if (hooks == NULL)
    {
        global_hooks.reallocate = NULL;
        return;
    }
    global_hooks.allocate = malloc;
    global_hooks.deallocate = free;
    global_hooks.reallocate = realloc;
}

/* EFF4 */
int bad_EFF4_static_counter(void) { static int n; n++; return n; }
const char *bad_EFF4_static_buffer(int v) { static char buf[16]; sprintf(buf, "%d", v); return buf; }
int good_const_static(int i) { static const int t[3] = { 1, 2, 3 }; return t[i % 3]; }
void bad_EFF4_writes_global_error(void) { global_error.position = 1; }
size_t bad_EFF4_reads_global_error(void) { return global_error.position; }
const char *bad_EFF4_consults_accessor(const char *v) { (void)v; return cJSON_GetErrorPtr(); }
static void good_private_error_helper(const char *value) { global_error.json = (const unsigned char*)value; global_error.position = 0; }
static unsigned char cached_point = 0;
unsigned char bad_EFF4_cached_decimal_point(void) { if (cached_point == 0) { cached_point = '.'; } return cached_point; }

/* EFF5 */
char *bad_EFF5_strtok(char *s) { return strtok(s, "/"); }
int bad_EFF5_rand(void) { return rand(); }
unsigned char good_localeconv(void) { struct lconv *l = localeconv(); return (unsigned char)l->decimal_point[0]; }
