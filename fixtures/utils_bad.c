/* Fixture playing the role of cJSON_Utils.c with broken tables and idioms.
 * Functions named bad_<RULE>_* must be reported by <RULE>; anchor-named functions that must be reported are
 * listed in EXPECT-FAIL lines (rule function); everything else must stay silent.
 * EXPECT-FAIL: TAB9 encode_string_as_pointer
 * EXPECT-FAIL: TAB9 pointer_encoded_length
 * EXPECT-FAIL: TAB9 decode_pointer_inplace
 * EXPECT-FAIL: TAB9 compare_pointers
 * EXPECT-FAIL: TAB10 decode_patch_operation
 * EXPECT-FAIL: TAB10 apply_patch
 * EXPECT-FAIL: TAB12 apply_patch
 * EXPECT-FAIL: MRG1 merge_patch
 * EXPECT-FAIL: MRG2 merge_patch
 * EXPECT-FAIL: MRG3 merge_patch
 * EXPECT-FAIL: MRG4 merge_patch
 * EXPECT-FAIL: NUMU compare_json
 * EXPECT-FAIL: GEN1 create_patches
 */
#include "cJSON.h"
#include <string.h>
#include <limits.h>
#include <stdio.h>
#include <ctype.h>

static void encode_string_as_pointer(unsigned char *destination, const unsigned char *source)
{
    for (; source[0] != '\0'; (void)source++, destination++)
    {
        if (source[0] == '/')
        {
            destination[0] = '~';
            destination[1] = '0';   /* swapped */
            destination++;
        }
        else if (source[0] == '~')
        {
            destination[0] = '~';
            destination[1] = '1';   /* swapped */
            destination++;
        }
        else
        {
            destination[0] = source[0];
        }
    }
    destination[0] = '\0';
}

static size_t pointer_encoded_length(const unsigned char *string)
{
    size_t length;
    for (length = 0; *string != '\0'; (void)string++, length++)
    {
        if (*string == '/')   /* '~' forgotten */
        {
            length++;
        }
    }
    return length;
}

static void decode_pointer_inplace(unsigned char *string)
{
    unsigned char *decoded_string = string;
    for (; *string; (void)decoded_string++, string++)
    {
        if (string[0] == '~')
        {
            if (string[1] == '0')
            {
                decoded_string[0] = '/';   /* swapped */
            }
            else if (string[1] == '1')
            {
                decoded_string[0] = '~';   /* swapped */
            }
            else
            {
                return;
            }
            string++;
        }
        else
        {
            decoded_string[0] = string[0];
        }
    }
    decoded_string[0] = '\0';
}

static cJSON_bool compare_pointers(const unsigned char *name, const unsigned char *pointer, const cJSON_bool case_sensitive)
{
    for (; (*name != '\0') && (*pointer != '\0') && (*pointer != '/'); (void)name++, pointer++)
    {
        if (*pointer == '~')
        {
            if (((pointer[1] != '0') || (*name != '/')) && ((pointer[1] != '1') || (*name != '~')))   /* swapped */
            {
                return 0;
            }
            else
            {
                pointer++;
            }
        }
        else if ((!case_sensitive && (tolower(*name) != tolower(*pointer))) || (case_sensitive && (*name != *pointer)))
        {
            return 0;
        }
    }
    return 1;
}

static cJSON *get_object_item(const cJSON * const object, const char* name, const cJSON_bool case_sensitive)
{
    if (case_sensitive)
    {
        return cJSON_GetObjectItemCaseSensitive(object, name);
    }
    return cJSON_GetObjectItem(object, name);
}

enum patch_operation { INVALID, ADD, REMOVE, REPLACE, MOVE, COPY, TEST };

static enum patch_operation decode_patch_operation(const cJSON * const patch, const cJSON_bool case_sensitive)
{
    cJSON *operation = get_object_item(patch, "op", case_sensitive);
    if (!cJSON_IsString(operation))
    {
        return INVALID;
    }
    if (strcmp(operation->valuestring, "add") == 0) { return ADD; }
    if (strcmp(operation->valuestring, "remove") == 0) { return REMOVE; }
    if (strcmp(operation->valuestring, "replace") == 0) { return REPLACE; }
    if (strcmp(operation->valuestring, "move") == 0) { return MOVE; }
    /* "copy" lost */
    if (strcmp(operation->valuestring, "test") == 0) { return TEST; }
    return INVALID;
}

static int apply_patch(cJSON *object, const cJSON *patch, const cJSON_bool case_sensitive)
{
    cJSON *path = get_object_item(patch, "path", case_sensitive);
    cJSON *from = NULL;
    enum patch_operation opcode = INVALID;
    if (!cJSON_IsString(path))
    {
        return 2;
    }
    opcode = decode_patch_operation(patch, case_sensitive);
    if (opcode == INVALID) { return 3; }
    if (opcode == TEST) { return 0; }
    if ((opcode == REMOVE) || (opcode == REPLACE)) { return (int)strlen(path->valuestring); }
    if (opcode == COPY)   /* MOVE never tested */
    {
        from = get_object_item(patch, "from", case_sensitive);
        if (from == NULL)
        {
            return 4;
        }
        return (int)strlen(from->valuestring);   /* no kind test */
    }
    if (opcode == ADD) { return 0; }
    (void)object;
    return 1;
}

/* TAB8 */
static int bad_TAB8_digit(const unsigned char *p, size_t i) { return (p[i] >= '0') && (p[0] <= '9'); }
static int good_digit(const unsigned char *p, size_t i) { return (p[i] >= '0') && (p[i] <= '9'); }
static int bad_TAB8_negated(const unsigned char *p, size_t i) { return (p[i] < 'a') || (p[1] > 'f'); }
static int good_two_ranges(int a, int b) { return (a >= 0) && (a <= 9) && (b >= 0) && (b <= 9); }
static int bad_TAB8_vars(unsigned int first_code, unsigned int second_code) { return (first_code >= 0xD800) && (second_code <= 0xDBFF); }

/* TAB11 */
static cJSON *bad_TAB11_const_flag(cJSON *o, const char *n, const cJSON_bool case_sensitive) { (void)case_sensitive; return get_object_item(o, n, 0); }
static cJSON *bad_TAB11_fold(cJSON *o, const char *n, const cJSON_bool case_sensitive) { (void)case_sensitive; return cJSON_DetachItemFromObject(o, n); }
static cJSON *good_fold_in_false_arm(cJSON *o, const char *n, const cJSON_bool case_sensitive)
{
    if (!case_sensitive)
    {
        return cJSON_DetachItemFromObject(o, n);
    }
    return cJSON_DetachItemFromObjectCaseSensitive(o, n);
}
/* a helper without the flag that hands `true` on: below it the case-insensitive variant compares exactly */
static cJSON *h_exact_lookup(cJSON *o, const char *n) { return get_object_item(o, n, 1); }
static cJSON *bad_TAB11_exact_helper(cJSON *o, const char *n, const cJSON_bool case_sensitive) { (void)case_sensitive; return h_exact_lookup(o, n); }
static cJSON *good_exact_in_true_arm(cJSON *o, const char *n, const cJSON_bool case_sensitive)
{
    if (case_sensitive)
    {
        return h_exact_lookup(o, n);
    }
    return get_object_item(o, n, case_sensitive);
}
cJSON *bad_TAB11_lookupCaseSensitive(cJSON *o, const char *n) { return get_object_item(o, n, 0); }
cJSON *good_lookupCaseSensitive(cJSON *o, const char *n) { return get_object_item(o, n, 1); }

/* LST1 */
static void bad_LST1_set_child(cJSON *o, cJSON *list) { o->child = list; }
static void good_set_child(cJSON *o, cJSON *list, cJSON *last) { o->child = list; if (list != NULL) { list->prev = last; } }
static void good_set_child_via_parent(cJSON *o, cJSON *list, cJSON *last) { o->child = list; if (o->child != NULL) { o->child->prev = last; } }
static void good_reference(cJSON *o, cJSON *list) { o->type = cJSON_Array | cJSON_IsReference; o->child = list; }
static void good_clear_child(cJSON *o) { o->child = NULL; }

/* OUT5 */
static void bad_OUT5_gap(unsigned char *d, const unsigned char *s) { for (; *s; (void)s++, d++) { if (*s == '~') { d[1] = '/'; } } d[0] = 0; }
static void bad_OUT5_skip_two(unsigned char *d, const unsigned char *s) { while (*s) { d[0] = *s++; d += 2; } d[0] = 0; }
static void good_copy(unsigned char *d, const unsigned char *s) { for (; *s; (void)s++, d++) { d[0] = *s; } d[0] = 0; }
static void good_copy_postinc(unsigned char *d, const unsigned char *s) { while (*s) { *d++ = *s++; } *d = 0; }

/* OUT6 */
static void bad_OUT6_overtake(char *s) { char *w = s; while (*s) { w[0] = *s; w[1] = ' '; w += 2; s++; } *w = 0; }
static void good_inplace(char *s) { char *w = s; while (*s) { if (*s != ' ') { *w++ = *s; } s++; } *w = 0; }

/* PFX1 */
int bad_PFX1_inside(const char *pointer, const char *container) { size_t n = strlen(container); if (strncmp(pointer, container, n) != 0) { return 0; } return pointer[n] != '\0'; }
int good_inside(const char *pointer, const char *container) { size_t n = strlen(container); if (strncmp(pointer, container, n) != 0) { return 0; } return pointer[n] == '/'; }

/* ESC1 */
char *bad_ESC1_raw_key(const char *path, const cJSON *member) { char *v = (char*)cJSON_malloc(strlen(path) + strlen(member->string) + 2); sprintf(v, "%s/%s", path, member->string); return v; }
static void h_join(char *v, const char *path, const char *token) { sprintf(v, "%s/%s", path, token); }
char *bad_ESC1_via_helper(const char *path, const cJSON *member) { char *v = (char*)cJSON_malloc(strlen(path) + strlen(member->string) + 2); h_join(v, path, member->string); return v; }
char *good_token(const char *path) { char *v = (char*)cJSON_malloc(strlen(path) + 3); h_join(v, path, "-"); return v; }

/* OUT7 */
char *bad_OUT7_short(const char *a, const char *b) { char *v = (char*)cJSON_malloc(strlen(a) + strlen(b) + 1); sprintf(v, "%s/%s", a, b); return v; }
char *bad_OUT7_wrong_key(const unsigned char *path, const unsigned char *k, const unsigned char *other)
{
    size_t n = strlen((const char*)path);
    unsigned char *v = (unsigned char*)cJSON_malloc(n + pointer_encoded_length(other) + sizeof("/"));
    sprintf((char*)v, "%s/", path);
    encode_string_as_pointer(v + n + 1, k);
    return (char*)v;
}
char *good_sized(const char *a, const char *b) { char *v = (char*)cJSON_malloc(strlen(a) + strlen(b) + 2); sprintf(v, "%s/%s", a, b); return v; }
char *good_index(const char *a, size_t i) { char *v = (char*)cJSON_malloc(strlen(a) + 20 + sizeof("/")); sprintf(v, "%s/%lu", a, (unsigned long)i); return v; }

/* ESC2: a text that keeps its own length grows by the encoded length of the name appended to it */
typedef struct { unsigned char *buffer; size_t length; } fx_path;
void bad_ESC2_push_key(fx_path * const path, const unsigned char * const key)
{
    path->buffer[path->length] = '/';
    encode_string_as_pointer(path->buffer + path->length + 1, key);
    path->length += strlen((const char*)key) + 1;
}
void good_push_key(fx_path * const path, const unsigned char * const key)
{
    const size_t n = pointer_encoded_length(key);
    path->buffer[path->length] = '/';
    encode_string_as_pointer(path->buffer + path->length + 1, key);
    path->length += n + 1;
}

/* ESC3: a name byte against a token byte */
cJSON *bad_ESC3_first_byte(const cJSON * const object, const unsigned char * const token)
{
    cJSON *member = NULL;
    for (member = object->child; member != NULL; member = member->next)
    {
        const unsigned char * const key = (const unsigned char*)member->string;
        if ((key != NULL) && (key[0] != token[0])) { continue; }
        if (compare_pointers(key, token, 1)) { return member; }
    }
    return NULL;
}
cJSON *good_first_byte_guarded(const cJSON * const object, const unsigned char * const token)
{
    cJSON *member = NULL;
    for (member = object->child; member != NULL; member = member->next)
    {
        const unsigned char * const key = (const unsigned char*)member->string;
        if ((key != NULL) && (token[0] != '~') && (token[0] != '/') && (key[0] != token[0])) { continue; }
        if (compare_pointers(key, token, 1)) { return member; }
    }
    return NULL;
}

/* PTR1: text left over when the tokens end */
cJSON *bad_PTR1_resolve(cJSON * const object, const char *pointer)
{
    cJSON *current = object;
    if (pointer == NULL) { return NULL; }
    while ((pointer[0] == '/') && (current != NULL))
    {
        pointer++;
        current = current->child;
        while ((pointer[0] != '\0') && (pointer[0] != '/')) { pointer++; }
    }
    return current;
}
cJSON *good_resolve(cJSON * const object, const char *pointer)
{
    cJSON *current = object;
    if (pointer == NULL) { return NULL; }
    while ((pointer[0] == '/') && (current != NULL))
    {
        pointer++;
        current = current->child;
        while ((pointer[0] != '\0') && (pointer[0] != '/')) { pointer++; }
    }
    if (pointer[0] != '\0') { return NULL; }
    return current;
}
cJSON *good_resolve_checked_first(cJSON * const object, const char *pointer)
{
    cJSON *current = object;
    if ((pointer == NULL) || ((pointer[0] != '\0') && (pointer[0] != '/'))) { return NULL; }
    while ((pointer[0] == '/') && (current != NULL))
    {
        pointer++;
        current = current->child;
        while ((pointer[0] != '\0') && (pointer[0] != '/')) { pointer++; }
    }
    return current;
}

/* ESC4: a decoded name read as a token again */
static cJSON *h_member_by_token(const cJSON * const object, const unsigned char * const token)
{
    cJSON *m = object->child;
    while ((m != NULL) && !compare_pointers((unsigned char*)m->string, token, 1)) { m = m->next; }
    return m;
}
cJSON *bad_ESC4_decoded_token(cJSON *parent, unsigned char *last)
{
    decode_pointer_inplace(last);
    return h_member_by_token(parent, last);
}
cJSON *good_decoded_name(cJSON *parent, unsigned char *last)
{
    cJSON *found = h_member_by_token(parent, last);
    decode_pointer_inplace(last);
    return (found != NULL) ? found : cJSON_GetObjectItemCaseSensitive(parent, (char*)last);
}

/* MRG5: taking the null members out of a copy of the patch */
static void bad_MRG5_prune(cJSON * const container)
{
    cJSON *child = container->child;
    while (child != NULL)
    {
        cJSON *next = child->next;
        if (cJSON_IsNull(child)) { cJSON_Delete(cJSON_DetachItemViaPointer(container, child)); }
        else if (cJSON_IsObject(child) || cJSON_IsArray(child)) { bad_MRG5_prune(child); }
        child = next;
    }
}
static void good_prune(cJSON * const container)
{
    cJSON *child = container->child;
    while (child != NULL)
    {
        cJSON *next = child->next;
        if (cJSON_IsNull(child)) { cJSON_Delete(cJSON_DetachItemViaPointer(container, child)); }
        else if (cJSON_IsObject(child)) { good_prune(child); }
        child = next;
    }
}
void use_prune(cJSON *c) { bad_MRG5_prune(c); good_prune(c); }

/* IDX1: an index token handed to strtoul */
#include <stdlib.h>
int bad_IDX1_strtoul(const unsigned char * const pointer, size_t * const index)
{
    char *end = NULL;
    unsigned long v = strtoul((const char*)pointer, &end, 10);
    if ((end == (const char*)pointer) || ((end[0] != '\0') && (end[0] != '/'))) { return 0; }
    *index = (size_t)v;
    return 1;
}
int good_digit_first(const unsigned char * const pointer, size_t * const index)
{
    char *end = NULL;
    unsigned long v = 0;
    if ((pointer[0] < '0') || (pointer[0] > '9')) { return 0; }
    v = strtoul((const char*)pointer, &end, 10);
    if ((end[0] != '\0') && (end[0] != '/')) { return 0; }
    *index = (size_t)v;
    return 1;
}

/* FND1: a depth budget in the search for a node */
int bad_FND1_find(const cJSON * const object, const cJSON * const target, const size_t depth)
{
    const cJSON *child = NULL;
    if ((object == NULL) || (target == NULL) || (depth >= 1000)) { return 0; }
    if (object == target) { return 1; }
    for (child = object->child; child != NULL; child = child->next) { if (bad_FND1_find(child, target, depth + 1)) { return 1; } }
    return 0;
}
int good_find(const cJSON * const object, const cJSON * const target, const size_t depth)
{
    const cJSON *child = NULL;
    if ((object == NULL) || (target == NULL)) { return 0; }
    if (object == target) { return 1; }
    for (child = object->child; child != NULL; child = child->next) { if (good_find(child, target, depth + 1)) { return 1; } }
    return 0;
}

/* ORD2: a cursor taken before the members are sorted */
static void sort_object(cJSON * const object, const cJSON_bool case_sensitive) { (void)object; (void)case_sensitive; }
void bad_ORD2_sort_document(cJSON * const item, const cJSON_bool case_sensitive)
{
    cJSON *child = item->child;
    sort_object(item, case_sensitive);
    for (; child != NULL; child = child->next) { bad_ORD2_sort_document(child, case_sensitive); }
}
void good_sort_document(cJSON * const item, const cJSON_bool case_sensitive)
{
    cJSON *child = NULL;
    sort_object(item, case_sensitive);
    for (child = item->child; child != NULL; child = child->next) { good_sort_document(child, case_sensitive); }
}

/* LST1 (relinker calls, stale order) */
static cJSON *sort_list(cJSON *list, const cJSON_bool case_sensitive) { (void)case_sensitive; if (list && list->next) { cJSON *n = list->next; n->next = list; list->next = NULL; n->prev = NULL; list->prev = n; return n; } return list; }
static void bad_LST1_sort_same_head(cJSON * const object)
{
    cJSON *sorted = sort_list(object->child, 1);
    if (sorted == object->child) { return; }
    object->child = sorted;
    if (object->child != NULL) { object->child->prev = sorted; }
}
static void good_sort(cJSON * const object)
{
    object->child = sort_list(object->child, 1);
    if (object->child != NULL) { cJSON *last = object->child; while (last->next != NULL) { last = last->next; } object->child->prev = last; }
}
static void bad_LST1_tail_before_switch(cJSON *parent, cJSON *item, cJSON *replacement)
{
    replacement->next = item->next;
    replacement->prev = item->prev;
    if (replacement->next == NULL) { parent->child->prev = replacement; }
    if (parent->child == item) { parent->child = replacement; }
}
/* MRG6: no member is treated differently because of a byte of its name */
static cJSON *bad_MRG6_skips_empty_name(cJSON *target, const cJSON * const patch)
{
    cJSON *child = patch->child;
    while (child != NULL)
    {
        if ((child->string == NULL) || (child->string[0] == '\0')) { child = child->next; continue; }
        cJSON_DeleteItemFromObject(target, child->string);
        child = child->next;
    }
    return target;
}
static cJSON *good_every_name(cJSON *target, const cJSON * const patch)
{
    cJSON *child = patch->child;
    while (child != NULL)
    {
        if (child->string == NULL) { child = child->next; continue; }
        cJSON_DeleteItemFromObject(target, child->string);
        child = child->next;
    }
    return target;
}
cJSON *use_mrg6(cJSON *t, const cJSON *p) { return good_every_name(bad_MRG6_skips_empty_name(t, p), p); }
/* OWN11: a node handed over by value and then freed alone */
static void fx_overwrite_keeps_name(cJSON * const root, const cJSON replacement)
{
    char *name = root->string;
    memcpy(root, &replacement, sizeof(cJSON));
    root->string = name;             /* the replacement's name is in nobody's hands now */
}
static void fx_overwrite_all(cJSON * const root, const cJSON replacement)
{
    memcpy(root, &replacement, sizeof(cJSON));
}
void bad_OWN11_frees_node_alone(cJSON *root, cJSON *value)
{
    fx_overwrite_keeps_name(root, *value);
    cJSON_free(value);
}
void good_releases_name_first(cJSON *root, cJSON *value)
{
    fx_overwrite_keeps_name(root, *value);
    cJSON_free(value->string);
    cJSON_free(value);
}
void good_everything_moved(cJSON *root, cJSON *value)
{
    fx_overwrite_all(root, *value);
    cJSON_free(value);
}
/* ESC5: a search-driven decoder resumes behind the character it just decoded */
static void bad_ESC5_resume_at_decoded(unsigned char *string)
{
    unsigned char *escape = (unsigned char*)strchr((char*)string, '~');
    while (escape != NULL)
    {
        if (escape[1] == '0') { escape[0] = '~'; } else if (escape[1] == '1') { escape[0] = '/'; } else { return; }
        memmove(escape + 1, escape + 2, strlen((char*)(escape + 2)) + 1);
        escape = (unsigned char*)strchr((char*)escape, '~');
    }
}
static void good_resume_behind(unsigned char *string)
{
    unsigned char *escape = (unsigned char*)strchr((char*)string, '~');
    while (escape != NULL)
    {
        if (escape[1] == '0') { escape[0] = '~'; } else if (escape[1] == '1') { escape[0] = '/'; } else { return; }
        memmove(escape + 1, escape + 2, strlen((char*)(escape + 2)) + 1);
        escape = (unsigned char*)strchr((char*)(escape + 1), '~');
    }
}
void use_esc5(unsigned char *s) { bad_ESC5_resume_at_decoded(s); good_resume_behind(s); }
/* TAB20 */
static int bad_TAB20_first_byte(const cJSON *a, const cJSON *b) { int diff = a->string[0] - b->string[0]; if (diff == 0) { diff = strcmp(a->string, b->string); } return diff; }
static int good_key_compare(const cJSON *a, const cJSON *b) { if (a->string[0] == '\0') { return -1; } return strcmp(a->string, b->string); }

/* TAB18 / ORD1 */
static cJSON_bool decode_index(const unsigned char * const pointer, size_t * const index) { *index = (size_t)(pointer[0] - '0'); return 1; }
static cJSON *get_item_from_pointer(cJSON * const object, const char * pointer, const cJSON_bool case_sensitive) { (void)pointer; (void)case_sensitive; return object ? object->child : NULL; }
static cJSON *detach_path(cJSON *object, const unsigned char *path, const cJSON_bool case_sensitive) { (void)path; (void)case_sensitive; return object ? object->child : NULL; }
cJSON *bad_TAB18_narrow(cJSON *array, const unsigned char *p) { size_t index = 0; if (!decode_index(p, &index)) { return NULL; } return cJSON_GetArrayItem(array, (int)index); }
cJSON *good_narrow_guarded(cJSON *array, const unsigned char *p) { size_t index = 0; if (!decode_index(p, &index)) { return NULL; } if (index > (size_t)2147483647) { return NULL; } return cJSON_GetArrayItem(array, (int)index); }
cJSON *bad_TAB18_guard_too_wide(cJSON *array, const unsigned char *p) { size_t index = 0; if (!decode_index(p, &index)) { return NULL; } if (index > (size_t)4294967295u) { return NULL; } return cJSON_GetArrayItem(array, (int)index); }
cJSON *good_wide(cJSON *array, const unsigned char *p) { size_t index = 0; cJSON *c = array->child; if (!decode_index(p, &index)) { return NULL; } while ((c != NULL) && (index > 0)) { index--; c = c->next; } return c; }
int bad_ORD1_stale(cJSON *object, const char *to, const unsigned char *from)
{
    cJSON *parent = get_item_from_pointer(object, to, 1);
    cJSON *value = detach_path(object, from, 1);
    if ((parent == NULL) || (value == NULL)) { return 1; }
    cJSON_AddItemToArray(parent, value);
    return 0;
}
int good_order(cJSON *object, const char *to, const unsigned char *from)
{
    cJSON *value = detach_path(object, from, 1);
    cJSON *parent = get_item_from_pointer(object, to, 1);
    if ((parent == NULL) || (value == NULL)) { return 1; }
    cJSON_AddItemToArray(parent, value);
    return 0;
}

int utils_bad_use_all(cJSON *o, unsigned char *b, char *c)
{
    (void)compare_pointers(b, b, 1); decode_pointer_inplace(b); (void)apply_patch(o, o, 1);
    (void)bad_TAB8_digit(b, 0); (void)good_digit(b, 0); (void)bad_TAB8_negated(b, 0); (void)good_two_ranges(1, 2); (void)bad_TAB8_vars(1, 2);
    (void)bad_TAB11_const_flag(o, c, 1); (void)bad_TAB11_fold(o, c, 1); (void)good_fold_in_false_arm(o, c, 1); (void)bad_TAB11_exact_helper(o, c, 0); (void)good_exact_in_true_arm(o, c, 0);
    bad_LST1_set_child(o, o); good_set_child(o, o, o); good_set_child_via_parent(o, o, o); good_reference(o, o); good_clear_child(o);
    bad_OUT5_gap(b, b); bad_OUT5_skip_two(b, b); good_copy(b, b); good_copy_postinc(b, b); bad_OUT6_overtake(c); good_inplace(c);
    return 0;
}

/* MRG: merge patch application that (1) copies an object patch member verbatim when the target member is no object,
 * (2) sets a member although the patch value is null, (3) adds members to a target it never made an object */
static cJSON *merge_patch(cJSON *target, const cJSON * const patch)
{
    const cJSON *patch_child = NULL;
    if (!cJSON_IsObject(patch)) { cJSON_Delete(target); return cJSON_Duplicate(patch, 1); }
    for (patch_child = patch->child; patch_child != NULL; patch_child = patch_child->next)
    {
        cJSON *member = cJSON_GetObjectItemCaseSensitive(target, patch_child->string);
        if (cJSON_IsNull(patch_child)) { cJSON_DeleteItemFromObjectCaseSensitive(target, patch_child->string); }
        if (cJSON_IsObject(patch_child) && cJSON_IsObject(member)) { (void)merge_patch(member, patch_child); continue; }
        if (cJSON_IsArray(patch_child) && (member != NULL)) { cJSON_ReplaceItemViaPointer(target, member, cJSON_Duplicate(patch_child, 1)); continue; }   /* MRG4: no key */
        cJSON_DeleteItemFromObjectCaseSensitive(target, patch_child->string);
        cJSON_AddItemToObject(target, patch_child->string, cJSON_Duplicate(patch_child, 1));
    }
    return target;
}
CJSON_PUBLIC(cJSON *) cJSONUtils_MergePatch(cJSON *target, const cJSON * const patch);
CJSON_PUBLIC(cJSON *) cJSONUtils_MergePatch(cJSON *target, const cJSON * const patch) { return merge_patch(target, patch); }

/* GEN1: a depth budget silently drops differences */
static void emit_op(cJSON *patches, const char *op, const unsigned char *path, const cJSON *value) { cJSON *p = cJSON_CreateObject(); (void)op; (void)path; (void)value; cJSON_AddItemToArray(patches, p); }
static void create_patches(cJSON * const patches, const unsigned char * const path, cJSON * const from, cJSON * const to, const size_t depth)
{
    if ((from == NULL) || (to == NULL)) { return; }
    if (depth >= 1000) { return; }
    if ((from->type & 0xFF) != (to->type & 0xFF)) { emit_op(patches, "replace", path, to); return; }
    if ((from->type & 0xFF) == cJSON_Array)
    {
        cJSON *a = from->child;
        cJSON *b = to->child;
        size_t index = 0;
        for (; (a != NULL) && (b != NULL); (void)(a = a->next), (void)(b = b->next), index++)
        {
            if (index > ULONG_MAX) { return; }
            create_patches(patches, path, a, b, depth + 1);
        }
        return;
    }
    if (from->valueint != to->valueint) { emit_op(patches, "replace", path, to); }
}
CJSON_PUBLIC(cJSON *) cJSONUtils_GeneratePatches(cJSON * const from, cJSON * const to);
CJSON_PUBLIC(cJSON *) cJSONUtils_GeneratePatches(cJSON * const from, cJSON * const to)
{
    cJSON *patches = NULL;
    if ((from == NULL) || (to == NULL)) { return NULL; }
    patches = cJSON_CreateArray();
    create_patches(patches, (const unsigned char*)"", from, to, 0);
    return patches;
}

/* GEN2: positions of the per-element add / remove operations */
static void emit_at(cJSON *patches, const char *op, const unsigned char *path, const unsigned char *suffix, const cJSON *value) { cJSON *p = cJSON_CreateObject(); (void)op; (void)path; (void)suffix; (void)value; cJSON_AddItemToArray(patches, p); }
void bad_GEN2_add_same_index(cJSON *patches, const unsigned char *path, cJSON *to_child, size_t index)
{
    unsigned char buf[24];
    sprintf((char*)buf, "%lu", (unsigned long)index);
    for (; to_child != NULL; to_child = to_child->next) { emit_at(patches, "add", path, buf, to_child); }
}
void bad_GEN2_remove_forward(cJSON *patches, const unsigned char *path, cJSON *from_child, size_t index)
{
    unsigned char buf[24];
    for (; from_child != NULL; (void)(from_child = from_child->next), index++)
    {
        sprintf((char*)buf, "%lu", (unsigned long)index);
        emit_at(patches, "remove", path, buf, NULL);
    }
}
void good_array_edits(cJSON *patches, const unsigned char *path, cJSON *from_child, cJSON *to_child, cJSON *to_tail, size_t index)
{
    unsigned char buf[24];
    sprintf((char*)buf, "%lu", (unsigned long)index);
    for (; from_child != NULL; from_child = from_child->next) { emit_at(patches, "remove", path, buf, NULL); }
    for (; to_child != to_tail; (void)(to_child = to_child->next), index++)
    {
        sprintf((char*)buf, "%lu", (unsigned long)index);
        emit_at(patches, "add", path, (to_tail == NULL) ? (const unsigned char*)"-" : buf, to_child);
    }
}
void good_add_backwards(cJSON *patches, const unsigned char *path, cJSON *last, size_t index)
{
    unsigned char buf[24];
    sprintf((char*)buf, "%lu", (unsigned long)index);
    for (; last != NULL; last = last->prev) { emit_at(patches, "add", path, buf, last); }
}

/* DIG1 */
size_t bad_DIG1_count(size_t index) { size_t length = 1; while (index > 10) { index /= 10; length++; } return length; }
size_t good_count(size_t index) { size_t length = 1; while (index >= 10) { index /= 10; length++; } return length; }
size_t good_count_nonzero(size_t index) { size_t length = 0; for (; index != 0; index /= 10) { length++; } return length; }

/* OUT6 with counters: the write index overtakes the read index */
static void bad_OUT6_indexed(char *s) { size_t r = 0; size_t w = 0; while (s[r] != '\0') { s[w] = s[r]; s[w + 1] = ' '; w += 2; r++; } s[w] = '\0'; }
static void bad_OUT6_memcpy_overlap(char *s) { char *r = s; char *w = s; while (*r == ' ') { r++; } memcpy(w, r, strlen(r) + 1); }
static void good_memmove_shift(char *s) { char *r = s; char *w = s; while (*r == ' ') { r++; } memmove(w, r, strlen(r) + 1); }
static void good_indexed(char *s) { size_t r = 0; size_t w = 0; while (s[r] != '\0') { if (s[r] != ' ') { s[w] = s[r]; w++; } r++; } s[w] = '\0'; }

/* NUMU: numbers count as equal on the integer part alone */
static cJSON_bool compare_double(double a, double b) { double d = a - b; if (d < 0) { d = -d; } return d <= 1e-9; }
static cJSON_bool compare_json(cJSON *a, cJSON *b, const cJSON_bool case_sensitive)
{
    (void)case_sensitive;
    if ((a == NULL) || (b == NULL) || ((a->type & 0xFF) != (b->type & 0xFF))) { return 0; }
    switch (a->type & 0xFF)
    {
        case cJSON_Number:
            if (a->valueint == b->valueint) { return 1; }
            return compare_double(a->valuedouble, b->valuedouble);
        default:
            break;
    }
    return 1;
}
int use_compare_json(cJSON *a, cJSON *b) { return compare_json(a, b, 1); }
