/* Fixture playing the role of cJSON.c for the OWN rules and TAB17.
 * bad_<RULE>_* must be reported by <RULE>; everything else must stay silent.
 * EXPECT-FAIL: OWN5 cJSON_Delete
 * EXPECT-FAIL: DEL1 cJSON_Delete
 * EXPECT-FAIL: OWN6 replace_item_in_object
 * EXPECT-FAIL: OWN7 replace_item_in_object
 * EXPECT-FAIL: TAB17 utf16_literal_to_utf8
 */
#include "cJSON.h"
#include <string.h>
#include <stdlib.h>
#define true ((cJSON_bool)1)
#define false ((cJSON_bool)0)
typedef struct internal_hooks { void *(*allocate)(size_t size); void (*deallocate)(void *pointer); void *(*reallocate)(void *pointer, size_t size); } internal_hooks;
static internal_hooks global_hooks = { malloc, free, realloc };
typedef struct { unsigned char *buffer; size_t length; size_t offset; internal_hooks hooks; } printbuffer;

static cJSON *cJSON_New_Item(const internal_hooks * const hooks)
{
    cJSON* node = (cJSON*)hooks->allocate(sizeof(cJSON));
    if (node) { memset(node, '\0', sizeof(cJSON)); }
    return node;
}
static unsigned char* cJSON_strdup(const unsigned char* string, const internal_hooks * const hooks)
{
    size_t length = 0;
    unsigned char *copy = NULL;
    if (string == NULL) { return NULL; }
    length = strlen((const char*)string) + 1;
    copy = (unsigned char*)hooks->allocate(length);
    if (copy == NULL) { return NULL; }
    memcpy(copy, string, length);
    return copy;
}
void cJSON_free(void *object) { global_hooks.deallocate(object); }
/* OWN5: valuestring released without looking at the reference bit */
void cJSON_Delete(cJSON *item)
{
    cJSON *next = NULL;
    while (item != NULL)
    {
        next = item->next;
        if (!(item->type & cJSON_IsReference) && (item->child != NULL)) { cJSON_Delete(item->child); }
        if (item->valuestring != NULL) { global_hooks.deallocate(item->valuestring); item->valuestring = NULL; }
        if (!(item->type & cJSON_StringIsConst) && (item->string != NULL)) { global_hooks.deallocate(item->string); item->string = NULL; }
        global_hooks.deallocate(item);
        item = next;
    }
}
static cJSON_bool add_item_to_array(cJSON *array, cJSON *item)
{
    if ((item == NULL) || (array == NULL) || (array == item)) { return false; }
    if (array->child == NULL) { array->child = item; item->prev = item; item->next = NULL; }
    else if (array->child->prev) { array->child->prev->next = item; item->prev = array->child->prev; array->child->prev = item; }
    return true;
}
static cJSON_bool add_item_to_object(cJSON * const object, const char * const string, cJSON * const item, const internal_hooks * const hooks, const cJSON_bool constant_key)
{
    char *new_key = NULL;
    if ((object == NULL) || (string == NULL) || (item == NULL) || (object == item)) { return false; }
    if (constant_key) { new_key = (char*)string; }
    else
    {
        new_key = (char*)cJSON_strdup((const unsigned char*)string, hooks);
        if (new_key == NULL) { return false; }
    }
    if (!(item->type & cJSON_StringIsConst) && (item->string != NULL)) { hooks->deallocate(item->string); }
    item->string = new_key;
    return add_item_to_array(object, item);
}
/* OWN6 + OWN7: old key released before the new one is copied / looked up */
static cJSON_bool replace_item_in_object(cJSON *object, const char *string, cJSON *replacement)
{
    if ((replacement == NULL) || (string == NULL) || (object == NULL)) { return false; }
    if (!(replacement->type & cJSON_StringIsConst) && (replacement->string != NULL)) { cJSON_free(replacement->string); }
    replacement->string = (char*)cJSON_strdup((const unsigned char*)string, &global_hooks);
    if (replacement->string == NULL) { return false; }
    return true;
}
cJSON_bool cJSON_ReplaceItemInObject(cJSON *object, const char *string, cJSON *newitem) { return replace_item_in_object(object, string, newitem); }

/* OWN8 */
void bad_OWN8_take_key(cJSON *replacement, cJSON *item) { replacement->string = item->string; replacement->type &= ~cJSON_StringIsConst; item->string = NULL; }
void good_take_key(cJSON *replacement, cJSON *item)
{
    replacement->string = item->string;
    replacement->type = (replacement->type & ~cJSON_StringIsConst) | (item->type & cJSON_StringIsConst);
    item->string = NULL;
}

/* OWN1 */
cJSON *bad_OWN1_unchecked(void) { cJSON *item = cJSON_New_Item(&global_hooks); item->type = cJSON_NULL; return item; }
cJSON *good_checked(void) { cJSON *item = cJSON_New_Item(&global_hooks); if (item) { item->type = cJSON_NULL; } return item; }
char *bad_OWN1_memcpy(const char *s, size_t n) { char *c = (char*)global_hooks.allocate(n); memcpy(c, s, n); return c; }

/* OWN2 */
cJSON *bad_OWN2_string_leak(const char *s)
{
    cJSON *item = cJSON_New_Item(&global_hooks);
    if (item)
    {
        item->type = cJSON_String;
        item->valuestring = (char*)cJSON_strdup((const unsigned char*)s, &global_hooks);
        if (!item->valuestring) { return NULL; }
    }
    return item;
}
cJSON *good_string(const char *s)
{
    cJSON *item = cJSON_New_Item(&global_hooks);
    if (item)
    {
        item->type = cJSON_String;
        item->valuestring = (char*)cJSON_strdup((const unsigned char*)s, &global_hooks);
        if (!item->valuestring) { cJSON_Delete(item); return NULL; }
    }
    return item;
}
cJSON *bad_OWN2_list_leak(int count)
{
    int i = 0;
    cJSON *head = NULL;
    cJSON *cur = NULL;
    for (i = 0; i < count; i++)
    {
        cJSON *n = cJSON_New_Item(&global_hooks);
        if (n == NULL) { return NULL; }
        if (head == NULL) { head = cur = n; } else { cur->next = n; n->prev = cur; cur = n; }
    }
    return head;
}
cJSON *good_list(int count)
{
    int i = 0;
    cJSON *head = NULL;
    cJSON *cur = NULL;
    for (i = 0; i < count; i++)
    {
        cJSON *n = cJSON_New_Item(&global_hooks);
        if (n == NULL) { goto fail; }
        if (head == NULL) { head = cur = n; } else { cur->next = n; n->prev = cur; cur = n; }
    }
    return head;
fail:
    if (head != NULL) { cJSON_Delete(head); }
    return NULL;
}
unsigned char *bad_OWN2_print_leak(size_t n)
{
    printbuffer p = { 0, 0, 0, { 0, 0, 0 } };
    unsigned char *out = NULL;
    p.buffer = (unsigned char*)global_hooks.allocate(n);
    if (p.buffer == NULL) { return NULL; }
    out = (unsigned char*)global_hooks.allocate(n);
    if (out == NULL) { return NULL; }
    memcpy(out, p.buffer, n);
    global_hooks.deallocate(p.buffer);
    return out;
}

/* OWN3 */
cJSON_bool bad_OWN3_add_unchecked(cJSON *object, const char *name)
{
    cJSON *item = cJSON_New_Item(&global_hooks);
    return add_item_to_object(object, name, item, &global_hooks, false);
}
cJSON *good_add_checked(cJSON * const object, const char * const name)
{
    cJSON *item = cJSON_New_Item(&global_hooks);
    if (add_item_to_object(object, name, item, &global_hooks, false)) { return item; }
    cJSON_Delete(item);
    return NULL;
}
cJSON_bool good_add_cannot_fail(cJSON *array)
{
    if (array == NULL) { return false; }
    return add_item_to_array(array, cJSON_New_Item(&global_hooks));
}

/* OWN4 */
void bad_OWN4_double(size_t n) { void *b = global_hooks.allocate(n); if (b != NULL) { global_hooks.deallocate(b); } global_hooks.deallocate(b); }
void good_single(size_t n) { void *b = global_hooks.allocate(n); if (b != NULL) { global_hooks.deallocate(b); } }
void bad_OWN4_dangling(printbuffer * const p) { p->hooks.deallocate(p->buffer); p->length = 0; }
void good_cleared(printbuffer * const p) { p->hooks.deallocate(p->buffer); p->length = 0; p->buffer = NULL; }

/* DBL1 */
void bad_DBL1_merged_failure(printbuffer * const p, size_t n)
{
    unsigned char *nb = (unsigned char*)p->hooks.allocate(n);
    if (nb != NULL) { memcpy(nb, p->buffer, p->offset + 1); }
    p->hooks.deallocate(p->buffer);
    if (nb == NULL) { p->hooks.deallocate(p->buffer); p->length = 0; p->buffer = NULL; return; }
    p->length = n; p->buffer = nb;
}
void good_dbl_exclusive(printbuffer * const p, int a)
{
    if (a) { p->hooks.deallocate(p->buffer); }
    p->length = 0;
    if (!a) { p->hooks.deallocate(p->buffer); }
    p->buffer = NULL;
}
void bad_DBL1_realloc_then_free(printbuffer * const p, size_t n)
{
    unsigned char *nb = (unsigned char*)p->hooks.reallocate(p->buffer, n);
    if (nb != NULL) { p->hooks.deallocate(p->buffer); }
    p->buffer = nb;
}
void good_realloc_failed(printbuffer * const p, size_t n)
{
    unsigned char *nb = (unsigned char*)p->hooks.reallocate(p->buffer, n);
    if (nb == NULL) { p->hooks.deallocate(p->buffer); p->length = 0; p->buffer = NULL; return; }
    p->length = n; p->buffer = nb;
}
static void drop_node(cJSON *x) { if (x->string != NULL) { x->string = NULL; } global_hooks.deallocate(x); }
void bad_DBL1_helper(cJSON *item) { drop_node(item); cJSON_free(item); }
void good_helper_loop(cJSON *item) { while (item != NULL) { cJSON *next = item->next; drop_node(item); item = next; } }

/* TAB17 */
static unsigned parse_hex4(const unsigned char * const input) { return (input[0] == 'f') ? 15u : 0u; }
static unsigned char utf16_literal_to_utf8(const unsigned char * const in, const unsigned char * const end, unsigned char **out)
{
    unsigned int first_code = 0;
    if ((end - in) < 6) { return 0; }
    first_code = parse_hex4(in + 2);
    if ((first_code >= 0xDC00) && (first_code <= 0xDFFF)) { return 0; }
    (*out)[0] = (unsigned char)first_code;
    return 6;
}
int bad_TAB17_ignored(const unsigned char *in, const unsigned char *end, unsigned char *o) { utf16_literal_to_utf8(in, end, &o); return 1; }
int good_tested(const unsigned char *in, const unsigned char *end, unsigned char *o) { unsigned char n = utf16_literal_to_utf8(in, end, &o); if (n == 0) { return 0; } return 1; }

/* OWN9: clearing the constant-key bit while the node still holds a key it does not own */
/* OWN10: in-place write into text the node may only borrow */
char *bad_OWN10_overwrite(cJSON *object, const char *text)
{
    if ((object == NULL) || !(object->type & cJSON_String) || (object->valuestring == NULL) || (text == NULL)) { return NULL; }
    if (strlen(text) <= strlen(object->valuestring)) { strcpy(object->valuestring, text); return object->valuestring; }
    return NULL;
}
char *good_overwrite_owned(cJSON *object, const char *text)
{
    if ((object == NULL) || !(object->type & cJSON_String) || (object->type & cJSON_IsReference)) { return NULL; }
    if ((object->valuestring == NULL) || (text == NULL)) { return NULL; }
    if (strlen(text) <= strlen(object->valuestring)) { strcpy(object->valuestring, text); return object->valuestring; }
    return NULL;
}
/* the type word rebuilt from constants: only the reference bit is carried over, the constant-key bit is dropped */
int bad_OWN9_rebuilt_type(cJSON *object, int value)
{
    if (object == NULL) { return 0; }
    object->type = (value ? cJSON_True : cJSON_False) | (object->type & cJSON_IsReference);
    return object->type;
}
int good_masked_type(cJSON *object, int value)
{
    if (object == NULL) { return 0; }
    object->type = (object->type & ~(cJSON_False | cJSON_True)) | (value ? cJSON_True : cJSON_False);
    return object->type;
}
cJSON_bool bad_OWN9_fast_path(cJSON *replacement, const char *string)
{
    if ((replacement->string == NULL) || (strcmp(replacement->string, string) != 0))
    {
        char *k = (char*)cJSON_strdup((const unsigned char*)string, &global_hooks);
        if (k == NULL) { return 0; }
        replacement->string = k;
    }
    replacement->type &= ~cJSON_StringIsConst;
    return 1;
}
cJSON_bool bad_OWN9_handover(cJSON *replacement, cJSON *replaced)
{
    char *k = replaced->string;
    replaced->string = NULL;
    replacement->string = k;
    replacement->type &= ~cJSON_StringIsConst;
    return 1;
}
cJSON_bool good_handover_when_owned(cJSON *replacement, cJSON *replaced, const char *string)
{
    char *k = NULL;
    if (!(replaced->type & cJSON_StringIsConst))
    {
        k = replaced->string;
        replaced->string = NULL;
    }
    else
    {
        k = (char*)cJSON_strdup((const unsigned char*)string, &global_hooks);
        if (k == NULL) { return 0; }
    }
    replacement->string = k;
    replacement->type &= ~cJSON_StringIsConst;
    return 1;
}
cJSON_bool good_rekey_by_flag(cJSON *item, const char *name, const cJSON_bool constant_key)
{
    char *k = NULL;
    if (constant_key) { k = (char*)name; }
    else { k = (char*)cJSON_strdup((const unsigned char*)name, &global_hooks); if (k == NULL) { return 0; } }
    item->string = k;
    if (constant_key) { item->type |= cJSON_StringIsConst; } else { item->type &= ~cJSON_StringIsConst; }
    return 1;
}
