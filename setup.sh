#!/bin/sh
# Builds the exporter plugin from engine/cjsa_export.cc (offline; needs clang-14 + llvm-14 headers).
set -e
cd "$(dirname "$0")"
mkdir -p build
clang++ $(llvm-config-14 --cxxflags) -fno-rtti -fPIC -shared engine/cjsa_export.cc -o build/cjsa_export.so
echo "built build/cjsa_export.so"
