#!/usr/bin/env python3
"""Run every check against behaviour-preserving refactorings (equivalents/<set>/*.diff): all must stay at exit 0.
  tools/equiv_eval.py [<set> ...]        (default: every set)
  tools/equiv_eval.py --import <name> <dir>   copy r*.diff + notes.json from <dir> into equivalents/<name>/ first"""
import json
import os
import shutil
import subprocess
import sys
import tempfile
from concurrent.futures import ThreadPoolExecutor

HERE = os.path.dirname(os.path.dirname(os.path.abspath(__file__)))
sys.path.insert(0, HERE)
from cjsa import props as P  # noqa
FILES = ['cJSON.c', 'cJSON.h', 'cJSON_Utils.c', 'cJSON_Utils.h', 'CMakeLists.txt', 'Makefile']
EQ = os.path.join(HERE, 'equivalents')


def one(path):
    d = tempfile.mkdtemp(prefix='equiv_')
    try:
        for f in FILES:
            shutil.copy(os.path.join('/repo', f), os.path.join(d, f))
        r = subprocess.run('patch -p1 -s < %s' % path, shell=True, cwd=d, stdout=subprocess.PIPE, stderr=subprocess.STDOUT, text=True)
        if r.returncode != 0:
            return path, 'STALE', r.stdout[-200:]
        for unit, defs in (('cJSON.c', ['-DENABLE_LOCALES']), ('cJSON_Utils.c', [])):
            r = subprocess.run(['clang', '-std=c89', '-fsyntax-only', '-w', '-I', d] + defs + [os.path.join(d, unit)],
                               stdout=subprocess.PIPE, stderr=subprocess.STDOUT, text=True)
            if r.returncode != 0:
                return path, 'NOCOMPILE', r.stdout[-300:]
        alarms = []
        env = dict(os.environ, CJSA_REPO=d, CJSA_OUT=d)
        for pid in P.claimed():
            r = subprocess.run([os.path.join(HERE, 'check'), pid], env=env, stdout=subprocess.PIPE, stderr=subprocess.STDOUT, text=True)
            if r.returncode != 0:
                lines = [l for l in r.stdout.split('\n') if l and 'conda' not in l and not l.startswith('VIOLATION') and not l.startswith(pid + ' [')]
                alarms.append('%s(exit %d): %s' % (pid, r.returncode, ' | '.join(lines[:3])[:500]))
        return path, 'SILENT' if not alarms else 'ALARM', '\n    '.join(alarms)
    finally:
        shutil.rmtree(d, ignore_errors=True)


def main():
    args = sys.argv[1:]
    if args and args[0] == '--import':
        name, src = args[1], args[2]
        dst = os.path.join(EQ, name)
        os.makedirs(dst, exist_ok=True)
        for f in sorted(os.listdir(src)):
            if f.endswith('.diff') or f == 'notes.json':
                shutil.copy(os.path.join(src, f), os.path.join(dst, f))
        args = [name]
    sets = args or sorted(s for s in os.listdir(EQ) if not s.startswith('_'))
    paths = []
    for s in sets:
        d = os.path.join(EQ, s)
        paths += [os.path.join(d, f) for f in sorted(os.listdir(d)) if f.endswith('.diff')]
    bad = 0
    with ThreadPoolExecutor(max_workers=6) as ex:
        for (path, verdict, msg) in ex.map(one, paths):
            print('%-9s %s %s' % (verdict, os.path.relpath(path, EQ), ('\n    ' + msg) if msg else ''))
            if verdict != 'SILENT':
                bad += 1
    print('%d refactorings, %d not silent' % (len(paths), bad))
    return 1 if bad else 0


if __name__ == '__main__':
    sys.exit(main())
