#!/usr/bin/env python3
"""Re-runs the checks against every kept seeded change (seeded/*/patch.diff) on scratch copies of /repo and
compares with the `expect_caught_by` recorded in meta.json (set from the last full evaluation).
  tools/seeds_regress.py [--update]"""
import json
import os
import shutil
import subprocess
import sys
import tempfile
from concurrent.futures import ThreadPoolExecutor

HERE = os.path.dirname(os.path.dirname(os.path.abspath(__file__)))
sys.path.insert(0, HERE)
from cjsa import props as P  # noqa
FILES = ['cJSON.c', 'cJSON.h', 'cJSON_Utils.c', 'cJSON_Utils.h', 'CMakeLists.txt', 'Makefile']


def one(name):
    d = tempfile.mkdtemp(prefix='seedreg_')
    try:
        for f in FILES:
            shutil.copy(os.path.join('/repo', f), os.path.join(d, f))
        r = subprocess.run('patch -p1 -s < %s' % os.path.join(HERE, 'seeded', name, 'patch.diff'), shell=True, cwd=d,
                           stdout=subprocess.PIPE, stderr=subprocess.STDOUT, text=True)
        if r.returncode != 0:
            return name, None, 'patch does not apply: ' + r.stdout[-200:]
        caught = []
        other = []
        env = dict(os.environ, CJSA_REPO=d, CJSA_OUT=d)
        for pid in P.claimed():
            r = subprocess.run([os.path.join(HERE, 'check'), pid], env=env, stdout=subprocess.PIPE, stderr=subprocess.STDOUT, text=True)
            if r.returncode == 1:
                caught.append(pid)
            elif r.returncode != 0:
                other.append('%s:exit%d' % (pid, r.returncode))
        return name, caught, ' '.join(other)
    finally:
        shutil.rmtree(d, ignore_errors=True)


def main():
    update = '--update' in sys.argv
    names = sorted(n for n in os.listdir(os.path.join(HERE, 'seeded')) if os.path.exists(os.path.join(HERE, 'seeded', n, 'patch.diff')))
    bad = 0
    with ThreadPoolExecutor(max_workers=6) as ex:
        for (name, caught, msg) in ex.map(one, names):
            mp = os.path.join(HERE, 'seeded', name, 'meta.json')
            meta = json.load(open(mp))
            want = meta.get('expect_caught_by')
            if update or want is None:
                meta['expect_caught_by'] = caught
                json.dump(meta, open(mp, 'w'), indent=1)
                want = caught
            status = 'OK' if caught == want else 'CHANGED'
            if status != 'OK' or msg:
                bad += 1 if status != 'OK' else 0
            print('%-8s %-12s caught_by=%s %s' % (status, name, caught, msg))
    return 1 if bad else 0


if __name__ == '__main__':
    sys.exit(main())
