#!/usr/bin/env python3
"""Mutant / equivalent-edit corpus runner (DESIGN.md section 8).

Each corpus entry is an exact-string edit of one source file of /repo.  The edit is applied to a scratch
copy (never to /repo), the copy must still compile, and the named property check is run against the copy
(CJSA_REPO/CJSA_OUT redirect the analysis).  expect='fire': exit 1 and a VIOLATION whose report names the
function; expect='silent': exit 0.  --tests additionally builds the copy with cmake and runs the
repository's 19 tests on it (a mutant the suite already catches is reported as such).

  tools/mutants.py [--tests] [--only <substr>] [--jobs N]
"""
import importlib.util
import json
import os
import shutil
import subprocess
import sys
import tempfile
from concurrent.futures import ThreadPoolExecutor

HERE = os.path.dirname(os.path.dirname(os.path.abspath(__file__)))
REPO = '/repo'
FILES = ['cJSON.c', 'cJSON.h', 'cJSON_Utils.c', 'cJSON_Utils.h', 'CMakeLists.txt', 'Makefile']


def load_corpus():
    spec = importlib.util.spec_from_file_location('corpus', os.path.join(HERE, 'mutants', 'corpus.py'))
    m = importlib.util.module_from_spec(spec)
    spec.loader.exec_module(m)
    return m.CORPUS


def run_one(entry, with_tests):
    d = tempfile.mkdtemp(prefix='cjsa_mut_')
    try:
        for f in FILES:
            shutil.copy(os.path.join(REPO, f), os.path.join(d, f))
        path = os.path.join(d, entry['file'])
        src = open(path).read()
        edits = entry.get('edits') or [(entry['old'], entry['new'])]
        for (old, new) in edits:
            n = src.count(old)
            if n != 1:
                return (entry, 'STALE', 'old text occurs %d times' % n)
            src = src.replace(old, new)
        open(path, 'w').write(src)
        for unit, defs in (('cJSON.c', ['-DENABLE_LOCALES']), ('cJSON_Utils.c', [])):
            r = subprocess.run(['clang', '-std=c89', '-fsyntax-only', '-w', '-I', d] + defs + [os.path.join(d, unit)],
                               stdout=subprocess.PIPE, stderr=subprocess.STDOUT, text=True)
            if r.returncode != 0:
                return (entry, 'NOCOMPILE', r.stdout[-300:])
        tests = ''
        if with_tests:
            full = tempfile.mkdtemp(prefix='cjsa_mutfull_')
            try:
                subprocess.run(['rsync', '-a', '--exclude', '_build', '--exclude', '.git', REPO + '/', full + '/'], check=True)
                shutil.copy(path, os.path.join(full, entry['file']))
                b = os.path.join(full, '_b')
                r0 = subprocess.run('cmake -S %s -B %s -G Ninja >/dev/null 2>&1 && cmake --build %s 2>&1 | grep -m2 "error" '
                                    % (full, b, b), shell=True, stdout=subprocess.PIPE, text=True)
                if r0.stdout.strip():
                    tests = 'BUILD-FAIL ' + r0.stdout.strip().split('\n')[0][-120:]
                else:
                    r = subprocess.run('ctest --test-dir %s -j8 --timeout 120 2>&1 | grep -i "tests passed\|tests failed\|(Failed)\|\*\*\*" | head -12' % b, shell=True,
                                       stdout=subprocess.PIPE, text=True)
                    if '100% tests passed' in r.stdout:
                        tests = 'tests-pass'
                    else:
                        failed = [l.split('-')[-1].strip().split()[0] for l in r.stdout.split('\n') if '- ' in l and '(' in l]
                        tests = 'TESTS-FAIL ' + ','.join(failed[:6])
            finally:
                shutil.rmtree(full, ignore_errors=True)
        env = dict(os.environ, CJSA_REPO=d, CJSA_OUT=d)
        outs = []
        verdict = 'OK'
        for pi, prop in enumerate(entry['props']):
            r = subprocess.run([os.path.join(HERE, 'check'), prop], env=env, stdout=subprocess.PIPE,
                               stderr=subprocess.STDOUT, text=True)
            out = r.stdout
            if entry['expect'] == 'fire':
                good = r.returncode == 1 and 'VIOLATION property=%s' % prop in out
                if good and entry.get('fn'):
                    good = any(entry['fn'] in l for l in out.split('\n') if not l.startswith('VIOLATION'))
                if good and entry.get('rule') and pi == 0:
                    good = any(entry['rule'] in l for l in out.split('\n'))
            else:
                good = r.returncode == 0
            if not good:
                verdict = 'MISS' if entry['expect'] == 'fire' else 'FALSE-ALARM'
                tail = [l for l in out.split('\n') if l and 'conda' not in l][-4:]
                outs.append('%s rc=%d %s' % (prop, r.returncode, ' | '.join(tail)[:400]))
        return (entry, verdict, ' '.join(outs) + ' ' + tests)
    finally:
        shutil.rmtree(d, ignore_errors=True)


def main():
    args = sys.argv[1:]
    with_tests = '--tests' in args
    only = None
    if '--only' in args:
        only = args[args.index('--only') + 1]
    jobs = 8
    if '--jobs' in args:
        jobs = int(args[args.index('--jobs') + 1])
    corpus = [e for e in load_corpus() if not only or only in e['id']]
    bad = 0
    with ThreadPoolExecutor(max_workers=jobs) as ex:
        for (e, verdict, msg) in ex.map(lambda e: run_one(e, with_tests), corpus):
            print('%-11s %-40s %-6s %s %s' % (verdict, e['id'], e['expect'], ','.join(e['props']), msg.strip()))
            if verdict != 'OK' or 'TESTS-FAIL' in msg or 'BUILD-FAIL' in msg:
                bad += 1
    print('%d corpus entries, %d not as expected' % (len(corpus), bad))
    return 1 if bad else 0


if __name__ == '__main__':
    sys.exit(main())
