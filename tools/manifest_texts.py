"""Per-property texts for MANIFEST.json (what assurance, what is trusted, deciding technique)."""
COMMON_NOTE = ("Trusted: clang-14 front end, the exporter and rules (each rule is exercised on every run by fixtures that "
               "must fire / stay silent), libc contracts. Level 'other': the rules are necessary structural conditions of "
               "the behaviour, decided for every path of the current source; they are not a proof of the whole statement.")
TEXTS = {
    'C14': {
        'level': "Static who-may-call and provenance analysis over every function and call site of both library units: the C "
                 "allocator is only stored into / compared with the one hooks table, every allocation/release call is an "
                 "indirect call through a value proven to be a copy of that table, realloc is used only under a non-NULL test "
                 "and installed only when both defaults are in place (all paths of the installer enumerated); no access path is released "
                 "twice on a feasible path (DBL1, the 'at most once' half of exactly-once), and a node is marked as owning its key or payload only where it does (OWN9: otherwise the release function would be handed a pointer the allocation function never returned). Decides the "
                 "whole statement except 'no block is lost' (C07/C08). A census over every call site rather than over the call sites a "
                 "history happens to execute.",
        'note': COMMON_NOTE + " Not decided: 'exactly once' (C07), behaviour of user hooks.",
        'technique': 'static analysis: call-site census + hooks-value provenance + path enumeration of the installer (clang AST, own CFG), LLVM-IR cross-check',
        'ref': 'DESIGN.md 4 C14; 3 EFF1-EFF3',
    },
    'C20': {
        'level': "Static effect analysis: complete census of static-storage objects of both units and of their write/read "
                 "sites (documented writers / accessors closed under their private helpers; no library function calls the accessor "
                 "of the racy error position), transitive static write set of every public function over the resolved call graph, deny-list of "
                 "hidden-state libc functions, LLVM-IR cross-check of globals and stores. Concurrent calls on disjoint "
                 "argument graphs share no written memory other than the documented globals; this covers all interleavings "
                 "because it is an absence-of-shared-state argument, not a schedule exploration.",
        'note': COMMON_NOTE + " Assumes libc functions are thread-safe as POSIX documents and user hooks are thread-safe; the documented exceptions are frozen in STATIC_POLICY (eff.py) with reasons.",
        'technique': 'static analysis: static-storage census + transitive write sets over the call graph + libc deny-list (clang AST), LLVM-IR cross-check',
        'ref': 'DESIGN.md 4 C20; 3 EFF4-EFF5',
    },
    'C15': {
        'level': "Decides structural necessary conditions of RFC 6901 resolution/construction on all functions reachable from "
                 "the pointer entry points: range tests bound one element (TAB8), the four ~0/~1 routines agree with each "
                 "other and the RFC for every byte value (TAB9: byte-set path exploration of each loop), member names reach pointer "
                 "text only through the encoder (ESC1), case flag propagation (TAB11), pointer buffers sized term-by-term for what is "
                 "written, helpers with counting loops included (OUT7), digit-counting loops agree with their radix (DIG1), gap-free "
                 "encoding (OUT5). Does not decide which node a pointer resolves to.",
        'note': COMMON_NOTE + " Not decided: resolution semantics, the 'abc resolves to root' defect named in the property, index overflow.",
        'technique': 'static analysis: abstract interpretation of the character loops over byte-value sets (per-byte tables of what is written/consumed), taint-style flow of member names into text sinks, range-test consistency, flag propagation over the call graph, linear size accounting',
        'ref': 'DESIGN.md 4 C15; 3 TAB8 TAB9 TAB11 OUT5 OUT7',
    },
    'C16': {
        'level': "Decides the survival/table clauses of patch application on all functions reachable from ApplyPatches*: payload "
                 "use only under a kind test for nodes from the patch document (TAB12, dominance on the CFG), opcode table "
                 "exhaustive and RFC-named (TAB10), case flag propagation (TAB11), in-place key decoder consistent, gap-free and "
                 "never ahead of its reader (TAB9/OUT5/OUT6 dataflow), tail link restored by every child store (LST1), the Utils "
                 "array editors agree with the list model on every aliasing pattern (SHP1, shape analysis by finite "
                 "instantiation), pointer prefix tests end on a token boundary (PFX1). Does not decide RFC 6902 results.",
        'note': COMMON_NOTE + " Not decided: RFC 6902 result/status semantics, leak freedom of every exit.",
        'technique': 'static analysis: dominance-based guard checking, CFG-guard based opcode table, flag propagation, difference-bound dataflow on cursors, shape analysis of the list editors over abstract heaps',
        'ref': 'DESIGN.md 4 C16; 3 TAB8-TAB12 LST1 OUT5 OUT6',
    },
    'C17': {
        'level': "Decides path-construction and input-preservation clauses of patch generation: every path buffer sized for what "
                 "is written with the encoded length of the same key (OUT7), member names reach pointer text only through the encoder "
                 "(ESC1), escape routines agree per byte value (TAB9), gap-free encoding (OUT5), "
                 "inputs only re-linked by sorting with the tail link restored (LST1, LST5), flag propagation (TAB11), the member comparator "
                 "decided over all byte pairs including its sign (CMP1), and no branch outside the two documents may silence the "
                 "generator (GEN1: a depth budget, flag or counter must not guard an exit that emits nothing), and the per-element "
                 "array edits keep their positions consistent with how application shifts elements (GEN2: forward removals at a "
                 "position that does not step forward, forward insertions at a position stepped and printed on every iteration). Does "
                 "not decide that the patch transforms source into target.",
        'note': COMMON_NOTE + " Not decided: patch correctness as a value, emptiness iff equal.",
        'technique': 'static analysis: linear size accounting, flow of member names into text sinks, byte-set path exploration of the escape routines, field-store census of the sorter, flag propagation',
        'ref': 'DESIGN.md 4 C17; 3 OUT7 TAB9 OUT5 LST1 LST5 TAB11',
    },
    'C18': {
        'level': "Decides that case sensitivity is honoured at every nesting level of merge-patch application and generation "
                 "(TAB11 over everything reachable from the four entry points) and that generation leaves its sorted inputs "
                 "well-formed (LST1, LST5). RFC 7396 enters as four structural necessary conditions on the applying code (MRG1-4): a patch "
                 "value is copied verbatim only where it is known not to be an object, members are removed only under a null patch "
                 "value and set only otherwise, and member operations happen only on a target known to be an object (tested or "
                 "freshly created), and what enters the target goes in through a keyed insertion named by the patch member. The merged value itself is not decided.",
        'note': COMMON_NOTE + " Not decided: RFC 7396 results.",
        'technique': 'static analysis: flag propagation over the call graph with false-arm regions on the CFG; child-store/tail-link pairing; role inference (target/patch) with guard dominance and a must-be-object dataflow',
        'ref': 'DESIGN.md 4 C18; 3 TAB11 LST1 LST5',
    },
    'C19': {
        'level': "Decides the 'healthy container afterwards' and 'same member nodes' sentences: every child store in both units "
                 "restores the first child's back link, every internal sorter goes through sort_object (LST1, LST5), sort_list "
                 "assigns only next/prev and calls only itself and the comparator, comparator gets the caller's flag (TAB11); the comparator "
                 "itself is decided over all 65536 byte pairs for both flag values: byte order (strcmp) or ASCII-folded order with the sign "
                 "the sorter relies on (CMP1). "
                 "Sortedness, permutation and link consistency are decided for objects of up to five members only (SHP2: sort_object "
                 "evaluated from its AST over abstract heaps for every arrangement of keys); for longer objects they are not decided.",
        'note': COMMON_NOTE + " SHP2 is a bounded statement (sorting re-links inside loops and recursion, so there is no small-model argument); not decided: longer objects, idempotence as such.",
        'technique': 'static analysis: child-store/tail-link pairing, field-store census, flag propagation; bounded shape evaluation of the sorter over abstract heaps',
        'ref': 'DESIGN.md 4 C19; 3 LST1 LST5 TAB11; 15 SHP2',
    },
}
TEXTS.update({
    'C01': {
        'level': "Forward dataflow (abstract interpretation with intervals on length-offset, raw-cursor distances, integer locals and symbolic-index facts) over every function of the parse family: every read of the input is shown to be covered by a guard on every path, callee entry requirements are inferred by a call-graph fixpoint and checked at every call site, local arrays and sprintf targets stay in bounds, nothing is stored through the input, every recursion cycle is depth-gated, every loop steps forward, and whatever a parsing function allocates is linked, released or handed on on every path (OWN2 over the parse family: the 'or a leak' clause). This is exhaustive over paths of the current source, where tests with zero-terminated literals cannot see an over-read of one byte.",
        'note': COMMON_NOTE + " Entry assumption = API contract (value[0..buffer_length) readable). Not decided: walkability of the result, arithmetic UB beyond TAB7.",
        'technique': 'static analysis: forward dataflow / interval abstract interpretation on an own CFG with lowered conditions; call-graph fixpoint for callee requirements; SCC-based recursion-gate check',
        'ref': 'DESIGN.md 4 C01; 3 BND1 BND2 BND4 BND6 EFF7 TAB1 TAB2',
    },
    'C10': {
        'level': "Decides the reliability clauses of the failure/success publication: published error position proven inside the buffer (dataflow), on every failing path that reports a parse end it equals global_error.json + global_error.position as the path leaves them (path-sensitive dataflow over linear expressions, private helpers of the entry point inlined), global error reset dominating all returns and unreachable-from-store on success (dominance/reachability), termination check on every path under the flag (must-pass-through), guarded read of the terminator (BND1).",
        'note': COMMON_NOTE + " Not decided: parse_end <= value+length on success, prefix re-parse equality.",
        'technique': 'static analysis: dataflow bounds facts + dominance / reachability / def-use checks on the entry function',
        'ref': 'DESIGN.md 4 C10; 3 BND5 BND1 TAB2',
    },
    'C13': {
        'level': "Decides the safety sentence (reads and writes stay within the terminator, result no longer, loops terminate as far as cursor progress goes) by dataflow on NUL-terminated cursors (non-terminator byte counts), an in-place lag analysis of write vs read cursor (block moves inside the string included: memmove with the destination not ahead of the source; memcpy between positions an input-dependent distance apart is reported), and a gap analysis of the write cursor; plus the scanner rule that every backslash pair is consumed alike. Value preservation and idempotence are not decided.",
        'note': COMMON_NOTE + " Entry assumption: json is a NUL-terminated string (API contract).",
        'technique': 'static analysis: forward dataflow (non-terminator counts, read/write lag, must-written sets) with inferred callee requirements',
        'ref': 'DESIGN.md 4 C13; 3 BND3 OUT5 OUT6 BND6 TAB13',
    },
})
TEXTS.update({
    'C06': {
        'level': "Decides the 'sibling chain stays consistent', 'refused call leaves containers unchanged' and 'NULL argument refused' clauses as structural obligations on every mutator: tail link restored on every path through a child store (CFG must-pass with null/release exemptions), completeness of each list-edit idiom, no refusal reachable after a link store, NULL tests dominating parameter dereferences. SHP1 decides the list-model clause for the array editors themselves: each editor (append, insert, detach/delete by pointer and index, replace by pointer and index) is evaluated from its AST over abstract heaps for every list of 0..5 elements and every position, and the resulting heap must be the one the ordered-list model gives with all link invariants; five elements realise every aliasing pattern among head/predecessor/item/successor/tail and the premise that the editors store links at most one link away from a named node (and not in loops) is checked, so longer lists add no case. Because every edit re-establishes the invariant it assumes, sequences of edits follow.",
        'note': COMMON_NOTE + " CMP1 decides the case-folding comparator itself over all byte pairs. Not decided: that lookup returns the *first* match as a history property; success flags as values beyond the cases evaluated.",
        'technique': 'static analysis: shape analysis of the list editors by finite instantiation over abstract heaps (small-model argument with a checked premise); path-sensitive store pairing on the CFG, idiom completeness matching, dominance of NULL tests, reachability of refusals after stores',
        'ref': 'DESIGN.md 4 C06; 3 LST1-LST4 TAB7; 15 SHP1; 17 CMP1',
    },
    'C11': {
        'level': "Decides the no-sharing / reference-cleared / bounded-recursion clauses: for every field of the struct, the definitions in effect where the copy is returned or released (forward dataflow over constructor, whole-node copy, stores and helper summaries), provenance of every such pointer (fresh-allocation closure), surviving bits of the type, depth gate with depth+1 handed down, tail link of the copied chain.",
        'note': COMMON_NOTE + " Not decided: equality/print identity as values; later edit histories.",
        'technique': 'static analysis: field-store census vs struct layout, pointer provenance, recursion-gate check',
        'ref': 'DESIGN.md 4 C11; 3 TAB14 TAB1 LST1',
    },
    'C12': {
        'level': "Decides purity (arguments never modified: transitive store census), the structural parts of the comparison (array length agreement by nullness dataflow, bidirectional member lookup, lookup and recursion results honoured, NULL payloads refused before strcmp), masked kind comparison and flag propagation; C12N: the Number arm, as a boolean function of the conditions it evaluates (helpers inlined), is exactly compare_double of the two valuedouble fields; CMP1: the case-insensitive key comparator used by the lookups is decided over all 65536 byte pairs. The tolerance formula inside compare_double is not decided.",
        'note': COMMON_NOTE + " Not decided: compare_double semantics (incl. the infinity case named in the property), reflexivity/symmetry.",
        'technique': 'static analysis: transitive purity census, nullness dataflow on the array arm, dominance/reachability checks on the object arm, mask-shape checks, truth-table reduction of the number arm, byte-set path exploration of the key comparator',
        'ref': 'DESIGN.md 4 C12; 3 EFF6 TAB3 TAB11; 17 C12N CMP1',
    },
})
TEXTS.update({
    'C03': {
        'level': "Decides the clauses of rejection that are visible in the shape of the code: depth refusal before recursion, nothing allocated survives any failure exit of the parse family (typestate engine over every NULL/non-NULL allocation outcome), the escape table, in-band failure values never accepted as results (hypothesis propagation on the CFG), acceptance only after a production stored a type, closers/commas/colons demanded on the success path. Does not decide the language accepted as a whole.",
        'note': COMMON_NOTE + " Not decided: that every malformed text is rejected; the exact lenient dialect.",
        'technique': 'static analysis: disjunctive typestate dataflow for allocations, hypothesis-restricted reachability for failure values, must-pass-through checks, table extraction',
        'ref': 'DESIGN.md 4 C03; 3 TAB1 OWN2 TAB5a TAB8 TAB17',
    },
    'C07': {
        'level': "Decides the ownership discipline per function and per path: payload releases guarded by the ownership bit that describes the memory (with no type store before the test), key-alias ordering, no double release / use after release / dangling released field, every block released-linked-or-returned on every path including failing consumers, duplicate/reference constructors set and clear the bits, and cJSON_Delete releases exactly what each of the 32 kinds of node (two ownership bits x three payload pointers) owns, the node itself last (DEL1); no access path is handed to a release function twice on a feasible path without a store in between, helpers counted for what they dispose of on every path (DBL1); an ownership bit is cleared only where, on that path, the node owns what the bit describes - a fresh copy, NULL, a pointer handed over under its previous owner's clear bit, or a node created there (OWN9); no block is released while an object of the caller still points at it (OWN4). The allocator balance over arbitrary histories is not decided.",
        'note': COMMON_NOTE + " Summaries of consume-on-success callees are a frozen table re-checked against the callee bodies on every run.",
        'technique': 'static analysis: disjunctive typestate dataflow (allocation tokens, parent links, NULL correlation) + CFG path rules for flag-guarded releases and key aliasing',
        'ref': 'DESIGN.md 4 C07; 3 OWN2 OWN4 OWN5 OWN6 TAB14; 17 DBL1',
    },
    'C08': {
        'level': "The failing-allocation index is replaced by 'every allocator call site x its NULL outcome', which the typestate engine enumerates exhaustively for every function of cJSON.c: the NULL outcome is never dereferenced, nothing allocated earlier in the call is left behind, blocks handed to consume-on-success callees are released when that call can fail at the site, pre-existing trees are untouched before an allocation that can still fail, and a block that was already stored into an object of the caller is not released on a failure path while that object still points at it.",
        'note': COMMON_NOTE + " Not decided: that the tree still prints the same text afterwards (a value); the run-time allocator configurations.",
        'technique': 'static analysis: fault-outcome splitting in a disjunctive typestate dataflow; computed callee NULL-tolerance; failure-atomicity path rule',
        'ref': 'DESIGN.md 4 C08; 3 OWN1 OWN2 OWN3 OWN7',
    },
})
TEXTS.update({
    'C02': {
        'level': "Decides necessary structural conditions of exact decoding: entry-point funnel, literal length/advance/type triples, the escape table against RFC 8259 read off the paths of the decoding loop for all 256 values of the byte after a backslash (switch, if-chain or constant-table search alike), the UTF-16 escape decoder over all code values (TAB6: which codes stand alone / need a partner / are refused, the code point of all 1024 x 1024 surrogate pairs, the UTF-8 bytes of every code), first-byte sets of the dispatch computed by dataflow over the guards, tail-append order of container members, key taken from the parsed string, int-view saturation, the hex digits of \\u escapes and the bytes skipped as whitespace as byte sets with the signedness of the read (TAB21, TAB22), and where a string literal ends (TAB23: the scan for the closing quote steps over two bytes on a backslash and one otherwise for all 256 byte values; a quote found by searching is judged by the parity of the backslash run in front of it). Exact decoding as a value (rounding, UTF-8 arithmetic) is not decided.",
        'note': COMMON_NOTE + " RFC tables (RFC 8259 escapes, RFC 2781/3629 constants) are the oracle for the extracted tables.",
        'technique': 'static analysis: table extraction from the AST, abstract interpretation of the UTF-16 decoder over value sets of its two codes, byte-set dataflow over guard conditions, idiom matching for list construction',
        'ref': 'DESIGN.md 4 C02; 3 TAB2 TAB4 TAB5a TAB6 TAB7 LST1',
    },
})
TEXTS.update({
    'C04': {
        'level': "Decides only the structural share of the round-trip property: printer escapes are a subset of what the parser decodes to the same bytes, count and emit passes agree for every byte value, every write is covered by a capacity request, and the offset bookkeeping makes the two growth strategies of ensure() preserve the same bytes; on the reading side the end of a string literal is where the decoder has it (TAB23), so what the printer escaped is read back whole. The numeric round trip (including the DBL_MAX defect named in the property) is explicitly not decided.",
        'note': COMMON_NOTE + " Not decided: numbers, fixed point as a value.",
        'technique': 'static analysis: two-sided table extraction and per-byte-value agreement; path enumeration with linear symbolic state for write/offset accounting',
        'ref': 'DESIGN.md 4 C04; 3 TAB5b TAB5c OUT1 OUT3',
    },
    'C05': {
        'level': "Decides that all print variants funnel into one printer and differ only in buffer set-up, that format influences whitespace stores and lengths only, that the kind switch is exhaustive and masked, that control bytes/quote/backslash are escaped, that the locale decimal point is normalised, that the literals are the JSON ones, that no print entry point reads the buffer offset while it does not yet cover the last token a printer wrote (OUT8: the text would be cut there), and (NUM1) that exactly the non-finite doubles are printed as null: print_number is followed once per class of IEEE doubles (NaN, +Inf, -Inf, finite positive, finite negative, zero) in a class/interval domain. Acceptance by an independent strict parser is not decided.",
        'note': COMMON_NOTE + " Not decided: integer formatting, strictness as a language property.",
        'technique': 'static analysis: call-graph funnel check, control-dependence census on the format flag, table extraction, abstract interpretation of print_number over classes of doubles',
        'ref': 'DESIGN.md 4 C05; 3 TAB2 TAB15 TAB3 TAB5b TAB16; 17 NUM1',
    },
    'C09': {
        'level': "For every ensure(p, N) site and every assignment of the boolean atoms, the bytes stored through the granted pointer are at most N (path enumeration with linear symbolic state), every output store goes through such a grant, and ensure grants at least N bytes inside [0, length) or refuses (the spare byte it keeps is inferred, offset-only refusals must be consistent with it, and the bytes copied out of the old block lie inside it), with the noalloc gate dominating growth. Exhaustive over sites and paths of the printing functions, where tests sample a few trees and sizes.",
        'note': COMMON_NOTE + " Symbols (depth, output_length, strlen) are treated as non-negative integers; the escaping loop's byte count rests on TAB5b.",
        'technique': 'static analysis: symbolic path enumeration with linear expressions over the CFG, loop summaries, dominance checks on ensure()',
        'ref': 'DESIGN.md 4 C09; 3 OUT1 OUT2 OUT4 BND4',
    },
})
# clauses added by later seed waves: inserted in front of the closing "Does not decide .." sentence
ADDENDA = {
    'C15': "A name byte is compared with a token byte directly only where the token byte is neither '~' nor '/' (ESC3).",
    'C16': "Numbers of a test operation compare equal only behind compare_double (NUMU).",
    'C17': "A text that keeps its own length grows by the encoded length of the name appended to it (ESC2); two numbers count as equal only behind compare_double (NUMU).",
    'C18': "The generator takes two numbers for equal only behind compare_double (NUMU).",
}
for _k, _t in ADDENDA.items():
    _l = TEXTS[_k]['level']
    _i = max(_l.rfind(' Does not decide'), _l.rfind(' The merged value itself'))
    TEXTS[_k]['level'] = (_l[:_i] + ' ' + _t + _l[_i:]) if _i > 0 else (_l + ' ' + _t)
ADDENDA_END = {
    'C02': "The int view is decided by evaluating the conversion once per region of the doubles (TAB7), not by matching a template.",
    'C07': "OWN10: nothing is written into text a node only borrows; REFC: a half-built reference node is never released as an owner.",
    'C09': "OUT1 accepts a direct write only behind a room test the code makes itself, against the bound of the bytes written.",
    'C11': "SHP4: the duplicator evaluated over every kind of node and short containers (bounded): no payload is left out for any kind.",
    'C16': "ESC4: a decoded name is never read as a pointer token again.",
    'C18': "MRG5: null members are pruned from objects only, never inside arrays of the patch.",
    'C12': "NUM4: compare_double over all pairs of operand classes of IEEE doubles - NaN equals nothing, infinity equals neither a finite number nor the other infinity, zero equals zero.",
    'C04': "NUM4: the comparison print_number relies on to accept the short rendering does not take an infinite read-back for equal to a finite number (the DBL_MAX case named in the property).",
    'C15': "PTR1: the resolver hands back an element only on paths where the whole pointer text was used (byte-path engine): text that does not begin with '/' designates nothing.",
    'C06': "SHP3: the index, size and key queries answer like the list model on every list of up to five elements / every arrangement of three keys on up to four members (first match, exact and case-folded), writing nothing - a bounded statement.",
    'C01': "OUT9: the decoded string fits the block allocated for it (the scan's escape count, the block size as a linear form over the scan's end and start, what every turn of the decoder writes against what it consumes, the UTF-16 arm over value sets, the terminator) - a count over the whole literal assembled from per-step facts.",
}
for _k, _t in ADDENDA_END.items():
    TEXTS[_k]['level'] += ' ' + _t
ADDENDA_W9 = {
    'C02': "TAB24: the nesting bound of the parser is the documented limit to the level.",
    'C11': "TAB24: the depth bound of the duplicator is the documented limit to the level.",
    'C12': "SHP5: the comparison evaluated against the definition of equality on short trees, ownership flags included (bounded).",
    'C15': "IDX1: index tokens converted by the C library begin with a digit; FND1: the search for a node gives up only because of the tree.",
    'C17': "ORD2: no position in a member list is kept across its sorting.",
}
for _k, _t in ADDENDA_W9.items():
    TEXTS[_k]['level'] += ' ' + _t
ADDENDA_W10 = {
    'C02': "ENT1: the entry point gives up in front of the value parser only when the value could not be parsed either; NUM5: digits accumulated in a double stay exact.",
    'C04': "NUM5 (see C02).",
    'C07': "DEL1 follows both outcomes of counter tests in cJSON_Delete.",
    'C10': "ENT1 (see C02).",
}
for _k, _t in ADDENDA_W10.items():
    TEXTS[_k]['level'] += ' ' + _t
ADDENDA_W11 = {
    'C02': "NUM6: a number strtod converted is refused only if it is not finite.",
    'C07': "OWN11: a node handed over by value leaves nothing behind.",
    'C08': "OUT4: a refused reallocate releases the old block.",
    'C16': "TAB10: comparisons with operation names are of the whole name.",
}
for _k, _t in ADDENDA_W11.items():
    TEXTS[_k]['level'] += ' ' + _t
NOT_APPLICABLE = {}
