#!/usr/bin/env python3
"""Confirm a seeded change and run the checks against it.

  tools/seed_eval.py <seed-name> <dir-with-patch.diff,demo.c,meta.json> [--props C01,C10]

1. copies the three files to /verif/seeded/<seed-name>/
2. in a scratch copy of /repo HEAD: applies the patch, builds both configurations, runs the repository tests,
   builds demo.c with ASan/UBSan with and without the patch and records exit codes
3. runs ./check for every claimed property (or --props) against the patched scratch copy (CJSA_REPO)
Results are written into meta.json under "confirmed" and "checks".
"""
import json
import os
import shutil
import subprocess
import sys
import tempfile

HERE = os.path.dirname(os.path.dirname(os.path.abspath(__file__)))
sys.path.insert(0, HERE)


def sh(cmd, cwd=None, timeout=600):
    r = subprocess.run(cmd, shell=True, cwd=cwd, stdout=subprocess.PIPE, stderr=subprocess.STDOUT, text=True, errors='replace', timeout=timeout)
    return r.returncode, r.stdout


def main():
    name, src = sys.argv[1], sys.argv[2]
    props = None
    if '--props' in sys.argv:
        props = sys.argv[sys.argv.index('--props') + 1].split(',')
    dst = os.path.join(HERE, 'seeded', name)
    os.makedirs(dst, exist_ok=True)
    for f in ('patch.diff', 'demo.c', 'meta.json'):
        if os.path.abspath(src) != os.path.abspath(dst):
            shutil.copy(os.path.join(src, f), os.path.join(dst, f))
    meta = json.load(open(os.path.join(dst, 'meta.json')))
    scratch = tempfile.mkdtemp(prefix='seedchk_')
    confirmed = {}
    try:
        sh('rsync -a --exclude _build --exclude .git /repo/ %s/with/' % scratch)
        sh('rsync -a --exclude _build --exclude .git /repo/ %s/without/' % scratch)
        rc, out = sh('patch -p1 < %s' % os.path.join(dst, 'patch.diff'), cwd=scratch + '/with')
        confirmed['patch_applies'] = rc == 0
        if rc != 0:
            confirmed['patch_output'] = out[-500:]
        rc, out = sh('cmake -S . -B _b -G Ninja >/dev/null 2>&1 && cmake --build _b 2>&1 | tail -3 && ctest --test-dir _b -j8 --timeout 120 2>&1 | tail -3',
                     cwd=scratch + '/with')
        confirmed['tests_default'] = '100% tests passed' in out and 'out of 19' in out
        rc, out2 = sh('cmake -S . -B _bu -G Ninja -DENABLE_CJSON_UTILS=On >/dev/null 2>&1 && cmake --build _bu 2>&1 | tail -3 && ctest --test-dir _bu -j8 --timeout 120 2>&1 | tail -3',
                      cwd=scratch + '/with')
        confirmed['tests_with_utils'] = '100% tests passed' in out2 and 'out of 22' in out2
        for side in ('with', 'without'):
            d = os.path.join(scratch, side)
            rc, out = sh('clang -g -fsanitize=address,undefined -I. %s cJSON.c cJSON_Utils.c -lm -lpthread -o demo_bin 2>&1 | tail -3'
                         % os.path.join(dst, 'demo.c'), cwd=d)
            rc, out = sh('ASAN_OPTIONS=detect_leaks=1 timeout 60 ./demo_bin 2>&1 | tail -5; exit ${PIPESTATUS[0]}', cwd=d)
            rc2, _ = sh('ASAN_OPTIONS=detect_leaks=1 timeout 60 ./demo_bin >/dev/null 2>&1', cwd=d)
            confirmed['demo_%s_patch_exit' % side] = rc2
        confirmed['ok'] = bool(confirmed['patch_applies'] and confirmed['tests_default'] and
                               confirmed['demo_with_patch_exit'] != 0 and confirmed['demo_without_patch_exit'] == 0)
        # run the checks against the patched scratch copy (CJSA_REPO); /repo itself is not touched
        from cjsa import props as P
        results = {}
        if not confirmed['patch_applies']:
            results['apply'] = confirmed.get('patch_output', '')
        else:
            sh('rm -rf _b _bu demo_bin', cwd=scratch + '/with')

            def one(pid):
                env_out = tempfile.mkdtemp(prefix='seedout_')
                r = subprocess.run([os.path.join(HERE, 'check'), pid], env=dict(os.environ, CJSA_OUT=env_out, CJSA_REPO=scratch + '/with'),
                                   stdout=subprocess.PIPE, stderr=subprocess.STDOUT, text=True)
                shutil.rmtree(env_out, ignore_errors=True)
                lines = [l for l in r.stdout.split('\n') if l and 'conda' not in l]
                return pid, {'exit': r.returncode,
                             'reports': [l for l in lines if not l.startswith('VIOLATION') and not l.startswith(pid + ' [')][:6]}
            from concurrent.futures import ThreadPoolExecutor
            with ThreadPoolExecutor(max_workers=6) as ex:
                for pid, res in ex.map(one, props or P.claimed()):
                    results[pid] = res
    finally:
        shutil.rmtree(scratch, ignore_errors=True)
    meta['confirmed'] = confirmed
    meta['checks'] = results
    meta['caught_by'] = sorted(p for p, r in results.items() if isinstance(r, dict) and r.get('exit') == 1)
    json.dump(meta, open(os.path.join(dst, 'meta.json'), 'w'), indent=1)
    print('%s: confirmed=%s caught_by=%s' % (name, confirmed, meta['caught_by']))
    for p, r in results.items():
        if isinstance(r, dict) and r.get('exit') != 0:
            print('  %s exit %s: %s' % (p, r['exit'], ' | '.join(r['reports'])[:600]))
    return 0


if __name__ == '__main__':
    sys.exit(main())
