#!/usr/bin/env python3
"""Regenerates MANIFEST.json from cjsa/props.py (claimed properties) and tools/manifest_texts.py."""
import json
import os
import sys
HERE = os.path.dirname(os.path.dirname(os.path.abspath(__file__)))
sys.path.insert(0, HERE)
from cjsa import props  # noqa
from tools import manifest_texts as T  # noqa

ALL = ['C%02d' % i for i in range(1, 21)]
checks = []
for pid in sorted(props.PROPERTIES):
    spec = props.PROPERTIES[pid]
    t = T.TEXTS[pid]
    checks.append({
        'property_id': pid,
        'quick_cmd': './check %s --tier quick' % pid,
        'thorough_cmd': './check %s --tier thorough' % pid,
        'evidence_file': '/verif/evidence/%s.json' % pid,
        'replay_cmd_template': './check replay {path}',
        'engine': 'cjsa',
        'level_claimed': {'category': 'other', 'text': t['level'], 'design_ref': t['ref']},
        'level_note': t['note'],
        'technique': t['technique'],
    })
na = [{'property_id': p, 'reason': T.NOT_APPLICABLE.get(p, 'check under construction in this session; not claimed yet')}
      for p in ALL if p not in props.PROPERTIES]
m = {
    'version': 1,
    'setup_cmd': './setup.sh',
    'hooks': {
        'guard': 'CJSON_VERIF',
        'enable': 'none needed: the analysis reads the source, nothing is instrumented and no hook was added to /repo',
        'baseline_off_cmd': 'cmake -S /repo -B /repo/_build -G Ninja >/dev/null && cmake --build /repo/_build >/dev/null && ctest --test-dir /repo/_build -j8 --timeout 900',
        'source_commits': [],
        'add_only': True,
    },
    'engines': [{
        'name': 'cjsa', 'path': '/verif/check', 'serves_properties': sorted(props.PROPERTIES),
        'kind_free_text': 'clang-14 frontend plugin (engine/cjsa_export.cc) exporting the type-checked AST of both library '
                          'units; Python rules (cjsa/rules/*.py) over an own CFG with lowered conditions, forward dataflow, '
                          'the resolved call graph and extracted tables; LLVM-IR cross-check for the effect rules',
    }],
    'checks': checks,
    'not_applicable': na,
    'notes': 'Static analysis only: no check executes code from /repo. Exit 0 = all obligations discharged (KNOWN-FINDING '
             'lines possible); 1 = VIOLATION lines; 2 = analysis broken (anchor vanished / instance floor / construct not '
             'understood). Fix commits in /repo are listed in known_findings.json as status=fixed.',
}
json.dump(m, open(os.path.join(HERE, 'MANIFEST.json'), 'w'), indent=1)
print('MANIFEST.json: %d checks, %d not applicable' % (len(checks), len(na)))
