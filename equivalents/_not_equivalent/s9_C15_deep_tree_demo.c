#include <stdio.h>
#include <stdlib.h>
#include "cJSON.h"
#include "cJSON_Utils.h"
int main(void)
{
    cJSON *root = cJSON_CreateArray(), *cur = root, *leaf = NULL; int i; char *p;
    for (i = 0; i < 1002; i++) { cJSON *n = cJSON_CreateArray(); cJSON_AddItemToArray(cur, n); cur = n; }
    leaf = cJSON_CreateNumber(7); cJSON_AddItemToArray(cur, leaf);
    p = cJSONUtils_FindPointerFromObjectTo(root, leaf);
    printf("%s\n", p ? "found" : "NOT FOUND");
    if (p) { cJSON *back = cJSONUtils_GetPointerCaseSensitive(root, p); printf("%s\n", back == leaf ? "resolves back" : "does not resolve back"); }
    free(p); cJSON_Delete(root);
    return p ? 0 : 1;
}
