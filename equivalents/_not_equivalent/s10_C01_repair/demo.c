/* The repaired variant of seed s10_C01 bounds the recursion of cJSON_Delete by CJSON_NESTING_LIMIT where children are entered.
 * A tree built through the API (not by the parser) can be deeper than that: cJSON_Delete then abandons everything below level
 * 1000.  Exits 0 when every block is released, 1 otherwise. */
#include <stdio.h>
#include <stdlib.h>
#include "cJSON.h"
static long live = 0;
static void *m(size_t n) { live++; return malloc(n); }
static void f(void *p) { if (p) { live--; } free(p); }
int main(void)
{
    cJSON_Hooks h; cJSON *root, *cur; int i;
    h.malloc_fn = m; h.free_fn = f; cJSON_InitHooks(&h);
    root = cJSON_CreateArray(); cur = root;
    for (i = 0; i < 1500; i++) { cJSON *n = cJSON_CreateArray(); cJSON_AddItemToArray(cur, n); cur = n; }
    cJSON_Delete(root);
    printf("blocks still allocated after cJSON_Delete of a 1501-level tree: %ld\n", live);
    return live != 0;
}
