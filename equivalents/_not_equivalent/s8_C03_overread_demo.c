#include <stdlib.h>
#include <string.h>
#include <stdio.h>
#include "cJSON.h"
int main(void)
{
    const char *texts[] = { "-in", "0x1F", "[0xAB" };
    size_t k;
    for (k = 0; k < 3; k++)
    {
        size_t n = strlen(texts[k]);
        char *exact = (char*)malloc(n);
        cJSON *item = NULL;
        memcpy(exact, texts[k], n);
        item = cJSON_ParseWithLength(exact, n);
        printf("%s -> %s\n", texts[k], item ? "accepted" : "rejected");
        cJSON_Delete(item);
        free(exact);
    }
    return 0;
}
