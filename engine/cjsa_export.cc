// cjsa_export: clang-14 frontend plugin that serialises the type-checked program
// (functions, statement trees, per-function CFG, globals, records, enums, #if census)
// of one translation unit into a JSON fact base.  It does no judging.
//
//   clang -fsyntax-only -fplugin=cjsa_export.so -Xclang -plugin -Xclang cjsa \
//         -Xclang -plugin-arg-cjsa -Xclang out=<file.json> <flags> unit.c
//
#include "clang/AST/AST.h"
#include "clang/AST/ASTConsumer.h"
#include "clang/AST/ASTContext.h"
#include "clang/AST/RecursiveASTVisitor.h"
#include "clang/Analysis/CFG.h"
#include "clang/Frontend/CompilerInstance.h"
#include "clang/Frontend/FrontendPluginRegistry.h"
#include "clang/Lex/Lexer.h"
#include "clang/Lex/PPCallbacks.h"
#include "clang/Lex/Preprocessor.h"
#include "llvm/Support/JSON.h"
#include "llvm/Support/raw_ostream.h"
#include <map>
#include <set>
#include <string>
#include <vector>

using namespace clang;
namespace json = llvm::json;

namespace {

struct Shared {
  std::string outPath;
  std::set<std::string> macrosTested;
};

class Exporter {
public:
  Exporter(ASTContext &C, Shared &S) : Ctx(C), SM(C.getSourceManager()), Sh(S) {}

  ASTContext &Ctx;
  SourceManager &SM;
  Shared &Sh;

  std::map<const Decl *, int> declIds;
  std::map<std::string, int> typeIds;
  json::Array types;

  // per function
  std::map<const Stmt *, int> stmtIds;
  int nextStmtId = 0;

  int declId(const Decl *D) {
    D = D->getCanonicalDecl();
    auto it = declIds.find(D);
    if (it != declIds.end())
      return it->second;
    int id = (int)declIds.size() + 1;
    declIds[D] = id;
    return id;
  }

  int typeId(QualType T) {
    QualType CT = T.getCanonicalType();
    std::string s = CT.getAsString();
    auto it = typeIds.find(s);
    if (it != typeIds.end())
      return it->second;
    int id = (int)types.size();
    typeIds[s] = id;
    json::Object o;
    o["s"] = s;
    const Type *Ty = CT.getTypePtr();
    std::string cls = "other";
    if (Ty->isPointerType()) {
      cls = "ptr";
      QualType P = Ty->getPointeeType();
      o["pointee_const"] = P.isConstQualified();
      if (P->isFunctionType())
        o["fnptr"] = true;
    } else if (Ty->isBooleanType() || Ty->isIntegerType()) {
      cls = "int";
      o["unsigned"] = Ty->isUnsignedIntegerType();
      if (!Ty->isIncompleteType())
        o["bits"] = (int64_t)Ctx.getTypeSize(CT);
      if (Ty->isEnumeralType())
        o["enum"] = true;
    } else if (Ty->isFloatingType()) {
      cls = "float";
    } else if (Ty->isArrayType()) {
      cls = "array";
      if (const auto *CA = Ctx.getAsConstantArrayType(CT))
        o["count"] = (int64_t)CA->getSize().getZExtValue();
    } else if (Ty->isRecordType()) {
      cls = "record";
    } else if (Ty->isFunctionType()) {
      cls = "fn";
    } else if (Ty->isVoidType()) {
      cls = "void";
    }
    o["c"] = cls;
    o["const"] = CT.isConstQualified();
    types.push_back(std::move(o));
    // register pointee too, so python can follow
    return id;
  }

  json::Array loc(SourceLocation L) {
    SourceLocation E = SM.getExpansionLoc(L);
    PresumedLoc P = SM.getPresumedLoc(E);
    json::Array a;
    if (P.isValid()) {
      a.push_back((int64_t)P.getLine());
      a.push_back((int64_t)P.getColumn());
    } else {
      a.push_back(0);
      a.push_back(0);
    }
    return a;
  }

  std::string fileOf(SourceLocation L) {
    SourceLocation E = SM.getExpansionLoc(L);
    PresumedLoc P = SM.getPresumedLoc(E);
    if (!P.isValid())
      return "";
    return P.getFilename();
  }

  bool inUserCode(SourceLocation L) {
    SourceLocation E = SM.getExpansionLoc(L);
    return !SM.isInSystemHeader(E) && E.isValid();
  }

  static const char *unop(UnaryOperatorKind k) {
    switch (k) {
    case UO_PostInc: return "post++";
    case UO_PostDec: return "post--";
    case UO_PreInc: return "pre++";
    case UO_PreDec: return "pre--";
    case UO_AddrOf: return "&";
    case UO_Deref: return "*";
    case UO_Plus: return "+";
    case UO_Minus: return "-";
    case UO_Not: return "~";
    case UO_LNot: return "!";
    default: return "?";
    }
  }

  void addMacro(json::Object &o, SourceLocation L) {
    if (!L.isMacroID())
      return;
    json::Array names;
    SourceLocation cur = L;
    int guard = 0;
    while (cur.isMacroID() && guard++ < 8) {
      StringRef n = Lexer::getImmediateMacroName(cur, SM, Ctx.getLangOpts());
      if (!n.empty())
        names.push_back(n.str());
      // climb to the enclosing expansion
      if (SM.isMacroArgExpansion(cur))
        cur = SM.getImmediateExpansionRange(cur).getBegin();
      else
        cur = SM.getImmediateExpansionRange(cur).getBegin();
    }
    if (!names.empty())
      o["m"] = std::move(names);
  }

  const Expr *strip(const Expr *E) {
    // drop parentheses and implicit casts, keep explicit casts
    while (true) {
      if (const auto *P = dyn_cast<ParenExpr>(E)) {
        E = P->getSubExpr();
        continue;
      }
      if (const auto *I = dyn_cast<ImplicitCastExpr>(E)) {
        E = I->getSubExpr();
        continue;
      }
      if (const auto *C = dyn_cast<ConstantExpr>(E)) {
        E = C->getSubExpr();
        continue;
      }
      break;
    }
    return E;
  }

  int idOf(const Stmt *S) {
    auto it = stmtIds.find(S);
    if (it != stmtIds.end())
      return it->second;
    int id = nextStmtId++;
    stmtIds[S] = id;
    return id;
  }

  json::Value exportExpr(const Expr *E0) {
    const Expr *E = strip(E0);
    json::Object o;
    int id = idOf(E);
    // map the unstripped wrappers to the same id so CFG elements resolve
    {
      const Expr *W = E0;
      while (W != E) {
        stmtIds[W] = id;
        if (const auto *P = dyn_cast<ParenExpr>(W))
          W = P->getSubExpr();
        else if (const auto *I = dyn_cast<ImplicitCastExpr>(W))
          W = I->getSubExpr();
        else if (const auto *C = dyn_cast<ConstantExpr>(W))
          W = C->getSubExpr();
        else
          break;
      }
    }
    o["id"] = id;
    o["ty"] = typeId(E0->getType());
    if (E->getType().getCanonicalType() != E0->getType().getCanonicalType())
      o["ty0"] = typeId(E->getType());
    o["loc"] = loc(E->getBeginLoc());
    addMacro(o, E->getBeginLoc());

    // constant folding (integers only, no side effects)
    if (!E0->isValueDependent() && E0->getType()->isIntegralOrEnumerationType()) {
      Expr::EvalResult R;
      if (E0->EvaluateAsInt(R, Ctx, Expr::SE_NoSideEffects)) {
        llvm::APSInt V = R.Val.getInt();
        if (V.isSigned() || V.getActiveBits() <= 63)
          o["val"] = (int64_t)V.getExtValue();
        else
          o["val"] = (int64_t)V.getZExtValue();
      }
    } else if (E != E0 && !E->isValueDependent() && E->getType()->isIntegralOrEnumerationType() &&
               E0->getType()->isFloatingType()) {
      // an integer constant converted to a floating type (e.g. `number >= INT_MAX`): keep the integer value
      Expr::EvalResult R;
      if (E->EvaluateAsInt(R, Ctx, Expr::SE_NoSideEffects)) {
        llvm::APSInt V = R.Val.getInt();
        o["val"] = (int64_t)V.getExtValue();
        o["intconst_as_float"] = true;
      }
    } else if (!E0->isValueDependent() && E0->getType()->isPointerType()) {
      if (E0->isNullPointerConstant(Ctx, Expr::NPC_ValueDependentIsNotNull))
        o["null"] = true;
    }

    if (const auto *DR = dyn_cast<DeclRefExpr>(E)) {
      o["k"] = "ref";
      const ValueDecl *D = DR->getDecl();
      o["d"] = declId(D);
      o["n"] = D->getNameAsString();
      const char *dk = "other";
      if (isa<ParmVarDecl>(D))
        dk = "param";
      else if (const auto *VD = dyn_cast<VarDecl>(D))
        dk = VD->hasGlobalStorage() ? (VD->isStaticLocal() ? "slocal" : "global") : "local";
      else if (isa<FunctionDecl>(D))
        dk = "fn";
      else if (isa<EnumConstantDecl>(D))
        dk = "enumc";
      o["dk"] = dk;
    } else if (const auto *ME = dyn_cast<MemberExpr>(E)) {
      o["k"] = "mem";
      o["f"] = ME->getMemberDecl()->getNameAsString();
      o["arrow"] = ME->isArrow();
      o["b"] = exportExpr(ME->getBase());
    } else if (const auto *UO = dyn_cast<UnaryOperator>(E)) {
      o["k"] = "un";
      o["op"] = unop(UO->getOpcode());
      o["e"] = exportExpr(UO->getSubExpr());
    } else if (const auto *CAO = dyn_cast<CompoundAssignOperator>(E)) {
      o["k"] = "bin";
      o["op"] = CAO->getOpcodeStr().str();
      o["l"] = exportExpr(CAO->getLHS());
      o["r"] = exportExpr(CAO->getRHS());
    } else if (const auto *BO = dyn_cast<BinaryOperator>(E)) {
      o["k"] = "bin";
      o["op"] = BO->getOpcodeStr().str();
      o["l"] = exportExpr(BO->getLHS());
      o["r"] = exportExpr(BO->getRHS());
    } else if (const auto *CO = dyn_cast<ConditionalOperator>(E)) {
      o["k"] = "cond";
      o["c"] = exportExpr(CO->getCond());
      o["t"] = exportExpr(CO->getTrueExpr());
      o["e"] = exportExpr(CO->getFalseExpr());
    } else if (const auto *CE = dyn_cast<CallExpr>(E)) {
      o["k"] = "call";
      o["fn"] = exportExpr(CE->getCallee());
      if (const FunctionDecl *FD = CE->getDirectCallee()) {
        o["callee"] = FD->getNameAsString();
        o["callee_d"] = declId(FD);
        if (unsigned B = FD->getBuiltinID())
          o["builtin"] = (int64_t)B;
      }
      json::Array args;
      for (const Expr *A : CE->arguments())
        args.push_back(exportExpr(A));
      o["args"] = std::move(args);
    } else if (const auto *AS = dyn_cast<ArraySubscriptExpr>(E)) {
      o["k"] = "idx";
      o["b"] = exportExpr(AS->getBase());
      o["i"] = exportExpr(AS->getIdx());
    } else if (const auto *CS = dyn_cast<CStyleCastExpr>(E)) {
      o["k"] = "cast";
      o["e"] = exportExpr(CS->getSubExpr());
      o["from"] = typeId(CS->getSubExpr()->getType());
      o["ck"] = CS->getCastKindName();
    } else if (const auto *IL = dyn_cast<IntegerLiteral>(E)) {
      o["k"] = "int";
      (void)IL;
    } else if (const auto *CL = dyn_cast<CharacterLiteral>(E)) {
      o["k"] = "char";
      o["val"] = (int64_t)CL->getValue();
    } else if (const auto *FL = dyn_cast<FloatingLiteral>(E)) {
      o["k"] = "float";
      o["fval"] = FL->getValueAsApproximateDouble();
    } else if (const auto *SL = dyn_cast<StringLiteral>(E)) {
      o["k"] = "str";
      json::Array bytes;
      StringRef B = SL->getBytes();
      for (unsigned char c : B)
        bytes.push_back((int64_t)c);
      o["bytes"] = std::move(bytes);
    } else if (const auto *UE = dyn_cast<UnaryExprOrTypeTraitExpr>(E)) {
      o["k"] = "sizeof";
      if (UE->getKind() == UETT_SizeOf && !UE->isArgumentType()) {
        o["e"] = exportExpr(UE->getArgumentExpr());
      } else if (UE->isArgumentType()) {
        o["argty"] = typeId(UE->getArgumentType());
      }
    } else if (const auto *ILE = dyn_cast<InitListExpr>(E)) {
      o["k"] = "initlist";
      json::Array a;
      for (const Expr *I : ILE->inits())
        a.push_back(exportExpr(I));
      o["inits"] = std::move(a);
    } else if (isa<ImplicitValueInitExpr>(E)) {
      o["k"] = "zeroinit";
    } else if (const auto *SE = dyn_cast<StmtExpr>(E)) {
      o["k"] = "stmtexpr";
      o["body"] = exportStmt(SE->getSubStmt());
    } else if (const auto *CLE = dyn_cast<CompoundLiteralExpr>(E)) {
      o["k"] = "compoundlit";
      o["e"] = exportExpr(CLE->getInitializer());
    } else if (const auto *VA = dyn_cast<VAArgExpr>(E)) {
      o["k"] = "vaarg";
      o["e"] = exportExpr(VA->getSubExpr());
    } else if (const auto *PE = dyn_cast<PredefinedExpr>(E)) {
      (void)PE;
      o["k"] = "predefined";
    } else {
      o["k"] = "unknown";
      o["cls"] = E->getStmtClassName();
      json::Array kids;
      for (const Stmt *C : E->children())
        if (C) {
          if (const auto *CE2 = dyn_cast<Expr>(C))
            kids.push_back(exportExpr(CE2));
          else
            kids.push_back(exportStmt(C));
        }
      o["kids"] = std::move(kids);
    }
    return json::Value(std::move(o));
  }

  json::Value exportVarDecl(const VarDecl *VD) {
    json::Object d;
    d["d"] = declId(VD);
    d["n"] = VD->getNameAsString();
    d["ty"] = typeId(VD->getType());
    d["loc"] = loc(VD->getLocation());
    d["static"] = VD->hasGlobalStorage();
    if (VD->hasInit())
      d["init"] = exportExpr(VD->getInit());
    return json::Value(std::move(d));
  }

  json::Value exportStmt(const Stmt *S) {
    if (const auto *E = dyn_cast<Expr>(S))
      return exportExpr(E);
    json::Object o;
    o["id"] = idOf(S);
    o["loc"] = loc(S->getBeginLoc());
    addMacro(o, S->getBeginLoc());
    if (const auto *CS = dyn_cast<CompoundStmt>(S)) {
      o["k"] = "compound";
      json::Array a;
      for (const Stmt *C : CS->body())
        a.push_back(exportStmt(C));
      o["body"] = std::move(a);
    } else if (const auto *IS = dyn_cast<IfStmt>(S)) {
      o["k"] = "if";
      o["c"] = exportExpr(IS->getCond());
      o["t"] = exportStmt(IS->getThen());
      if (IS->getElse())
        o["e"] = exportStmt(IS->getElse());
    } else if (const auto *WS = dyn_cast<WhileStmt>(S)) {
      o["k"] = "while";
      o["c"] = exportExpr(WS->getCond());
      o["body"] = exportStmt(WS->getBody());
    } else if (const auto *DS = dyn_cast<DoStmt>(S)) {
      o["k"] = "do";
      o["c"] = exportExpr(DS->getCond());
      o["body"] = exportStmt(DS->getBody());
    } else if (const auto *FS = dyn_cast<ForStmt>(S)) {
      o["k"] = "for";
      if (FS->getInit())
        o["init"] = exportStmt(FS->getInit());
      if (FS->getCond())
        o["c"] = exportExpr(FS->getCond());
      if (FS->getInc())
        o["inc"] = exportExpr(FS->getInc());
      o["body"] = exportStmt(FS->getBody());
    } else if (const auto *SS = dyn_cast<SwitchStmt>(S)) {
      o["k"] = "switch";
      o["c"] = exportExpr(SS->getCond());
      o["body"] = exportStmt(SS->getBody());
    } else if (const auto *CaS = dyn_cast<CaseStmt>(S)) {
      o["k"] = "case";
      o["v"] = exportExpr(CaS->getLHS());
      if (CaS->getRHS())
        o["vhi"] = exportExpr(CaS->getRHS());
      if (CaS->getSubStmt())
        o["sub"] = exportStmt(CaS->getSubStmt());
    } else if (const auto *DfS = dyn_cast<DefaultStmt>(S)) {
      o["k"] = "default";
      if (DfS->getSubStmt())
        o["sub"] = exportStmt(DfS->getSubStmt());
    } else if (isa<BreakStmt>(S)) {
      o["k"] = "break";
    } else if (isa<ContinueStmt>(S)) {
      o["k"] = "continue";
    } else if (const auto *RS = dyn_cast<ReturnStmt>(S)) {
      o["k"] = "return";
      if (RS->getRetValue())
        o["e"] = exportExpr(RS->getRetValue());
    } else if (const auto *GS = dyn_cast<GotoStmt>(S)) {
      o["k"] = "goto";
      o["label"] = GS->getLabel()->getNameAsString();
    } else if (const auto *LS = dyn_cast<LabelStmt>(S)) {
      o["k"] = "label";
      o["label"] = LS->getDecl()->getNameAsString();
      o["sub"] = exportStmt(LS->getSubStmt());
    } else if (const auto *DeS = dyn_cast<DeclStmt>(S)) {
      o["k"] = "decl";
      json::Array a;
      for (const Decl *D : DeS->decls()) {
        if (const auto *VD = dyn_cast<VarDecl>(D))
          a.push_back(exportVarDecl(VD));
      }
      o["decls"] = std::move(a);
    } else if (isa<NullStmt>(S)) {
      o["k"] = "null";
    } else if (const auto *AS = dyn_cast<AttributedStmt>(S)) {
      return exportStmt(AS->getSubStmt());
    } else {
      o["k"] = "unknownstmt";
      o["cls"] = S->getStmtClassName();
      json::Array kids;
      for (const Stmt *C : S->children())
        if (C)
          kids.push_back(exportStmt(C));
      o["kids"] = std::move(kids);
    }
    return json::Value(std::move(o));
  }

  const char *termKind(const Stmt *T) {
    if (!T) return "none";
    if (isa<IfStmt>(T)) return "if";
    if (isa<WhileStmt>(T)) return "while";
    if (isa<DoStmt>(T)) return "do";
    if (isa<ForStmt>(T)) return "for";
    if (isa<SwitchStmt>(T)) return "switch";
    if (isa<ConditionalOperator>(T)) return "?:";
    if (const auto *BO = dyn_cast<BinaryOperator>(T)) {
      if (BO->getOpcode() == BO_LAnd) return "&&";
      if (BO->getOpcode() == BO_LOr) return "||";
    }
    if (isa<GotoStmt>(T)) return "goto";
    if (isa<BreakStmt>(T)) return "break";
    if (isa<ContinueStmt>(T)) return "continue";
    if (isa<ReturnStmt>(T)) return "return";
    return "other";
  }

  json::Value exportCFG(const FunctionDecl *FD, json::Array &extra) {
    CFG::BuildOptions BO;
    BO.PruneTriviallyFalseEdges = true;
    BO.AddImplicitDtors = false;
    BO.AddTemporaryDtors = false;
    std::unique_ptr<CFG> G = CFG::buildCFG(FD, FD->getBody(), &Ctx, BO);
    json::Object g;
    if (!G) {
      g["ok"] = false;
      return json::Value(std::move(g));
    }
    g["ok"] = true;
    g["entry"] = (int64_t)G->getEntry().getBlockID();
    g["exit"] = (int64_t)G->getExit().getBlockID();
    json::Array blocks;
    for (const CFGBlock *B : *G) {
      json::Object b;
      b["id"] = (int64_t)B->getBlockID();
      json::Array elems;
      for (const CFGElement &El : *B) {
        if (Optional<CFGStmt> CS = El.getAs<CFGStmt>()) {
          const Stmt *S = CS->getStmt();
          auto it = stmtIds.find(S);
          if (it == stmtIds.end()) {
            // synthetic statement (e.g. split DeclStmt): export separately
            extra.push_back(exportStmt(S));
            it = stmtIds.find(S);
            if (it == stmtIds.end() ) {
              if (const auto *E = dyn_cast<Expr>(S))
                it = stmtIds.find(strip(E));
            }
          }
          if (it != stmtIds.end())
            elems.push_back((int64_t)it->second);
        }
      }
      b["elems"] = std::move(elems);
      json::Array succs;
      for (auto I = B->succ_begin(), E = B->succ_end(); I != E; ++I) {
        json::Object s;
        const CFGBlock *R = I->getReachableBlock();
        const CFGBlock *P = I->getPossiblyUnreachableBlock();
        if (R) {
          s["b"] = (int64_t)R->getBlockID();
          s["reach"] = true;
        } else if (P) {
          s["b"] = (int64_t)P->getBlockID();
          s["reach"] = false;
        } else {
          s["b"] = -1;
          s["reach"] = false;
        }
        succs.push_back(std::move(s));
      }
      b["succs"] = std::move(succs);
      const Stmt *T = B->getTerminatorStmt();
      if (T) {
        json::Object t;
        t["kind"] = termKind(T);
        auto it = stmtIds.find(T);
        if (it != stmtIds.end())
          t["stmt"] = (int64_t)it->second;
        if (const Stmt *C = B->getTerminatorCondition(true)) {
          auto ic = stmtIds.find(C);
          if (ic == stmtIds.end())
            if (const auto *CE = dyn_cast<Expr>(C))
              ic = stmtIds.find(strip(CE));
          if (ic != stmtIds.end())
            t["cond"] = (int64_t)ic->second;
        }
        b["term"] = std::move(t);
      }
      if (const Stmt *L = B->getLabel()) {
        json::Object l;
        if (const auto *CaS = dyn_cast<CaseStmt>(L)) {
          l["kind"] = "case";
          Expr::EvalResult R;
          if (CaS->getLHS()->EvaluateAsInt(R, Ctx))
            l["val"] = (int64_t)R.Val.getInt().getExtValue();
          if (CaS->getRHS()) {
            Expr::EvalResult R2;
            if (CaS->getRHS()->EvaluateAsInt(R2, Ctx))
              l["valhi"] = (int64_t)R2.Val.getInt().getExtValue();
          }
        } else if (isa<DefaultStmt>(L)) {
          l["kind"] = "default";
        } else if (const auto *LS = dyn_cast<LabelStmt>(L)) {
          l["kind"] = "label";
          l["name"] = LS->getDecl()->getNameAsString();
        }
        auto il = stmtIds.find(L);
        if (il != stmtIds.end())
          l["stmt"] = (int64_t)il->second;
        b["label"] = std::move(l);
      }
      if (B->hasNoReturnElement())
        b["noreturn"] = true;
      blocks.push_back(std::move(b));
    }
    g["blocks"] = std::move(blocks);
    return json::Value(std::move(g));
  }

  json::Value exportFunction(const FunctionDecl *FD) {
    stmtIds.clear();
    nextStmtId = 0;
    json::Object f;
    f["d"] = declId(FD);
    f["name"] = FD->getNameAsString();
    f["file"] = fileOf(FD->getLocation());
    f["loc"] = loc(FD->getLocation());
    f["endloc"] = loc(FD->getBody()->getEndLoc());
    f["static"] = FD->getStorageClass() == SC_Static || !FD->isExternallyVisible();
    f["external"] = FD->isExternallyVisible();
    bool declaredInHeader = false;
    for (const FunctionDecl *R : FD->redecls()) {
      std::string fn = fileOf(R->getLocation());
      if (fn.size() > 2 && fn.substr(fn.size() - 2) == ".h")
        declaredInHeader = true;
    }
    f["in_header"] = declaredInHeader;
    f["ret"] = typeId(FD->getReturnType());
    json::Array params;
    for (const ParmVarDecl *P : FD->parameters()) {
      json::Object p;
      p["d"] = declId(P);
      p["n"] = P->getNameAsString();
      p["ty"] = typeId(P->getType());
      params.push_back(std::move(p));
    }
    f["params"] = std::move(params);
    f["body"] = exportStmt(FD->getBody());
    json::Array extra;
    f["cfg"] = exportCFG(FD, extra);
    f["extra"] = std::move(extra);
    return json::Value(std::move(f));
  }

  void run() {
    json::Object root;
    json::Array functions, globals, records, enums, fdecls;
    const TranslationUnitDecl *TU = Ctx.getTranslationUnitDecl();
    root["main_file"] =
        SM.getFileEntryForID(SM.getMainFileID())
            ? SM.getFileEntryForID(SM.getMainFileID())->getName().str()
            : std::string();
    for (const Decl *D : TU->decls()) {
      if (!inUserCode(D->getLocation()))
        continue;
      if (const auto *FD = dyn_cast<FunctionDecl>(D)) {
        if (FD->doesThisDeclarationHaveABody()) {
          functions.push_back(exportFunction(FD));
        } else {
          json::Object o;
          o["d"] = declId(FD);
          o["name"] = FD->getNameAsString();
          o["file"] = fileOf(FD->getLocation());
          o["loc"] = loc(FD->getLocation());
          json::Array params;
          for (const ParmVarDecl *P : FD->parameters()) {
            json::Object p;
            p["n"] = P->getNameAsString();
            p["ty"] = typeId(P->getType());
            params.push_back(std::move(p));
          }
          o["params"] = std::move(params);
          o["ret"] = typeId(FD->getReturnType());
          fdecls.push_back(std::move(o));
        }
      } else if (const auto *VD = dyn_cast<VarDecl>(D)) {
        stmtIds.clear();
        nextStmtId = 0;
        json::Object g;
        g["d"] = declId(VD);
        g["n"] = VD->getNameAsString();
        g["ty"] = typeId(VD->getType());
        g["file"] = fileOf(VD->getLocation());
        g["loc"] = loc(VD->getLocation());
        g["const"] = VD->getType().isConstQualified();
        g["static"] = VD->getStorageClass() == SC_Static;
        g["extern"] = VD->hasExternalStorage();
        if (VD->hasInit())
          g["init"] = exportExpr(VD->getInit());
        globals.push_back(std::move(g));
      } else if (const auto *RD = dyn_cast<RecordDecl>(D)) {
        if (!RD->isCompleteDefinition())
          continue;
        json::Object r;
        std::string name = RD->getNameAsString();
        if (name.empty())
          if (const TypedefNameDecl *TD = RD->getTypedefNameForAnonDecl())
            name = TD->getNameAsString();
        r["name"] = name;
        r["loc"] = loc(RD->getLocation());
        r["file"] = fileOf(RD->getLocation());
        json::Array fields;
        for (const FieldDecl *F : RD->fields()) {
          json::Object fo;
          fo["n"] = F->getNameAsString();
          fo["ty"] = typeId(F->getType());
          fields.push_back(std::move(fo));
        }
        r["fields"] = std::move(fields);
        records.push_back(std::move(r));
      } else if (const auto *ED = dyn_cast<EnumDecl>(D)) {
        json::Object e;
        e["name"] = ED->getNameAsString();
        json::Array cs;
        for (const EnumConstantDecl *C : ED->enumerators()) {
          json::Object c;
          c["n"] = C->getNameAsString();
          c["d"] = declId(C);
          c["val"] = (int64_t)C->getInitVal().getExtValue();
          cs.push_back(std::move(c));
        }
        e["consts"] = std::move(cs);
        enums.push_back(std::move(e));
      }
    }
    root["functions"] = std::move(functions);
    root["fdecls"] = std::move(fdecls);
    root["globals"] = std::move(globals);
    root["records"] = std::move(records);
    root["enums"] = std::move(enums);
    root["types"] = std::move(types);
    json::Array mt;
    for (const std::string &m : Sh.macrosTested)
      mt.push_back(m);
    root["macros_tested"] = std::move(mt);

    std::error_code EC;
    llvm::raw_fd_ostream OS(Sh.outPath, EC);
    if (EC) {
      llvm::errs() << "cjsa_export: cannot write " << Sh.outPath << ": " << EC.message() << "\n";
      return;
    }
    OS << json::Value(std::move(root));
    OS << "\n";
  }
};

class CondCensus : public PPCallbacks {
public:
  CondCensus(Preprocessor &PP, Shared &S) : PP(PP), Sh(S) {}
  Preprocessor &PP;
  Shared &Sh;
  bool user(SourceLocation L) {
    SourceManager &SM = PP.getSourceManager();
    return L.isValid() && !SM.isInSystemHeader(SM.getExpansionLoc(L));
  }
  void Ifdef(SourceLocation Loc, const Token &T, const MacroDefinition &) override {
    if (user(Loc) && T.getIdentifierInfo())
      Sh.macrosTested.insert(T.getIdentifierInfo()->getName().str());
  }
  void Ifndef(SourceLocation Loc, const Token &T, const MacroDefinition &) override {
    if (user(Loc) && T.getIdentifierInfo())
      Sh.macrosTested.insert(T.getIdentifierInfo()->getName().str());
  }
  void Defined(const Token &T, const MacroDefinition &, SourceRange R) override {
    if (user(R.getBegin()) && T.getIdentifierInfo())
      Sh.macrosTested.insert(T.getIdentifierInfo()->getName().str());
  }
};

class Consumer : public ASTConsumer {
public:
  Consumer(Shared &S) : Sh(S) {}
  Shared &Sh;
  void HandleTranslationUnit(ASTContext &Ctx) override {
    if (Ctx.getDiagnostics().hasErrorOccurred())
      return;
    Exporter E(Ctx, Sh);
    E.run();
  }
};

class Action : public PluginASTAction {
  Shared Sh;

protected:
  std::unique_ptr<ASTConsumer> CreateASTConsumer(CompilerInstance &CI, llvm::StringRef) override {
    CI.getPreprocessor().addPPCallbacks(std::make_unique<CondCensus>(CI.getPreprocessor(), Sh));
    return std::make_unique<Consumer>(Sh);
  }
  bool ParseArgs(const CompilerInstance &, const std::vector<std::string> &args) override {
    for (const std::string &a : args) {
      if (a.rfind("out=", 0) == 0)
        Sh.outPath = a.substr(4);
    }
    if (Sh.outPath.empty())
      Sh.outPath = "cjsa_facts.json";
    return true;
  }
  PluginASTAction::ActionType getActionType() override { return ReplaceAction; }
};

} // namespace

static FrontendPluginRegistry::Add<Action> X("cjsa", "export cJSON static-analysis facts");
