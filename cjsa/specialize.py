"""Specialisation of static helpers whose every call site is a thin wrapper.

    static void skip_comment(char **input, const char *terminator, size_t length) { ... }
    static void skip_oneline_comment(char **input)   { skip_comment(input, "\\n", 1); }
    static void skip_multiline_comment(char **input) { skip_comment(input, "*/", 2); }

The helper alone says nothing about which terminator it looks for; each wrapper is the helper with constants for some
parameters.  `specialize(units, unit, roots)` returns a view of the unit in which every such wrapper reachable from
`roots` carries the helper's body with the parameters replaced by the wrapper's arguments, and the helper itself is gone
(a static function with no remaining caller).  The rules that decide what a scanner recognises then see the constants
where the helper has parameters.  This is the compiler's own inlining of a static function into its only callers: no
behaviour is added or dropped.

A function W is a thin wrapper of H when its body is the single statement `H(args);` or `return H(args);`, every
argument is one of W's own parameters or a constant expression (literal, sizeof, arithmetic on those), H is static, is
not recursive, is never referenced except as the callee of such wrappers, and never assigns to a parameter that receives
a constant.
"""
import copy

from .facts import Function, walk, strip_casts, const_val, callee_name, ASSIGN_OPS


def _is_constant(e):
    e = strip_casts(e)
    k = e.get('k')
    if k in ('str', 'int', 'char', 'float', 'sizeof'):
        return True
    if const_val(e) is not None:
        return True
    if k == 'bin' and e.get('op') in ('+', '-', '*'):
        return _is_constant(e['l']) and _is_constant(e['r'])
    return False


def _thin_call(W):
    """the call H(args) when W's body is exactly that call (as a statement or returned), else None"""
    b = W.body
    if b is None or b.get('k') != 'compound' or len(b.get('body', [])) != 1:
        return None
    s = b['body'][0]
    if s.get('k') == 'return' and 'e' in s:
        s = strip_casts(s['e'])
    s = strip_casts(s)
    if s.get('k') != 'call' or callee_name(s) is None:
        return None
    pars = {p['d'] for p in W.params}
    for a in s.get('args', []):
        a0 = strip_casts(a)
        if a0.get('k') == 'ref' and a0.get('d') in pars:
            continue
        if _is_constant(a):
            continue
        return None
    return s


def _subst(node, sub, fresh):
    """deep copy of an AST fragment with references to the declarations in `sub` replaced by (re-numbered) copies of the
    argument expressions"""
    if isinstance(node, list):
        return [_subst(x, sub, fresh) for x in node]
    if not isinstance(node, dict):
        return node
    if node.get('k') == 'ref' and node.get('d') in sub:
        arg = copy.deepcopy(sub[node['d']])
        for x in walk(arg):
            fresh[0] += 1
            x['id'] = fresh[0]
        if 'loc' in node:
            arg['loc'] = node['loc']
        return arg
    return {k: _subst(v, sub, fresh) for k, v in node.items()}


def specialize_unit(u, roots):
    """-> (view of u, {wrapper name: helper name}); u itself when nothing applies"""
    done = {}
    cur = u
    for _round in range(3):
        fns = cur.functions
        # functions reachable from the roots
        reach = set()
        work = [r for r in roots if r in fns]
        while work:
            n = work.pop()
            if n in reach:
                continue
            reach.add(n)
            f = fns[n]
            if f.body is None:
                continue
            for c in f.calls():
                if callee_name(c) in fns:
                    work.append(callee_name(c))
        # call sites and other references of every function
        callers = {}
        other_refs = set()
        for f in cur.function_list:
            if f.body is None:
                continue
            callee_ids = set()
            for c in f.calls():
                cn = callee_name(c)
                if cn in fns:
                    callers.setdefault(cn, []).append((f, c))
                    callee_ids.add(strip_casts(c['fn']).get('id'))
            for x in f.nodes():
                if x.get('k') == 'ref' and x.get('dk') == 'fn' and x.get('id') not in callee_ids and x.get('n') in fns:
                    other_refs.add(x['n'])
        for g in cur.globals:
            if 'init' in g:
                for x in walk(g['init']):
                    if x.get('k') == 'ref' and x.get('dk') == 'fn':
                        other_refs.add(x.get('n'))
        plan = {}
        for hname in sorted(reach):
            H = fns[hname]
            if hname in roots or not H.static or H.body is None or hname in other_refs or hname not in callers:
                continue
            if any(callee_name(c) == hname for c in H.calls()):
                continue
            sites = callers[hname]
            ok = True
            for (W, c) in sites:
                tc = _thin_call(W)
                if tc is None or tc is not c or len(c.get('args', [])) != len(H.params) or W.name in plan:
                    ok = False
                    break
            if not ok or not any(_is_constant(a) for (_W, c) in sites for a in c['args']):
                continue
            # the helper never assigns to (or takes the address of) a parameter that receives a constant
            const_params = set()
            for (_W, c) in sites:
                for p, a in zip(H.params, c['args']):
                    if _is_constant(a):
                        const_params.add(p['d'])
            for x in H.nodes():
                if x.get('k') == 'bin' and x.get('op') in ASSIGN_OPS:
                    l = strip_casts(x['l'])
                    if l.get('k') == 'ref' and l.get('d') in const_params:
                        ok = False
                if x.get('k') == 'un' and x.get('op') in ('&', 'pre++', 'pre--', 'post++', 'post--'):
                    e = strip_casts(x['e'])
                    if e.get('k') == 'ref' and e.get('d') in const_params:
                        ok = False
            if not ok:
                continue
            for (W, c) in sites:
                plan[W.name] = (H, c)
        if not plan:
            break
        view = copy.copy(cur)
        for attr in [a for a in vars(view) if a.startswith('_')]:
            delattr(view, attr)       # analysis caches of the original unit
        view.functions = {}
        view.function_list = []
        gone = {H.name for (H, _c) in plan.values()}
        for f in cur.function_list:
            if f.name in gone:
                continue
            if f.name in plan:
                H, c = plan[f.name]
                sub = {p['d']: strip_casts(a) for p, a in zip(H.params, c['args'])}
                fresh = [max([x.get('id', 0) for x in H.nodes()] + [0])]
                raw = dict(f.raw)
                raw['body'] = _subst(H.body, sub, fresh)
                raw['specialized_from'] = H.name
                nf = Function(view, raw)
                view.functions[nf.name] = nf
                view.function_list.append(nf)
                done[f.name] = H.name
            else:
                view.functions[f.name] = f
                view.function_list.append(f)
        view.by_decl = {fn.d: fn for fn in view.function_list}
        cur = view
    return cur, done


_cache = {}


def specialize(units, unit_name, roots):
    """units dict with `unit_name` replaced by its specialised view (the same dict when nothing applies)"""
    u = units.get(unit_name)
    if u is None:
        return units
    key = (id(u), tuple(roots))
    if key not in _cache:
        _cache[key] = (u, specialize_unit(u, tuple(roots)))     # keep u alive so that id(u) stays unique
    view, done = _cache[key][1]
    if not done:
        return units
    out = dict(units)
    out[unit_name] = view
    return out


# ---- inlining of private single-exit helpers ------------------------------------------------------------------------

def _side_effect_free(e):
    for x in walk(e):
        k = x.get('k')
        if k == 'call' or (k == 'bin' and x.get('op') in ASSIGN_OPS) or \
                (k == 'un' and x.get('op') in ('pre++', 'pre--', 'post++', 'post--')) or k in ('stmtexpr', 'unknown'):
            return False
    return True


def _single_exit(H):
    """(statements without the final return, returned expression | None) when H's body only returns - if at all - in its last
    top-level statement and has no labels; else None"""
    b = H.body
    if b is None or b.get('k') != 'compound':
        return None
    stmts = list(b.get('body', []))
    ret = None
    if stmts and stmts[-1].get('k') == 'return':
        ret = stmts[-1].get('e')
        stmts = stmts[:-1]
    for s in stmts:
        for x in walk_all(s):
            if x.get('k') in ('return', 'label', 'goto'):
                return None
    return stmts, ret


def walk_all(n):
    """every dict node below n (statements and expressions), without relying on the per-kind child tables"""
    stack = [n]
    while stack:
        x = stack.pop()
        if isinstance(x, dict):
            yield x
            for v in x.values():
                if isinstance(v, (dict, list)):
                    stack.append(v)
        elif isinstance(x, list):
            stack.extend(x)


def _subst_inline(node, sub, fresh):
    """like _subst, and (&x)->f becomes x.f; every copied node gets a fresh id"""
    if isinstance(node, list):
        return [_subst_inline(x, sub, fresh) for x in node]
    if not isinstance(node, dict):
        return node
    if node.get('k') == 'ref' and node.get('d') in sub:
        arg = copy.deepcopy(sub[node['d']])
        for x in walk_all(arg):
            if 'id' in x:
                fresh[0] += 1
                x['id'] = fresh[0]
        return arg
    out = {k: _subst_inline(v, sub, fresh) for k, v in node.items()}
    if 'id' in out:
        fresh[0] += 1
        out['id'] = fresh[0]
    if out.get('k') == 'mem' and out.get('arrow'):
        b = strip_casts(out['b'])
        if b.get('k') == 'un' and b.get('op') == '&':
            out['b'] = b['e']
            out['arrow'] = False
    if out.get('k') == 'un' and out.get('op') == '*':
        b = strip_casts(out['e'])
        if b.get('k') == 'un' and b.get('op') == '&':
            return b['e']
    return out


def inline_private_helpers(u, fname):
    """view of u in which the calls `h(args);` / `x = h(args);` / `return h(args);` that function `fname` makes to static,
    single-exit, non-recursive helpers only it calls (once) are replaced by the helper's body; u itself if there is none.
    The helpers stay in the unit (their own obligations are unchanged); only `fname` is rewritten."""
    F = u.functions.get(fname)
    if F is None or F.body is None:
        return u
    callers = {}
    taken = set()
    for f in u.function_list:
        if f.body is None:
            continue
        callee_ids = set()
        for c in f.calls():
            cn = callee_name(c)
            if cn in u.functions:
                callers.setdefault(cn, []).append(f.name)
                callee_ids.add(strip_casts(c['fn']).get('id'))
        for x in f.nodes():
            if x.get('k') == 'ref' and x.get('dk') == 'fn' and x.get('id') not in callee_ids:
                taken.add(x.get('n'))
    fresh = [max([x.get('id', 0) for x in walk_all(F.body)] + [0]) + 100000]
    done = []

    def expand(stmt):
        """the statement list that replaces stmt, or None"""
        s0 = stmt
        target = None
        returned = False
        e = stmt
        if e.get('k') == 'return' and 'e' in e:
            returned = True
            e = e['e']
        e = strip_casts(e)
        if e.get('k') == 'bin' and e.get('op') == '=' and _side_effect_free(e['l']):
            target = e['l']
            e = strip_casts(e['r'])
        if e.get('k') != 'call':
            return None
        cn = callee_name(e)
        H = u.functions.get(cn)
        if H is None or not H.static or H.body is None or cn in taken or callers.get(cn) != [fname] or cn == fname:
            return None
        if any(callee_name(c) == cn for c in H.calls()) or len(e.get('args', [])) != len(H.params):
            return None
        if not all(_side_effect_free(a) for a in e['args']):
            return None
        se = _single_exit(H)
        if se is None:
            return None
        stmts, ret = se
        pars = {p['d'] for p in H.params}
        for x in H.nodes():
            if x.get('k') == 'bin' and x.get('op') in ASSIGN_OPS and strip_casts(x['l']).get('k') == 'ref' and strip_casts(x['l']).get('d') in pars:
                return None
            if x.get('k') == 'un' and x.get('op') in ('&', 'pre++', 'pre--', 'post++', 'post--') and \
                    strip_casts(x['e']).get('k') == 'ref' and strip_casts(x['e']).get('d') in pars:
                return None
        sub = {p['d']: strip_casts(a) for p, a in zip(H.params, e['args'])}
        body = _subst_inline(stmts, sub, fresh)
        if ret is not None and (target is not None or returned):
            rv = _subst_inline(ret, sub, fresh)
            if returned and target is None:
                fresh[0] += 1
                body.append({'k': 'return', 'e': rv, 'id': fresh[0], 'loc': s0.get('loc', [0, 0])})
            else:
                fresh[0] += 1
                asg = {'k': 'bin', 'op': '=', 'l': copy.deepcopy(target), 'r': rv, 'id': fresh[0], 'loc': s0.get('loc', [0, 0]),
                       'ty': strip_casts(target).get('ty')}
                for x in walk_all(asg['l']):
                    if 'id' in x:
                        fresh[0] += 1
                        x['id'] = fresh[0]
                body.append(asg)
                if returned:
                    fresh[0] += 1
                    body.append({'k': 'return', 'e': copy.deepcopy(target), 'id': fresh[0], 'loc': s0.get('loc', [0, 0])})
        elif ret is not None and not _side_effect_free(ret):
            return None
        fresh[0] += 1
        done.append(cn)
        return [{'k': 'compound', 'body': body, 'id': fresh[0], 'loc': s0.get('loc', [0, 0]), 'inlined': cn}]

    def rewrite(node):
        if isinstance(node, list):
            out = []
            for x in node:
                if isinstance(x, dict):
                    rep = expand(x)
                    if rep is not None:
                        out.extend(rewrite(rep))       # helpers of helpers
                        continue
                out.append(rewrite(x))
            return out
        if isinstance(node, dict):
            # statement positions that hold a single statement (if/else/loop bodies)
            out = {}
            for k, v in node.items():
                if isinstance(v, dict) and k in ('then', 'else', 'body') and node.get('k') in ('if', 'while', 'do', 'for', 'switch', 'label', 'case', 'default'):
                    rep = expand(v)
                    out[k] = rewrite(rep[0]) if rep is not None else rewrite(v)
                else:
                    out[k] = rewrite(v)
            return out
        return node
    newbody = rewrite(F.body)
    if not done:
        return u
    view = copy.copy(u)
    for attr in [a for a in vars(view) if a.startswith('_')]:
        delattr(view, attr)
    raw = dict(F.raw)
    raw['body'] = newbody
    raw['inlined'] = sorted(set(done))
    nf = Function(view, raw)
    view.functions = dict(u.functions)
    view.functions[fname] = nf
    view.function_list = [nf if f.name == fname else f for f in u.function_list]
    view.by_decl = {fn.d: fn for fn in view.function_list}
    return view


_icache = {}


def with_inlined(units, unit_name, fname):
    u = units.get(unit_name)
    if u is None:
        return units
    key = (id(u), fname)
    if key not in _icache:
        _icache[key] = (u, inline_private_helpers(u, fname))
    view = _icache[key][1]
    if view is u:
        return units
    out = dict(units)
    out[unit_name] = view
    return out


# ---- general inlining of helpers that the pinned tree does not have -------------------------------------------------
#
# The rules are anchored on the functions of the pinned tree (cjsa/known_functions.json).  "Extract a helper" is the most
# common refactoring there is; the code of a static function that the pinned tree does not have is analysed where it is
# called: its body replaces the call (parameters bound to the arguments, its locals renamed per call site, its returns
# turned into an assignment of the result and a jump behind the body).  Inlining preserves behaviour, so analysing the
# inlined program is analysing the program; which helpers are inlined only decides how much the anchored rules get to see.
# A call that stands where this cannot be done statement-wise (inside a loop condition, in the middle of an expression with
# other effects, recursive helpers, helpers whose address is taken) is left alone and the helper stays in the unit.

_SIMPLE_ARG = ('ref', 'int', 'char', 'float', 'str', 'sizeof')


def _simple_arg(e):
    e0 = strip_casts(e)
    k = e0.get('k')
    if k in _SIMPLE_ARG or const_val(e0) is not None:
        return True
    if k == 'un' and e0.get('op') in ('&', '*', '-', '!', '~'):
        return _simple_arg(e0['e'])
    if k == 'mem':
        return _simple_arg(e0['b'])
    if k == 'idx':
        return _simple_arg(e0['b']) and _simple_arg(e0['i'])
    if k == 'bin' and e0.get('op') in ('+', '-', '*', '==', '!=', '<', '>', '<=', '>=', '&', '|'):
        return _simple_arg(e0['l']) and _simple_arg(e0['r'])
    return False


class _Inliner(object):
    def __init__(self, u, known, max_nodes=400, max_sites=8):
        self.u = u
        self.known = set(known)
        self.max_nodes = max_nodes
        self.max_sites = max_sites
        mx = 0
        md = 0
        for f in u.function_list:
            if f.body is None:
                continue
            for x in walk_all(f.raw):
                if isinstance(x.get('id'), int):
                    mx = max(mx, x['id'])
                if isinstance(x.get('d'), int):
                    md = max(md, x['d'])
        for g in u.globals:
            if isinstance(g.get('d'), int):
                md = max(md, g['d'])
        self.next_id = mx + 1000000
        self.next_d = md + 1000000
        self.nlabel = 0
        self.done = {}

    def fresh_id(self):
        self.next_id += 1
        return self.next_id

    def fresh_d(self):
        self.next_d += 1
        return self.next_d

    # -- which helpers -----------------------------------------------------------------------------------------------
    def candidates(self, fns):
        taken = set()
        ncalls = {}
        for f in fns.values():
            if f.body is None:
                continue
            callee_ids = set()
            for c in f.calls():
                cn = callee_name(c)
                if cn in fns:
                    ncalls[cn] = ncalls.get(cn, 0) + 1
                    callee_ids.add(strip_casts(c['fn']).get('id'))
            for x in f.nodes():
                if x.get('k') == 'ref' and x.get('dk') == 'fn' and x.get('id') not in callee_ids:
                    taken.add(x.get('n'))
        for g in self.u.globals:
            if 'init' in g:
                for x in walk(g['init']):
                    if x.get('k') == 'ref' and x.get('dk') == 'fn':
                        taken.add(x.get('n'))
        out = {}
        for name, h in fns.items():
            if name in self.known or not h.static or h.body is None or name in taken or not ncalls.get(name):
                continue
            if any(callee_name(c) == name for c in h.calls()):
                continue
            if len(h.nodes()) > self.max_nodes or (ncalls[name] > self.max_sites and _expression_body(h) is None):
                continue
            if any(x.get('k') in ('unknownstmt', 'stmtexpr') for x in walk_all(h.body)):
                continue
            if any(d.get('static') for d in h.locals()):
                continue
            out[name] = h
        return out

    # -- one call ----------------------------------------------------------------------------------------------------
    def instantiate(self, H, call, target, mode, loc):
        """statements that stand for `target = H(args)` (target may be None; mode 'return': H's returns become returns)"""
        args = call.get('args', [])
        if len(args) != len(H.params):
            return None
        written = set()
        for x in H.nodes():
            if x.get('k') == 'bin' and x.get('op') in ASSIGN_OPS and strip_casts(x['l']).get('k') == 'ref':
                written.add(strip_casts(x['l']).get('d'))
            if x.get('k') == 'un' and x.get('op') in ('&', 'pre++', 'pre--', 'post++', 'post--') and strip_casts(x['e']).get('k') == 'ref':
                written.add(strip_casts(x['e']).get('d'))
        sub = {}
        pre = []
        for p, a in zip(H.params, args):
            if p['d'] not in written and _simple_arg(a) and _side_effect_free(a):
                sub[p['d']] = strip_casts(a)
            else:
                nd = self.fresh_d()
                decl = {'k': 'decl', 'id': self.fresh_id(), 'loc': loc,
                        'decls': [{'d': nd, 'n': p['n'], 'ty': p['ty'], 'loc': loc, 'static': False, 'init': copy.deepcopy(a)}]}
                for x in walk_all(decl['decls'][0]['init']):
                    if 'id' in x:
                        x['id'] = self.fresh_id()
                pre.append(decl)
                sub[p['d']] = {'k': 'ref', 'd': nd, 'dk': 'local', 'n': p['n'], 'ty': p['ty'], 'id': 0, 'loc': loc}
        # rename the helper's locals (a name the caller uses as well gets a suffix: many rules identify variables by name)
        ren = {}
        rename = {}
        self.nlabel += 1
        taken = getattr(self, 'caller_names', set())
        for d in H.locals():
            ren[d['d']] = self.fresh_d()
            if d['n'] in taken:
                rename[d['d']] = '%s__%s%d' % (d['n'], H.name, self.nlabel)
        for dd in pre:
            d0 = dd['decls'][0]
            if d0['n'] in taken:
                nn = '%s__%s%d' % (d0['n'], H.name, self.nlabel)
                for pd_, sv in sub.items():
                    if sv.get('d') == d0['d'] and sv.get('k') == 'ref':
                        sv['n'] = nn
                d0['n'] = nn
        end_label = '__inl%d_%s_end' % (self.nlabel, H.name)
        se = _single_exit(H)
        used_goto = [False]

        def conv(node, top=False):
            if isinstance(node, list):
                return [conv(x) for x in node]
            if not isinstance(node, dict):
                return node
            k = node.get('k')
            if k == 'ref' and node.get('d') in sub:
                arg = copy.deepcopy(sub[node['d']])
                for x in walk_all(arg):
                    if 'id' in x:
                        x['id'] = self.fresh_id()
                return arg
            if k == 'return':
                stmts = []
                if mode == 'return':
                    out = {kk: conv(v) for kk, v in node.items()}
                    out['id'] = self.fresh_id()
                    return out
                if 'e' in node and target is not None:
                    stmts.append(self.assign(target, conv(node['e']), loc))
                elif 'e' in node and not _side_effect_free(node['e']):
                    stmts.append(conv(node['e']))
                if not (se is not None and top):
                    used_goto[0] = True
                    stmts.append({'k': 'goto', 'label': end_label, 'id': self.fresh_id(), 'loc': node.get('loc', loc)})
                return {'k': 'compound', 'body': stmts, 'id': self.fresh_id(), 'loc': node.get('loc', loc)}
            out = {}
            for kk, v in node.items():
                out[kk] = conv(v)
            if 'id' in out:
                out['id'] = self.fresh_id()
            if k == 'ref' and out.get('d') in ren:
                if out['d'] in rename:
                    out['n'] = rename[out['d']]
                out['d'] = ren[out['d']]
            if 'decls' in out and k == 'decl':
                for d in out['decls']:
                    if d.get('d') in ren:
                        if d['d'] in rename:
                            d['n'] = rename[d['d']]
                        d['d'] = ren[d['d']]
            if k in ('label', 'goto') and 'label' in out:
                out['label'] = '__inl%d_%s' % (self.nlabel, out['label'])
            if k == 'mem' and out.get('arrow'):
                b = strip_casts(out['b'])
                if b.get('k') == 'un' and b.get('op') == '&':
                    out['b'] = b['e']
                    out['arrow'] = False
            if k == 'un' and out.get('op') == '*':
                b = strip_casts(out['e'])
                if b.get('k') == 'un' and b.get('op') == '&':
                    return b['e']
            if k == 'call' and not out.get('callee'):
                # a call through a function-pointer parameter for which this call site names the function: a direct call
                f_ = strip_casts(out['fn'])
                while f_.get('k') == 'un' and f_.get('op') in ('*', '&'):
                    f_ = strip_casts(f_['e'])
                if f_.get('k') == 'ref' and f_.get('dk') == 'fn':
                    out['callee'] = f_['n']
            return out
        body_in = list(H.body.get('body', []))
        body = []
        for i, s in enumerate(body_in):
            last = (i == len(body_in) - 1)
            body.append(conv(s, top=last))
        if used_goto[0]:
            body.append({'k': 'label', 'label': end_label, 'id': self.fresh_id(), 'loc': loc,
                         'sub': {'k': 'null', 'id': self.fresh_id(), 'loc': loc}})
        return pre + [{'k': 'compound', 'body': body, 'id': self.fresh_id(), 'loc': loc, 'inlined': H.name}]

    def assign(self, target, value, loc):
        t = copy.deepcopy(target)
        for x in walk_all(t):
            if 'id' in x:
                x['id'] = self.fresh_id()
        return {'k': 'bin', 'op': '=', 'l': t, 'r': value, 'id': self.fresh_id(), 'loc': loc, 'ty': strip_casts(target).get('ty')}

    # -- statements that contain a call --------------------------------------------------------------------------------
    def expand(self, stmt, cands):
        """replacement statement list for stmt, or None"""
        k = stmt.get('k')
        loc = stmt.get('loc', [0, 0])

        def helper_call(e):
            e0 = strip_casts(e)
            # (one argument may have effects - f(a, &tail, cJSON_CreateNumber(x)): it is bound to a local first, the others do not care)
            if e0.get('k') == 'call' and callee_name(e0) in cands and \
                    sum(1 for a in e0.get('args', []) if not _side_effect_free(a)) <= 1:
                return e0
            return None
        if k == 'return' and 'e' in stmt:
            c = helper_call(stmt['e'])
            if c is not None:
                H = cands[callee_name(c)]
                return self.note(H, self.instantiate(H, c, None, 'return', loc))
            return None
        if k == 'decl' and len(stmt.get('decls', [])) == 1 and 'init' in stmt['decls'][0]:
            d = stmt['decls'][0]
            c = helper_call(d['init'])
            if c is not None and not d.get('static'):
                H = cands[callee_name(c)]
                d2 = {kk: v for kk, v in d.items() if kk != 'init'}
                decl = {'k': 'decl', 'id': self.fresh_id(), 'loc': loc, 'decls': [d2]}
                target = {'k': 'ref', 'd': d['d'], 'dk': 'local', 'n': d['n'], 'ty': d['ty'], 'id': 0, 'loc': loc}
                inl = self.instantiate(H, c, target, 'value', loc)
                return self.note(H, None if inl is None else [decl] + inl)
            return None
        if k == 'do' and self.has_own_continue(stmt.get('body')):
            return None
        if k in ('if', 'do', 'while'):
            # if (h(..)) / if (!h(..)) / if (h(..) == c): the call is evaluated exactly once, first;
            # do { .. } while (h(..)): the call is evaluated once per iteration, after the body (no `continue` in the body)
            cond = stmt['c']
            e = strip_casts(cond)
            neg = 0
            inner = e
            while inner.get('k') == 'un' and inner.get('op') == '!':
                inner = strip_casts(inner['e'])
            call = None
            if inner.get('k') == 'bin' and inner.get('op') in ('==', '!=', '<', '>', '<=', '>='):
                if helper_call(inner['l']) is not None and const_val(inner['r']) is not None or \
                        (helper_call(inner['l']) is not None and strip_casts(inner['r']).get('null')):
                    call = helper_call(inner['l'])
                elif helper_call(inner['r']) is not None and (const_val(inner['l']) is not None or strip_casts(inner['l']).get('null')):
                    call = helper_call(inner['r'])
            else:
                call = helper_call(inner)
            if call is None:
                return None
            H = cands[callee_name(call)]
            nd = self.fresh_d()
            tname = '__%s_result%d' % (H.name, self.nlabel + 1)
            tdecl = {'k': 'decl', 'id': self.fresh_id(), 'loc': loc,
                     'decls': [{'d': nd, 'n': tname, 'ty': H.ret, 'loc': loc, 'static': False}]}
            tref = {'k': 'ref', 'd': nd, 'dk': 'local', 'n': tname, 'ty': H.ret, 'id': 0, 'loc': loc}
            inl = self.instantiate(H, call, tref, 'value', loc)
            if inl is None:
                return None

            def swap(node):
                if isinstance(node, list):
                    return [swap(x) for x in node]
                if not isinstance(node, dict):
                    return node
                if node is call:
                    r = dict(tref)
                    r['id'] = self.fresh_id()
                    return r
                return {kk: swap(v) for kk, v in node.items()}
            new_if = dict(stmt)
            new_if['c'] = swap(cond)
            if k == 'do':
                new_if['body'] = {'k': 'compound', 'body': [stmt['body']] + inl, 'id': self.fresh_id(), 'loc': loc}
                return self.note(H, [tdecl, new_if])
            if k == 'while':
                # while (c) body  ==  for (;;) { if (!c) break; body }   (continue re-evaluates c in both forms)
                neg = {'k': 'un', 'op': '!', 'e': swap(cond), 'id': self.fresh_id(), 'loc': loc, 'ty': strip_casts(cond).get('ty')}
                brk = {'k': 'if', 'c': neg, 't': {'k': 'break', 'id': self.fresh_id(), 'loc': loc}, 'id': self.fresh_id(), 'loc': loc}
                loop = {'k': 'for', 'id': self.fresh_id(), 'loc': loc,
                        'body': {'k': 'compound', 'body': inl + [brk, stmt['body']], 'id': self.fresh_id(), 'loc': loc}}
                return self.note(H, [tdecl, loop])
            return self.note(H, [tdecl] + inl + [new_if])
        # expression statement
        e = stmt
        if e.get('k') == 'cast':
            e = strip_casts(e)
        if e.get('k') == 'call':
            c = helper_call(e)
            if c is not None:
                H = cands[callee_name(c)]
                return self.note(H, self.instantiate(H, c, None, 'value', loc))
        if e.get('k') == 'bin' and e.get('op') == '=' and _side_effect_free(e['l']):
            c = helper_call(e['r'])
            if c is not None:
                H = cands[callee_name(c)]
                return self.note(H, self.instantiate(H, c, e['l'], 'value', loc))
        return None

    def has_own_continue(self, body):
        stack = [body]
        while stack:
            x = stack.pop()
            if isinstance(x, dict):
                if x.get('k') == 'continue':
                    return True
                if x.get('k') in ('while', 'do', 'for'):
                    continue
                stack.extend(v for v in x.values() if isinstance(v, (dict, list)))
            elif isinstance(x, list):
                stack.extend(x)
        return False

    def note(self, H, res):
        if res is not None:
            self.done[H.name] = self.done.get(H.name, 0) + 1
        return res


_PURE_LIBC = {'strncmp', 'memcmp', 'strcmp', 'strlen', 'tolower', 'toupper', 'isdigit', 'isspace'}


def _expression_body(H):
    """E when H's body is `return E;`, possibly after guards `if (G) return <constant>;`, everything free of side effects (calls
    of pure libc functions allowed): the value is  !G1 && !G2 && E  (guards returning 0) /  G || ..  (guards returning non-zero)"""
    b = H.body
    if b is None or b.get('k') != 'compound' or not b.get('body'):
        return None
    stmts = b['body']
    last = stmts[-1]
    if last.get('k') != 'return' or 'e' not in last:
        return None

    def pure(e):
        for x in walk(e):
            k = x.get('k')
            if (k == 'bin' and x.get('op') in ASSIGN_OPS) or (k == 'un' and x.get('op') in ('pre++', 'pre--', 'post++', 'post--')) or \
                    k in ('stmtexpr', 'unknown'):
                return False
            if k == 'call' and callee_name(x) not in _PURE_LIBC:
                return False
        return True
    if not pure(last['e']):
        return None
    guards = []
    for st in stmts[:-1]:
        if st.get('k') != 'if' or 'e' in st:
            return None
        t = st['t']
        if t.get('k') == 'compound' and len(t.get('body', [])) == 1:
            t = t['body'][0]
        if t.get('k') != 'return' or 'e' not in t or const_val(t['e']) is None or not pure(st['c']):
            return None
        guards.append((st['c'], const_val(t['e'])))
    res = last['e']
    ty = strip_casts(res).get('ty')
    for (g, c) in reversed(guards):
        if c == 0:
            res = {'k': 'bin', 'op': '&&', 'l': {'k': 'un', 'op': '!', 'e': g, 'id': 0, 'loc': g.get('loc', [0, 0]), 'ty': ty},
                   'r': res, 'id': 0, 'loc': g.get('loc', [0, 0]), 'ty': ty}
        elif c == 1:
            res = {'k': 'bin', 'op': '||', 'l': g, 'r': res, 'id': 0, 'loc': g.get('loc', [0, 0]), 'ty': ty}
        else:
            return None
    return res


def inline_new_helpers(u, known):
    """view of u with the static helpers that are not in `known` inlined where they are called (see above); u if none"""
    inl = _Inliner(u, known)
    cur = u
    total = {}
    for _round in range(4):
        fns = cur.functions
        cands = inl.candidates(fns)
        if not cands:
            break
        inl.done = {}
        new_raw = {}
        # predicates whose body is one side-effect-free expression are substituted wherever they are called (like the macros
        # can_read / can_access_at_index they usually replace), also inside && / || and loop conditions
        exprs = {n: _expression_body(h) for n, h in cands.items()}
        exprs = {n: e for n, e in exprs.items() if e is not None}
        if exprs:
            def sub_calls(node, fname):
                if isinstance(node, list):
                    return [sub_calls(x, fname) for x in node]
                if not isinstance(node, dict):
                    return node
                if node.get('k') == 'call' and callee_name(node) in exprs and callee_name(node) != fname and \
                        len(node.get('args', [])) == len(cands[callee_name(node)].params) and \
                        all(_side_effect_free(a) for a in node['args']):
                    H = cands[callee_name(node)]
                    args = [sub_calls(a, fname) for a in node['args']]
                    sub = {p_['d']: strip_casts(a_) for p_, a_ in zip(H.params, args)}
                    fresh = [inl.next_id]
                    out = _subst_inline(exprs[H.name], sub, fresh)
                    inl.next_id = fresh[0] + 1
                    inl.done[H.name] = inl.done.get(H.name, 0) + 1
                    if 'ty' in node and isinstance(out, dict):
                        out = dict(out)
                    return out
                return {k: sub_calls(v, fname) for k, v in node.items()}
            for f in cur.function_list:
                if f.body is None or not any(callee_name(c) in exprs for c in f.calls()):
                    continue
                before = dict(inl.done)
                body = sub_calls(f.body, f.name)
                if inl.done != before:
                    raw = dict(f.raw)
                    raw['body'] = body
                    raw['inlined'] = sorted(set(f.raw.get('inlined', [])) | {n for n in inl.done if inl.done[n] != before.get(n, 0)})
                    new_raw[f.name] = raw
            if new_raw:
                for n_, c_ in inl.done.items():
                    total[n_] = total.get(n_, 0) + c_
                view = copy.copy(cur)
                for attr in [a_ for a_ in vars(view) if a_.startswith('_')]:
                    delattr(view, attr)
                view.functions = {}
                view.function_list = []
                for f in cur.function_list:
                    nf = Function(view, new_raw[f.name]) if f.name in new_raw else f
                    view.functions[nf.name] = nf
                    view.function_list.append(nf)
                still = set()
                for f in view.function_list:
                    if f.body is not None:
                        for c in f.calls():
                            still.add(callee_name(c))
                gone = [n for n in exprs if n not in still]
                if gone:
                    view.function_list = [f for f in view.function_list if f.name not in gone]
                    view.functions = {f.name: f for f in view.function_list}
                view.by_decl = {fn.d: fn for fn in view.function_list}
                view.inlined_helpers = dict(total)
                cur = view
                continue        # next round: statement-level inlining sees the substituted program
        for f in cur.function_list:
            if f.body is None or not any(callee_name(c) in cands for c in f.calls()):
                continue
            # a compound's statement list is a statement position; mark each list as it is entered
            def rw(node):
                if isinstance(node, dict):
                    out = {}
                    for k, v in node.items():
                        if isinstance(v, list) and k == 'body' and node.get('k') == 'compound':
                            lst = []
                            for s in v:
                                rep = inl.expand(s, cands) if isinstance(s, dict) else None
                                if rep is not None:
                                    lst.extend(rep)        # (calls inside the inlined body are picked up by the next round)
                                else:
                                    lst.append(rw(s))
                            out[k] = lst
                        elif isinstance(v, dict) and ((k in ('t', 'e') and node.get('k') == 'if') or
                                                      (k == 'body' and node.get('k') in ('while', 'do', 'for', 'switch')) or
                                                      (k == 'sub' and node.get('k') in ('label', 'case', 'default'))):
                            rep = inl.expand(v, cands)
                            if rep is not None:
                                out[k] = {'k': 'compound', 'body': rep, 'id': inl.fresh_id(), 'loc': v.get('loc', [0, 0])}
                            else:
                                out[k] = rw(v)
                        else:
                            out[k] = rw(v)
                    return out
                if isinstance(node, list):
                    return [rw(x) for x in node]
                return node
            before = dict(inl.done)
            inl.caller_names = {p_['n'] for p_ in f.params} | {d_['n'] for d_ in f.locals()}
            body = rw(f.body)
            if inl.done != before:
                raw = dict(f.raw)
                raw['body'] = body
                raw['inlined'] = sorted(set(f.raw.get('inlined', [])) | {n for n in inl.done if inl.done[n] != before.get(n, 0)})
                new_raw[f.name] = raw
        if not new_raw:
            break
        for n_, c_ in inl.done.items():
            total[n_] = total.get(n_, 0) + c_
        view = copy.copy(cur)
        for attr in [a for a in vars(view) if a.startswith('_')]:
            delattr(view, attr)
        view.functions = {}
        view.function_list = []
        for f in cur.function_list:
            nf = Function(view, new_raw[f.name]) if f.name in new_raw else f
            view.functions[nf.name] = nf
            view.function_list.append(nf)
        # helpers without a remaining call disappear
        still = set()
        for f in view.function_list:
            if f.body is None:
                continue
            for c in f.calls():
                still.add(callee_name(c))
        gone = [n for n in cands if n not in still]
        if gone:
            view.function_list = [f for f in view.function_list if f.name not in gone]
            view.functions = {f.name: f for f in view.function_list}
        view.by_decl = {fn.d: fn for fn in view.function_list}
        view.inlined_helpers = dict(total)
        cur = view
    return cur


_inl_cache = {}


def inlined(units):
    """units with the helpers the pinned tree does not have inlined where they are called; the rules that look at one function
    at a time (append idiom, literal triples, comma loops, path buffers, ...) ask for this view, the engines that follow calls
    themselves (ownership, bounds, effects) keep the program as written"""
    from .extract import known_functions
    out = {}
    changed = False
    for name, u in units.items():
        key = id(u)
        if key not in _inl_cache:
            _inl_cache[key] = (u, inline_new_helpers(u, known_functions().get(name, ())))
        out[name] = _inl_cache[key][1]
        changed = changed or out[name] is not u
    return out if changed else units


def as_written(unit):
    """the unit a view produced by inlined() was made from (the unit itself when it is no such view)"""
    for (orig, view) in _inl_cache.values():
        if view is unit:
            return orig
    return unit


# ---- anchors that moved: delegation and renaming ----------------------------------------------------------------------

def fold_delegations(u, unit_name):
    """view of u in which
      - a function of the pinned tree whose body has become `return g(<its parameters in order>[, constants]);` for a static g
        the pinned tree does not have, called by nothing else (but itself), *is* g: g's body and parameters under the anchor's
        name, self-calls renamed (cJSON_Compare -> compare_items(a, b, cs, 0));
      - a function of the pinned tree that is gone, while exactly one function the pinned tree does not have is called by
        (some of) the anchor's former callers and by nobody else but itself, is that function under its old name
        (cJSON_Duplicate_rec -> static duplicate_item).
    Renaming changes no behaviour; the rules find their anchors again.  u itself when nothing applies."""
    from .extract import known_functions
    import json as _json
    import os as _os
    known = set(known_functions().get(unit_name, ()))
    if not known:
        return u
    try:
        with open(_os.path.join(_os.path.dirname(_os.path.abspath(__file__)), 'known_callers.json')) as fh:
            kcallers = _json.load(fh).get(unit_name, {})
    except (IOError, OSError):
        kcallers = {}
    callers = {}
    for f in u.function_list:
        if f.body is None:
            continue
        for c in f.calls():
            cn = callee_name(c)
            if cn in u.functions:
                callers.setdefault(cn, set()).add(f.name)
    rename = {}      # new name -> anchor name
    drop = set()
    folded_args = {}  # anchor name -> the constants its wrapper passed behind its own parameters
    for F in u.function_list:
        if F.name not in known or F.body is None:
            continue
        c = _thin_call(F)
        if c is None:
            continue
        g = u.functions.get(callee_name(c))
        if g is None or g.name in known or not g.static or g.body is None or len(c['args']) < len(F.params):
            continue
        if callers.get(g.name, set()) - {g.name} != {F.name}:
            continue
        inorder = all(strip_casts(a).get('k') == 'ref' and strip_casts(a).get('d') == p['d'] for p, a in zip(F.params, c['args']))
        rest_const = all(_is_constant(a) for a in c['args'][len(F.params):])
        if inorder and rest_const:
            rename[g.name] = F.name
            drop.add(F.name)
            folded_args[F.name] = list(c['args'][len(F.params):])
    for name in sorted(known - set(u.functions)):
        former = set(kcallers.get(name, ())) - {name}
        cands = []
        for g in u.function_list:
            if g.name in known or g.body is None or g.name in rename:
                continue
            cs = callers.get(g.name, set()) - {g.name}
            if cs and cs <= (former | {n for n in rename}) and (cs & former):
                cands.append(g)
        if cands:
            # the anchor under a new name keeps the anchor's return type and leading parameter type (several new functions under
            # the same callers: the one that does; a single one that does not is something else that the callers now use)
            try:
                with open(_os.path.join(_os.path.dirname(_os.path.abspath(__file__)), 'known_signatures.json')) as fh:
                    sig = _json.load(fh).get(unit_name, {}).get(name)
            except (IOError, OSError):
                sig = None
            if sig is not None:
                def matches(g):
                    ps = [u.ty(p['ty'])['s'] for p in g.params]
                    return u.ty(g.ret)['s'] == sig['ret'] and ps and ps[0] == (sig['params'] or [None])[0]
                cands = [g for g in cands if matches(g)]
        if len(cands) == 1:
            rename[cands[0].name] = name
    if not rename:
        return u

    def ren(node):
        if isinstance(node, list):
            return [ren(x) for x in node]
        if not isinstance(node, dict):
            return node
        out = {k: ren(v) for k, v in node.items()}
        if out.get('k') == 'call' and out.get('callee') in rename:
            out['callee'] = rename[out['callee']]
        if out.get('k') == 'ref' and out.get('dk') == 'fn' and out.get('n') in rename:
            out['n'] = rename[out['n']]
        return out
    view = copy.copy(u)
    for attr in [a for a in vars(view) if a.startswith('_')]:
        delattr(view, attr)
    view.functions = {}
    view.function_list = []
    for f in u.function_list:
        if f.name in drop:
            continue
        if f.body is not None and (f.name in rename or any(callee_name(c) in rename for c in f.calls())):
            raw = dict(f.raw)
            raw['body'] = ren(f.body)
            if f.name in rename:
                raw['name'] = rename[f.name]
                raw['renamed_from'] = f.name
                if rename[f.name] in drop:
                    # the anchor was public: the folded function is what the outside calls
                    old = u.functions[rename[f.name]]
                    raw['static'] = old.raw['static']
                    raw['external'] = old.raw['external']
                    raw['in_header'] = old.raw.get('in_header', False)
            nf = Function(view, raw)
        else:
            nf = f
        view.functions[nf.name] = nf
        view.function_list.append(nf)
    view.by_decl = {fn.d: fn for fn in view.function_list}
    view.renamed = dict(rename)
    view.folded_args = folded_args
    return view
