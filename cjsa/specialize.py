"""Specialisation of static helpers whose every call site is a thin wrapper.

    static void skip_comment(char **input, const char *terminator, size_t length) { ... }
    static void skip_oneline_comment(char **input)   { skip_comment(input, "\\n", 1); }
    static void skip_multiline_comment(char **input) { skip_comment(input, "*/", 2); }

The helper alone says nothing about which terminator it looks for; each wrapper is the helper with constants for some
parameters.  `specialize(units, unit, roots)` returns a view of the unit in which every such wrapper reachable from
`roots` carries the helper's body with the parameters replaced by the wrapper's arguments, and the helper itself is gone
(a static function with no remaining caller).  The rules that decide what a scanner recognises then see the constants
where the helper has parameters.  This is the compiler's own inlining of a static function into its only callers: no
behaviour is added or dropped.

A function W is a thin wrapper of H when its body is the single statement `H(args);` or `return H(args);`, every
argument is one of W's own parameters or a constant expression (literal, sizeof, arithmetic on those), H is static, is
not recursive, is never referenced except as the callee of such wrappers, and never assigns to a parameter that receives
a constant.
"""
import copy

from .facts import Function, walk, strip_casts, const_val, callee_name, ASSIGN_OPS


def _is_constant(e):
    e = strip_casts(e)
    k = e.get('k')
    if k in ('str', 'int', 'char', 'float', 'sizeof'):
        return True
    if const_val(e) is not None:
        return True
    if k == 'bin' and e.get('op') in ('+', '-', '*'):
        return _is_constant(e['l']) and _is_constant(e['r'])
    return False


def _thin_call(W):
    """the call H(args) when W's body is exactly that call (as a statement or returned), else None"""
    b = W.body
    if b is None or b.get('k') != 'compound' or len(b.get('body', [])) != 1:
        return None
    s = b['body'][0]
    if s.get('k') == 'return' and 'e' in s:
        s = strip_casts(s['e'])
    s = strip_casts(s)
    if s.get('k') != 'call' or callee_name(s) is None:
        return None
    pars = {p['d'] for p in W.params}
    for a in s.get('args', []):
        a0 = strip_casts(a)
        if a0.get('k') == 'ref' and a0.get('d') in pars:
            continue
        if _is_constant(a):
            continue
        return None
    return s


def _subst(node, sub, fresh):
    """deep copy of an AST fragment with references to the declarations in `sub` replaced by (re-numbered) copies of the
    argument expressions"""
    if isinstance(node, list):
        return [_subst(x, sub, fresh) for x in node]
    if not isinstance(node, dict):
        return node
    if node.get('k') == 'ref' and node.get('d') in sub:
        arg = copy.deepcopy(sub[node['d']])
        for x in walk(arg):
            fresh[0] += 1
            x['id'] = fresh[0]
        if 'loc' in node:
            arg['loc'] = node['loc']
        return arg
    return {k: _subst(v, sub, fresh) for k, v in node.items()}


def specialize_unit(u, roots):
    """-> (view of u, {wrapper name: helper name}); u itself when nothing applies"""
    done = {}
    cur = u
    for _round in range(3):
        fns = cur.functions
        # functions reachable from the roots
        reach = set()
        work = [r for r in roots if r in fns]
        while work:
            n = work.pop()
            if n in reach:
                continue
            reach.add(n)
            f = fns[n]
            if f.body is None:
                continue
            for c in f.calls():
                if callee_name(c) in fns:
                    work.append(callee_name(c))
        # call sites and other references of every function
        callers = {}
        other_refs = set()
        for f in cur.function_list:
            if f.body is None:
                continue
            callee_ids = set()
            for c in f.calls():
                cn = callee_name(c)
                if cn in fns:
                    callers.setdefault(cn, []).append((f, c))
                    callee_ids.add(strip_casts(c['fn']).get('id'))
            for x in f.nodes():
                if x.get('k') == 'ref' and x.get('dk') == 'fn' and x.get('id') not in callee_ids and x.get('n') in fns:
                    other_refs.add(x['n'])
        for g in cur.globals:
            if 'init' in g:
                for x in walk(g['init']):
                    if x.get('k') == 'ref' and x.get('dk') == 'fn':
                        other_refs.add(x.get('n'))
        plan = {}
        for hname in sorted(reach):
            H = fns[hname]
            if hname in roots or not H.static or H.body is None or hname in other_refs or hname not in callers:
                continue
            if any(callee_name(c) == hname for c in H.calls()):
                continue
            sites = callers[hname]
            ok = True
            for (W, c) in sites:
                tc = _thin_call(W)
                if tc is None or tc is not c or len(c.get('args', [])) != len(H.params) or W.name in plan:
                    ok = False
                    break
            if not ok or not any(_is_constant(a) for (_W, c) in sites for a in c['args']):
                continue
            # the helper never assigns to (or takes the address of) a parameter that receives a constant
            const_params = set()
            for (_W, c) in sites:
                for p, a in zip(H.params, c['args']):
                    if _is_constant(a):
                        const_params.add(p['d'])
            for x in H.nodes():
                if x.get('k') == 'bin' and x.get('op') in ASSIGN_OPS:
                    l = strip_casts(x['l'])
                    if l.get('k') == 'ref' and l.get('d') in const_params:
                        ok = False
                if x.get('k') == 'un' and x.get('op') in ('&', 'pre++', 'pre--', 'post++', 'post--'):
                    e = strip_casts(x['e'])
                    if e.get('k') == 'ref' and e.get('d') in const_params:
                        ok = False
            if not ok:
                continue
            for (W, c) in sites:
                plan[W.name] = (H, c)
        if not plan:
            break
        view = copy.copy(cur)
        for attr in [a for a in vars(view) if a.startswith('_')]:
            delattr(view, attr)       # analysis caches of the original unit
        view.functions = {}
        view.function_list = []
        gone = {H.name for (H, _c) in plan.values()}
        for f in cur.function_list:
            if f.name in gone:
                continue
            if f.name in plan:
                H, c = plan[f.name]
                sub = {p['d']: strip_casts(a) for p, a in zip(H.params, c['args'])}
                fresh = [max([x.get('id', 0) for x in H.nodes()] + [0])]
                raw = dict(f.raw)
                raw['body'] = _subst(H.body, sub, fresh)
                raw['specialized_from'] = H.name
                nf = Function(view, raw)
                view.functions[nf.name] = nf
                view.function_list.append(nf)
                done[f.name] = H.name
            else:
                view.functions[f.name] = f
                view.function_list.append(f)
        view.by_decl = {fn.d: fn for fn in view.function_list}
        cur = view
    return cur, done


_cache = {}


def specialize(units, unit_name, roots):
    """units dict with `unit_name` replaced by its specialised view (the same dict when nothing applies)"""
    u = units.get(unit_name)
    if u is None:
        return units
    key = (id(u), tuple(roots))
    if key not in _cache:
        _cache[key] = (u, specialize_unit(u, tuple(roots)))     # keep u alive so that id(u) stays unique
    view, done = _cache[key][1]
    if not done:
        return units
    out = dict(units)
    out[unit_name] = view
    return out
