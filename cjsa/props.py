"""Property assembly: which rules decide which property (DESIGN.md section 4)."""
import json
import os
import time

from . import extract, report
from .facts import AnalysisBroken
from .report import Results

VERIF = os.path.dirname(os.path.dirname(os.path.abspath(__file__)))

TRUSTED = [
    "clang-14 parser/Sema (type-checked AST, constant folding) via engine/cjsa_export.cc",
    "cjsa Python rules and CFG builder (exercised on every run by fixtures/: each rule must fire on its bad_* "
    "function and stay silent on its good_* twin)",
    "libc contracts: the classified libc functions read/write only what ISO C says and allocate nothing on the "
    "caller's behalf",
]
ASSUME_COMMON = [
    "only the two library units cJSON.c and cJSON_Utils.c (with cJSON.h, cJSON_Utils.h) are the library; tests/ and "
    "fuzzing/ are not analysed",
    "configurations analysed: see coverage.notes (quick: CMake default defines; thorough: also Makefile defines and "
    "two nesting-limit variants)",
]


class Ctx:
    def __init__(self, tier):
        self.tier = tier

    def configs(self):
        if self.tier == 'thorough':
            return ['cmake', 'make', 'limit1', 'limitbig']
        return ['cmake']

    def units(self, config='cmake'):
        return extract.load_units(config)

    def ir(self, config='cmake'):
        return extract.load_ir(config)


def _run_rule(rule, units, r):
    try:
        rule(units, r)
    except AnalysisBroken as e:
        r.broken.append(str(e))


def _complains(r):
    return any(not o.ok for o in r.obs) or bool(r.broken) or any(c < f for (_r, _w, c, f) in r.floors)


def _guarded(rule, units, r):
    """Run one rule; a rule that no longer understands the code it is looking at is recorded (exit 2 at the end unless
    another rule reports a violation) instead of hiding what the other rules of the property have to say.

    Two equivalent representations of the program are available: the units as written, and the view in which static helpers
    the pinned tree does not have are inlined where they are called (cjsa/specialize.py).  A rule that cannot discharge its
    obligations on the program as written is given the inlined view as well; if it discharges everything there, that is the
    verdict - being unable to discharge on one representation of the same program is incompleteness, not a violation."""
    r1 = Results(config=r.config)
    _run_rule(rule, units, r1)
    if _complains(r1) and not getattr(rule, 'single_view', False):
        from .specialize import inlined
        iu = inlined(units)
        if iu is not units:
            r2 = Results(config=r.config)
            _run_rule(rule, iu, r2)
            if not _complains(r2):
                r2.note('%s: discharged on the view with the helpers %s inlined into their callers' % (
                    getattr(rule, '__name__', 'rule'),
                    sorted(set(h for u_ in iu.values() for h in getattr(u_, 'inlined_helpers', {})))))
                r1 = r2
    r.extend(r1)


def _per_config(ctx, R, fn, configs=None):
    for cfg in (configs or ctx.configs()):
        r = Results(config=cfg)
        _guarded(fn, ctx.units(cfg), r)
        R.extend(r)


def _tab3_reads(units, r):
    """TAB3 without the exhaustiveness of the two kind switches (print_value: C05, cJSON_Compare: C12)"""
    from .rules import tree
    tree.tab3(units, r, switches=())


def _tab3_print(units, r):
    from .rules import tree
    tree.tab3(units, r, switches=('print_value',))


def _tab3_compare(units, r):
    from .rules import tree
    tree.tab3(units, r, switches=('cJSON_Compare',))


def _tab1_parse(units, r):
    """the parser's recursion (C01, C03); the duplicator's is C11's"""
    from .rules import parse
    parse.tab1(units, r, claim=('parse_value',))


def _tab1_dup(units, r):
    from .rules import parse
    parse.tab1(units, r, claim=('cJSON_Duplicate_rec',))


def _inl(rule):
    """the rule looks at one function at a time: give it the view in which static helpers the pinned tree does not have are
    inlined where they are called (cjsa/specialize.py); the engines that follow calls themselves keep the program as written"""
    from .specialize import inlined

    def run(units, r):
        rule(inlined(units), r)
    run.__name__ = getattr(rule, '__name__', 'rule')
    run.single_view = True
    return run


# ---- property definitions ----------------------------------------------------------------------

def run_C14(ctx, R):
    from .rules import eff
    _per_config(ctx, R, eff.eff1)
    _per_config(ctx, R, eff.eff2)
    _per_config(ctx, R, eff.eff3)
    from .rules import own
    _per_config(ctx, R, _inl(own.own5))
    _per_config(ctx, R, own.dbl1)
    _per_config(ctx, R, _inl(own.own9))
    for cfg in ctx.configs():
        r = Results(config=cfg)
        eff.eff1_ir(ctx.ir(cfg), r)
        R.extend(r)


def run_C20(ctx, R):
    from .rules import eff
    _per_config(ctx, R, eff.eff4)
    _per_config(ctx, R, eff.eff5)
    _per_config(ctx, R, eff.eff2)
    for cfg in ctx.configs():
        r = Results(config=cfg)
        eff.eff4_ir(ctx.ir(cfg), ctx.units(cfg), r)
        R.extend(r)


def _reach(units, entries):
    from .facts import call_graph, qname
    allu = list(units.values())
    g = call_graph(allu)
    seen = set()
    work = []
    for u in allu:
        for fn in u.function_list:
            if fn.name in entries:
                k = qname(u, fn)
                seen.add(k)
                work.append(k)
    missing = [e for e in entries if not any(e in u.functions for u in allu)]
    if missing:
        raise AnalysisBroken('entry point(s) %s not found' % missing)
    while work:
        x = work.pop()
        for y in g.get(x, ()):
            if y not in seen:
                seen.add(y)
                work.append(y)
    return {k.split('::')[-1] for k in seen}


def _scoped(ctx, R, rule, entries, min_obs, configs=None):
    """Run rule on each configuration, keep the obligations that concern functions reachable from the
    property's entry points; the floor is on the number kept."""
    for cfg in (configs or ctx.configs()):
        units = ctx.units(cfg)
        scope = _reach(units, entries)
        r = Results(config=cfg)
        _guarded(rule, units, r)
        kept = [o for o in r.obs if o.function in scope]
        R.obs.extend(kept)
        R.notes.extend(r.notes)
        R.broken.extend(r.broken)
        if r.broken:
            continue
        R.floor(kept[0].rule if kept else rule.__name__.upper(), 'obligations in scope of %s' % sorted(entries)[:3],
                len(kept), min_obs)


C15_ENTRIES = {'cJSONUtils_GetPointerCaseSensitive', 'cJSONUtils_GetPointer', 'cJSONUtils_FindPointerFromObjectTo'}
C16_ENTRIES = {'cJSONUtils_ApplyPatchesCaseSensitive', 'cJSONUtils_ApplyPatches'}
C17_ENTRIES = {'cJSONUtils_GeneratePatchesCaseSensitive', 'cJSONUtils_GeneratePatches', 'cJSONUtils_AddPatchToArray'}
C18_ENTRIES = {'cJSONUtils_MergePatchCaseSensitive', 'cJSONUtils_MergePatch',
               'cJSONUtils_GenerateMergePatchCaseSensitive', 'cJSONUtils_GenerateMergePatch'}
C19_ENTRIES = {'cJSONUtils_SortObjectCaseSensitive', 'cJSONUtils_SortObject'}


def run_C15(ctx, R):
    from .rules import tab, out, utilsx, bnd3
    _scoped(ctx, R, tab.tab8, C15_ENTRIES, 1)
    _per_config(ctx, R, tab.tab9)
    _scoped(ctx, R, tab.tab11, C15_ENTRIES, 3)
    _scoped(ctx, R, out.out5, C15_ENTRIES | {'cJSONUtils_GeneratePatches'}, 3)
    _scoped(ctx, R, _inl(out.out7), C15_ENTRIES, 2)
    _per_config(ctx, R, utilsx.dig1)
    _scoped(ctx, R, utilsx.tab18, C15_ENTRIES, 1)
    _scoped(ctx, R, bnd3.bnd3_pointer, C15_ENTRIES, 30)
    _scoped(ctx, R, utilsx.esc1, C15_ENTRIES, 1)
    _per_config(ctx, R, utilsx.esc3)
    _per_config(ctx, R, utilsx.idx1)
    _per_config(ctx, R, utilsx.fnd1)
    _per_config(ctx, R, _inl(utilsx.ptr1))


def run_C16(ctx, R):
    from .rules import tab, lst, out, utilsx
    _scoped(ctx, R, utilsx.tab18, C16_ENTRIES, 3)
    _per_config(ctx, R, utilsx.esc4)
    _per_config(ctx, R, utilsx.esc5)
    _per_config(ctx, R, utilsx.idx1)
    _per_config(ctx, R, _inl(utilsx.numu))
    from .rules import numcls as _numcls
    _per_config(ctx, R, lambda units, r: _numcls.num4(units, r, unit_names=('cJSON_Utils.c',)))
    _scoped(ctx, R, utilsx.ord1, C16_ENTRIES, 3)
    _per_config(ctx, R, _own_utils({'apply_patch', 'detach_path', 'cJSONUtils_ApplyPatches', 'cJSONUtils_ApplyPatchesCaseSensitive'}))
    _per_config(ctx, R, tab.tab12)
    _per_config(ctx, R, tab.tab10)
    _scoped(ctx, R, tab.tab11, C16_ENTRIES, 25)
    _scoped(ctx, R, tab.tab8, C16_ENTRIES, 1)
    _per_config(ctx, R, tab.tab9)
    _scoped(ctx, R, lst.lst1, C16_ENTRIES, 6)
    _scoped(ctx, R, out.out5, C16_ENTRIES, 3)
    def out6(units, r):
        out.out6(units, r, unit_names=('cJSON_Utils.c',))
    _scoped(ctx, R, out6, C16_ENTRIES, 1)
    _per_config(ctx, R, utilsx.pfx1)
    _per_config(ctx, R, utilsx.own11)
    from .rules import shape
    _per_config(ctx, R, lambda units, r: shape.shp1(units, r, only_unit='cJSON_Utils.c'))
    from .rules import tree
    _scoped(ctx, R, _tab3_reads, C16_ENTRIES, 4)


def _own_utils(names):
    def run(units, r):
        from .rules import own
        own.own_engine(units, r, unit_name='cJSON_Utils.c', alloc_may_fail=False, only=names)
        r.floor('OWN2', 'allocation/detach sites examined in Utils', len([o for o in r.obs if o.rule == 'OWN2']), 3)
    return run


def run_C17(ctx, R):
    from .rules import tab, lst, out, utilsx
    _per_config(ctx, R, lambda units, r: utilsx.inputs_only_relinked(units, r, roots=('create_patches',)))
    _per_config(ctx, R, _inl(utilsx.numu))
    from .rules import numcls as _numcls
    _per_config(ctx, R, lambda units, r: _numcls.num4(units, r, unit_names=('cJSON_Utils.c',)))
    _per_config(ctx, R, _own_utils({'create_patches', 'compose_patch', 'cJSONUtils_GeneratePatches', 'cJSONUtils_GeneratePatchesCaseSensitive'}))
    _scoped(ctx, R, tab.tab20, C17_ENTRIES, 0)
    from .rules import cmpfold
    _per_config(ctx, R, lambda units, r: cmpfold.cmp1(units, r, unit_names=('cJSON_Utils.c',)))
    _scoped(ctx, R, _inl(out.out7), C17_ENTRIES, 3)
    def gen1(units, r):
        # the inlined view is the one judged; the program as written is looked at first for one thing only: a condition that is the
        # status of a helper handed nothing of the documents (inlined, its inner tests would be taken for tests of the generator)
        try:
            utilsx.gen1(units, Results(config=r.config))
        except AnalysisBroken as e:
            if 'is handed nothing of the documents' in str(e):
                raise
        from .specialize import inlined
        utilsx.gen1(inlined(units), r)
    _per_config(ctx, R, gen1)
    _per_config(ctx, R, _inl(utilsx.gen2))
    _per_config(ctx, R, utilsx.esc2)
    _per_config(ctx, R, utilsx.esc4)
    _per_config(ctx, R, utilsx.esc5)
    _per_config(ctx, R, utilsx.ord2)
    _per_config(ctx, R, utilsx.dig1)
    from .rules import tree
    _scoped(ctx, R, _tab3_reads, C17_ENTRIES, 4)
    _scoped(ctx, R, utilsx.esc1, C17_ENTRIES, 1)
    _per_config(ctx, R, tab.tab9)
    _scoped(ctx, R, out.out5, C17_ENTRIES, 3)
    _scoped(ctx, R, lst.lst1, C17_ENTRIES, 1)
    _per_config(ctx, R, lst.lst5)
    _scoped(ctx, R, tab.tab11, C17_ENTRIES, 10)


def run_C18(ctx, R):
    from .rules import tab, lst, utilsx
    _per_config(ctx, R, lambda units, r: utilsx.inputs_only_relinked(units, r, roots=('generate_merge_patch', 'compare_json')))
    _per_config(ctx, R, _own_utils({'merge_patch', 'generate_merge_patch'}))
    _per_config(ctx, R, utilsx.mrg)
    _per_config(ctx, R, _inl(utilsx.numu))
    from .rules import numcls as _numcls
    _per_config(ctx, R, lambda units, r: _numcls.num4(units, r, unit_names=('cJSON_Utils.c',)))
    _scoped(ctx, R, tab.tab20, C18_ENTRIES, 0)
    _scoped(ctx, R, tab.tab11, C18_ENTRIES, 15)
    _scoped(ctx, R, lst.lst1, C18_ENTRIES, 3)
    _per_config(ctx, R, lst.lst5)
    from .rules import tree
    _scoped(ctx, R, _tab3_reads, C18_ENTRIES, 6)
    _per_config(ctx, R, utilsx.mrg5)
    _per_config(ctx, R, _inl(utilsx.mrg6))
    _per_config(ctx, R, utilsx.ord2)


def run_C19(ctx, R):
    from .rules import tab, lst
    _scoped(ctx, R, tab.tab20, C19_ENTRIES | C17_ENTRIES | C18_ENTRIES, 0)
    _per_config(ctx, R, lst.lst1)
    _per_config(ctx, R, lst.lst5)
    from .rules import shape
    _per_config(ctx, R, shape.shp2, configs=['cmake'])     # the sorter has no configuration-dependent code
    from .rules import cmpfold
    _per_config(ctx, R, lambda units, r: cmpfold.cmp1(units, r, unit_names=('cJSON_Utils.c',)))
    _scoped(ctx, R, tab.tab11, C19_ENTRIES, 4)


def run_C01(ctx, R):
    from .rules import bnd, parse
    _per_config(ctx, R, bnd.bnd_parse)
    _per_config(ctx, R, _tab1_parse)
    _per_config(ctx, R, parse.tab1_depth_balance)
    _per_config(ctx, R, _inl(parse.bnd6))
    _per_config(ctx, R, _inl(parse.out9))
    _per_config(ctx, R, parse.tab2_parse)
    _per_config(ctx, R, _only_functions(_own_cjson, PARSE_FNS, 'OWN2', 8))      # "... or a leak"


def run_C10(ctx, R):
    from .rules import bnd, parse
    from .rules import parse as _parse
    _per_config(ctx, R, _parse.num2)
    _per_config(ctx, R, _parse.num3)

    def only_entry(units, r):
        tmp = Results(config=r.config)
        bnd.bnd_parse(units, tmp)
        for o in tmp.obs:
            if o.function == 'cJSON_ParseWithLengthOpts' or o.rule == 'BND5' or 'summary' in o.what:
                r.obs.append(o)
        r.notes.extend(tmp.notes)
        r.floor('BND5', 'obligations on the entry function', len(r.obs), 4)
        r.floor('BND5', 'publications of a failure position', len([o for o in r.obs if o.rule == 'BND5']), 1)
    # code of the entry point that was moved into private single-exit helpers (clear_error_position(), ...) is analysed in place
    from .specialize import with_inlined

    def entry_view(rule):
        return lambda units, r: rule(with_inlined(units, 'cJSON.c', 'cJSON_ParseWithLengthOpts'), r)
    _per_config(ctx, R, entry_view(only_entry))
    _per_config(ctx, R, entry_view(parse.c10_structure))
    _per_config(ctx, R, entry_view(parse.ent1))
    _per_config(ctx, R, _inl(parse.tab4))          # a literal that ends the buffer is a complete document for every entry point
    _per_config(ctx, R, _inl(parse.tab22))
    _per_config(ctx, R, parse.tab2_parse)


def run_C13(ctx, R):
    from .rules import bnd3, out, tab, parse

    def minify_loops(units, r):
        u = units['cJSON.c']
        # what the callers guarantee about the bytes at a callee's cursor (BND3 infers it and checks it at every call site)
        fam = [u.fn(n) for n in bnd3._family(u, bnd3.MINIFY)]
        reqs = bnd3.infer(u, fam)
        nonterm = {}
        for f in fam:
            for (i, _n, key) in bnd3._cursor_params(u, f):
                if reqs.get(f.name, {}).get(i):
                    nonterm.setdefault(f.name, {})[key] = reqs[f.name][i]
        parse.bnd6(units, r, functions=[u.fn(n) for n in bnd3.MINIFY], nonterm=nonterm)
        r.floor('BND6', 'loops in the minify family', len(r.obs), 1)

    def minify_out(units, r):
        tmp = Results(config=r.config)
        out.out5(units, tmp, only=set(bnd3.MINIFY))
        out.out6(units, tmp, unit_names=('cJSON.c',))
        for o in tmp.obs:
            if o.function in bnd3.MINIFY:
                r.obs.append(o)
        r.floor('OUT5', 'write-cursor obligations in the minify family', len(r.obs), 5)
    # a helper shared by thin wrappers (skip_comment(input, "*/", 2)) is analysed as its wrappers, constants in place
    from .specialize import specialize

    def on_minify(rule):
        return lambda units, r: rule(specialize(units, 'cJSON.c', ('cJSON_Minify',)), r)
    _per_config(ctx, R, on_minify(bnd3.bnd3_minify))
    _per_config(ctx, R, on_minify(minify_out))
    _per_config(ctx, R, on_minify(minify_loops))
    _per_config(ctx, R, on_minify(tab.tab13))
    _per_config(ctx, R, on_minify(tab.tab19))


def _only_functions(rule, names, floor_rule, floor):
    def run(units, r):
        tmp = Results(config=r.config)
        rule(units, tmp)
        # the named functions and the static helpers they (transitively) call: code moved into a helper stays in scope
        scope = set(names)
        work = list(names)
        while work:
            n_ = work.pop()
            for u_ in units.values():
                f_ = u_.functions.get(n_)
                if f_ is None or f_.body is None:
                    continue
                for c_ in f_.calls():
                    from .facts import callee_name as _cn
                    g_ = u_.functions.get(_cn(c_))
                    if g_ is not None and g_.static and g_.name not in scope:
                        scope.add(g_.name)
                        work.append(g_.name)
        kept = [o for o in tmp.obs if o.function in scope]
        r.obs.extend(kept)
        r.notes.extend(tmp.notes)
        r.floor(floor_rule, 'obligations in %s' % sorted(names)[:3], len(kept), floor)
    return run


CORE_MUTATORS = {'add_item_to_array', 'add_item_to_object', 'cJSON_DetachItemViaPointer', 'cJSON_InsertItemInArray',
                 'cJSON_ReplaceItemViaPointer', 'replace_item_in_object', 'cJSON_CreateIntArray', 'cJSON_CreateFloatArray',
                 'cJSON_CreateDoubleArray', 'cJSON_CreateStringArray', 'parse_array', 'parse_object', 'cJSON_Duplicate_rec',
                 'cJSON_CreateObjectReference', 'cJSON_CreateArrayReference', 'suffix_object'}


def run_C06(ctx, R):
    from .rules import lst, tree, parse, cmpfold
    _per_config(ctx, R, lambda units, r: cmpfold.cmp1(units, r, unit_names=('cJSON.c',)))

    def core_lst1(units, r):
        tmp = Results(config=r.config)
        lst.lst1(units, tmp)
        kept = [o for o in tmp.obs if o.file == 'cJSON.c']
        r.obs.extend(kept)
        r.floor('LST1', 'child stores in cJSON.c', len(kept), 11)
    _per_config(ctx, R, core_lst1)

    def core_lst2(units, r):
        tmp = Results(config=r.config)
        tree.lst2(units, tmp)
        kept = [o for o in tmp.obs if o.file == 'cJSON.c']
        r.obs.extend(kept)
        r.floor('LST2', 'list idioms in cJSON.c', len(kept), 4)
    _per_config(ctx, R, core_lst2)
    _per_config(ctx, R, tree.lst3)
    _per_config(ctx, R, tree.lst4)
    _per_config(ctx, R, parse.tab7)
    from .rules import shape
    _per_config(ctx, R, lambda units, r: shape.shp1(units, r, only_unit='cJSON.c'))
    _per_config(ctx, R, shape.shp3)


def run_C11(ctx, R):
    from .rules import tree, parse, lst
    _per_config(ctx, R, tree.tab14)
    _per_config(ctx, R, _only_functions(_tab1_dup, {'cJSON_Duplicate_rec'}, 'TAB1', 2))
    _per_config(ctx, R, _only_functions(lst.lst1, {'cJSON_Duplicate_rec'}, 'LST1', 1))
    _per_config(ctx, R, _only_functions(tree.lst4, {'cJSON_Duplicate', 'cJSON_Duplicate_rec'}, 'LST4', 0))
    _per_config(ctx, R, _only_functions(_own_cjson, {'cJSON_Duplicate', 'cJSON_Duplicate_rec'}, 'OWN2', 4))
    from .rules import shape as _shape
    _per_config(ctx, R, _shape.shp4)
    from .rules import parse as _parse11
    _per_config(ctx, R, _parse11.tab1_bound)


def run_C12(ctx, R):
    from .rules import tree, tab, cmpfold
    _per_config(ctx, R, lambda units, r: cmpfold.cmp1(units, r, unit_names=('cJSON.c',)))
    _per_config(ctx, R, tree.eff6)
    _per_config(ctx, R, tree.c12_structure)
    _per_config(ctx, R, _only_functions(_tab3_compare, {'cJSON_Compare', 'cJSON_IsInvalid', 'cJSON_IsFalse', 'cJSON_IsTrue', 'cJSON_IsBool',
                                                    'cJSON_IsNull', 'cJSON_IsNumber', 'cJSON_IsString', 'cJSON_IsArray', 'cJSON_IsObject',
                                                    'cJSON_IsRaw'}, 'TAB3', 4))
    _scoped(ctx, R, tab.tab11, {'cJSON_Compare'}, 4)
    _per_config(ctx, R, _only_functions(tree.lst4, {'cJSON_Compare'}, 'LST4', 1))
    from .rules import numcls
    _per_config(ctx, R, lambda units, r: numcls.num4(units, r, unit_names=('cJSON.c',)))
    from .rules import shape as _shape
    _per_config(ctx, R, _shape.shp5)


PARSE_FNS = {'parse_value', 'parse_array', 'parse_object', 'parse_string', 'parse_number', 'cJSON_ParseWithLengthOpts',
             'cJSON_ParseWithOpts', 'cJSON_Parse', 'cJSON_ParseWithLength', 'utf16_literal_to_utf8', 'parse_hex4',
             'buffer_skip_whitespace', 'skip_utf8_bom'}


def _own_cjson(units, r):
    from .rules import own
    own.own_engine(units, r, unit_name='cJSON.c', alloc_may_fail=True)
    nsites = len([o for o in r.obs if o.rule == 'OWN2'])
    r.floor('OWN2', 'allocation sites examined in cJSON.c', nsites, 55)
    r.floor('OWN1', 'functions examined for NULL use in cJSON.c', len([o for o in r.obs if o.rule == 'OWN1']), 45)


def run_C09(ctx, R):
    from .rules import outbuf, outsym, bnd
    _per_config(ctx, R, outbuf.out1)
    _per_config(ctx, R, outsym.out23)
    _per_config(ctx, R, outbuf.out4)
    _per_config(ctx, R, outbuf.out8)
    _per_config(ctx, R, bnd.bnd4_all)
    _per_config(ctx, R, outbuf.tab5bc)


def run_C04(ctx, R):
    from .rules import outbuf, outsym
    _per_config(ctx, R, outbuf.tab5bc)
    _per_config(ctx, R, outbuf.out1)
    _per_config(ctx, R, outsym.out23)
    _per_config(ctx, R, outbuf.out8)
    _per_config(ctx, R, _inl(outbuf.tab2_print))
    _per_config(ctx, R, outbuf.prt1)
    from .rules import parse
    _per_config(ctx, R, _inl(parse.tab23))
    from .rules import numcls
    _per_config(ctx, R, lambda units, r: numcls.num4(units, r, unit_names=('cJSON.c',)))
    from .rules import bnd as _bnd
    _per_config(ctx, R, _bnd.bnd4_all)          # a number whose text does not fit the scratch array is not printed at all
    from .rules import parse as _parse5
    _per_config(ctx, R, _parse5.num5)
    _per_config(ctx, R, _parse5.num6)          # every finite double is printed as a literal that has to parse again          # what is printed with 17 digits reads back as the same double only through a correctly rounding conversion


def run_C05(ctx, R):
    from .rules import outbuf, tree
    _per_config(ctx, R, _inl(outbuf.tab2_print))
    _per_config(ctx, R, outbuf.tab15)
    _per_config(ctx, R, _only_functions(_tab3_print, {'print_value'}, 'TAB3', 3))
    _per_config(ctx, R, outbuf.tab5bc)
    _per_config(ctx, R, outbuf.tab16)
    from .rules import numcls
    _per_config(ctx, R, numcls.num1)
    _per_config(ctx, R, outbuf.print_literals)
    from .rules import outsym
    _per_config(ctx, R, outsym.out23)
    _per_config(ctx, R, outbuf.out8)


def run_C02(ctx, R):
    from .rules import parse, lst
    _per_config(ctx, R, parse.tab2_parse)
    _per_config(ctx, R, _inl(parse.tab4))
    _per_config(ctx, R, parse.tab5a)
    from .rules import codeset
    _per_config(ctx, R, codeset.tab6)
    _per_config(ctx, R, _only_functions(parse.tab7, {'parse_number'}, 'TAB7', 1))
    _per_config(ctx, R, _inl(parse.c02_structure))
    _per_config(ctx, R, _inl(parse.tab21))
    _per_config(ctx, R, _inl(parse.tab22))
    _per_config(ctx, R, _inl(parse.tab23))
    _per_config(ctx, R, _only_functions(lst.lst1, {'parse_array', 'parse_object'}, 'LST1', 2))
    _per_config(ctx, R, parse.tab1_depth_balance)
    _per_config(ctx, R, _inl(parse.tab1_bound))
    from .specialize import with_inlined
    _per_config(ctx, R, lambda units, r: parse.ent1(with_inlined(units, 'cJSON.c', 'cJSON_ParseWithLengthOpts'), r))
    from .rules import parse as _parse
    _per_config(ctx, R, _parse.num2)
    _per_config(ctx, R, _parse.num3)
    _per_config(ctx, R, _parse.num5)
    _per_config(ctx, R, _parse.num6)


def run_C03(ctx, R):
    from .rules import parse, own, tab
    _per_config(ctx, R, _tab1_parse)
    _per_config(ctx, R, _only_functions(_own_cjson, PARSE_FNS, 'OWN2', 8))
    _per_config(ctx, R, parse.tab5a)
    _per_config(ctx, R, _only_functions(parse.tab17, PARSE_FNS, 'TAB17', 10))
    _per_config(ctx, R, _only_functions(tab.tab8, PARSE_FNS, 'TAB8', 2))
    _per_config(ctx, R, _inl(parse.tab4))
    _per_config(ctx, R, _inl(parse.c03_structure))
    _per_config(ctx, R, _inl(parse.tab21))
    _per_config(ctx, R, _inl(parse.tab22))
    from .rules import parse as _parse
    _per_config(ctx, R, _parse.num2)
    _per_config(ctx, R, _parse.num3)


def run_C07(ctx, R):
    from .rules import own, tree, lst
    _per_config(ctx, R, _inl(own.own5))
    _per_config(ctx, R, own.own10)
    _per_config(ctx, R, own.del1)
    _per_config(ctx, R, own.dbl1)
    _per_config(ctx, R, _inl(own.own6))
    _per_config(ctx, R, own.own4_dangling)
    _per_config(ctx, R, _own_cjson)
    _per_config(ctx, R, own.verify_summaries)
    _per_config(ctx, R, tree.tab14)
    _per_config(ctx, R, own.ref_constructors)
    _per_config(ctx, R, own.own8)
    _per_config(ctx, R, _inl(own.own9))
    from .rules import utilsx as _ux
    _per_config(ctx, R, _ux.own11)                 # the utilities hand a whole node over by value (overwrite_item) and free the shell


def run_C08(ctx, R):
    from .rules import own
    _per_config(ctx, R, _own_cjson)
    _per_config(ctx, R, own.verify_summaries)
    _per_config(ctx, R, own.own7)
    _per_config(ctx, R, own.own4_dangling)
    _per_config(ctx, R, own.ref_constructors)      # a failed step must not release what a half-built reference borrows
    from .rules import outbuf

    def realloc_fail(units, r):
        tmp = Results(config=r.config)
        outbuf.out4(units, tmp)
        r.obs.extend(o for o in tmp.obs if o.key.startswith('realloc-fail'))
        r.floor('OUT4', 'reallocations in ensure', len(r.obs), 1)
    _per_config(ctx, R, realloc_fail)              # a refused reallocate leaves the old block allocated: ensure releases it


PROPERTIES = {
    'C04': {
        'run': run_C04, 'modules': ['print', 'tables'],
        'explanation':
            "PRT1: a test of the nesting depth in the printing family refuses only where the parser does (in a container printer, before the depth is incremented, with the parser's bound or a weaker one): what the parser built can be printed, whatever its depth. "
            "Writer/reader agreement and buffer independence only; numbers are NOT decided. TAB5c: every escape letter the "
            "printer can emit is decoded by the parser to the byte it stands for (parser table extracted; the printer's text per byte value computed by "
            "byte-set path exploration of its emitting loop and checked against RFC 8259). TAB5b: for every byte value 1..255 the counting pass reserves exactly what the emitting pass writes, so "
            "the closing quote lands where it should; quote, backslash and all control bytes are escaped and nothing else is. "
            "OUT1/OUT2: every output write goes through an ensure() result and stays within the request. OUT8: no capacity request "
            "is made while bytes written under an earlier one are not yet covered by ->offset (ensure may move the buffer and "
            "preserves only what ->offset covers - read off ensure()'s own copy), and no print entry point reads ->offset (or hands the buffer to a reader of it) after a printer returned with its last token not yet covered; may-dataflow, independent of the length arithmetic. OUT3: at every next "
            "request/printer call the offset has been advanced by exactly the bytes written before the terminator, which is "
            "the condition under which ensure()'s realloc branch and its allocate+memcpy(offset+1)+free branch preserve the "
            "same bytes (independence from realloc availability and from the initial buffer size). TAB2: print() returns "
            "blocks of the same size from both arms of its final shrink/copy. TAB23 (reading side): the literal the parser reads "
            "back ends at the first quote that is not the second byte of an escape sequence, which is where the printer put it. NUM4: "
            "compare_double, which print_number uses to decide whether 15 digits read back as the number printed, does not take an infinite "
            "read-back for equal to a finite number (the DBL_MAX case named in the property).",
        'not_decided': ['numeric round trip as a value: %1.15g / %1.17g, -0.0 (the DBL_MAX -> inf case named in the property was compare_double accepting an infinite read-back, NUM4)',
                        'fixed point of print(parse(.)) as a value', 'shape/order/keys preservation beyond the table agreement'],
    },
    'C05': {
        'run': run_C05, 'modules': ['print', 'tree'],
        'explanation':
            "TAB2: Print, PrintUnformatted, PrintBuffered and PrintPreallocated all reach the one print_value with the caller's "
            "item and differ only in buffer set-up; the two plain variants pass format = 1 / 0. TAB15: statements controlled by "
            "->format store only ' ', tab or newline, call nothing, and format otherwise only selects lengths - so the formatted "
            "text minus that whitespace is the unformatted text as far as control structure goes. TAB3: print_value switches on "
            "the masked kind, covers all eight kinds and refuses anything else. TAB5b: every control byte goes to the switch "
            "whose default arm writes \\u00XX; quote and backslash are escaped. TAB16: print_number (and parse_number) "
            "substitute the locale's decimal point. NUM1: print_number followed once for each class of IEEE doubles (NaN, +Infinity, "
            "-Infinity, finite positive, finite negative, zero) with every condition on the value evaluated in a class/interval "
            "domain (static helpers followed, isnan/isinf in every libc spelling, x - x, ordered comparisons with constants): the "
            "three non-finite classes reach the null literal and no numeric conversion, the finite classes never reach null. LIT: the literals written are exactly null, false, true with requests of "
            "their length plus terminator. OUT2/OUT3: every token is written inside its request, the text handed back is "
            "zero-terminated at its end only (no terminator written by sprintf inside the escaping loop survives), and the offset "
            "bookkeeping matches what was written, so tokens are not overwritten or dropped.",
        'not_decided': ['acceptance by an independent strict parser', 'integer formatting (%d arm condition is numeric)'],
    },
    'C09': {
        'run': run_C09, 'modules': ['print', 'parse'],
        'explanation':
            "OUT1: in the print family every pointer written through is an ensure() result (or arithmetic on one); the buffer "
            "is never written through p->buffer. OUT2: path enumeration with linear symbolic state over every printing function "
            "shows, for each of the 15 ensure(p, N) sites and each assignment of the boolean atoms (format, next != NULL, ...), "
            "that the bytes stored through the returned pointer before the next request never exceed N (counting loops "
            "summarised as their bound, the escaping loop discharged by TAB5b). OUT4: ensure returns a pointer into the "
            "existing buffer only under needed + offset + 1 <= length, refuses offset >= length and needed > INT_MAX first, and "
            "reaches its allocator calls only when noalloc is clear; cJSON_PrintPreallocated stores the caller's buffer and "
            "length, offset 0 and noalloc = true; nobody but ensure touches buffer/length/noalloc afterwards. BND4: the number "
            "scratch buffer and its sprintf formats fit. Together every store index is < offset + N + 1 <= length.",
        'not_decided': ["'returns true only if complete' and monotonicity in n (values)", 'the +5 sufficiency margin'],
    },
    'C02': {
        'run': run_C02, 'modules': ['parse', 'tables', 'utils'],
        'explanation':
            "NUM2: parse_number advances the offset by exactly what its strtod call consumed (end pointer minus start of the converted copy), so the number token ends where the conversion stopped. NUM3: a variable that bounds the scan of the input in parse_number and is computed from the remaining input is all of it (length - offset, not one less). "
            "Necessary conditions only. TAB2: all four entry points run the same parser on the same bytes (the string variants "
            "add strlen+1), so 'all entry points produce equal trees' reduces to the length argument. TAB4: each literal is "
            "compared at exactly its length, advanced by exactly its length and stored as its own type, also through a helper whose "
            "lengths are linear in its parameters; the readable bytes demanded first are no more than the literal has (or it would be "
            "refused as the last token of an exact-length buffer); the BOM likewise. "
            "TAB5a: the decoding loop of parse_string followed path by path with the set of values the byte after a backslash can "
            "have (switch, if-chain or a strchr/memchr search of a constant table, which finds the terminator as C does): for all "
            "256 values, exactly b f n r t \" \\ / continue with the RFC 8259 byte written once and two bytes consumed, u goes to "
            "the UTF-16 routine, every other value fails. "
            "TAB6: the surrogate ranges, 0x10000 offset, 0x3FF/10-bit combination, UTF-8 thresholds and lead-byte marks "
            "extracted from utf16_literal_to_utf8 equal RFC 2781/3629 (comparisons normalised to boundaries so <= 0x7F and "
            "< 0x80 are the same). TAB7: the int view is the saturating conversion. C02S: the dispatch enters the string, "
            "number, array and object productions for exactly the first bytes RFC 8259 allows (byte-set dataflow over the "
            "guards); containers append each new node after the current tail and set the head only once (input order), "
            "object keys are the parsed string moved out of valuestring. LST1: the tail link is set. TAB1: the depth counter "
            "is undone on success, so siblings do not count as nesting. TAB21/TAB22: the bytes parse_hex4 takes for hex digits and the "
            "bytes buffer_skip_whitespace steps over, as sets over all 256 values with C's arithmetic (wrap-around range tests, reads "
            "through plain char). TAB23: the scan of parse_string for the closing quote, for all 256 values of the byte under its cursor, "
            "leaves towards the decoder exactly on the quote, steps over two bytes on a backslash and over one otherwise - so the literal "
            "ends where the decoder has it; where the quote is found by memchr/strchr instead, it is judged by the parity of the run of "
            "backslashes in front of it (a single look at the byte in front is reported).",
        'not_decided': ['exactness of decoding for every text: correct rounding (delegated to strtod), the UTF-8 bit arithmetic '
                        'beyond its constants, whitespace/BOM acceptance, duplicate-member retention as values'],
    },
    'C03': {
        'run': run_C03, 'modules': ['parse', 'own', 'utils', 'tables'],
        'explanation':
            "NUM2: parse_number advances the offset by exactly what its strtod call consumed (end pointer minus start of the converted copy), so the number token ends where the conversion stopped. NUM3: a variable that bounds the scan of the input in parse_number and is computed from the remaining input is all of it (length - offset, not one less). "
            "TAB1: nesting deeper than CJSON_NESTING_LIMIT is refused before the recursive call on every cycle of the parser "
            "(stack bounded by the limit). OWN1/OWN2 over the parse family under every NULL/non-NULL outcome of every "
            "allocation: at each return no block allocated in the call is left without an owner that outlives it (rejection "
            "leaves nothing behind). TAB5a: the escape switch maps exactly the RFC 8259 letters, its default arm fails, a zero "
            "result of the UTF-16 routine is tested. TAB17: following the code under the hypothesis that an in-band-status "
            "function (parse_hex4, utf16_literal_to_utf8, parse_*) returned its failure value reaches only failure returns. "
            "TAB8: surrogate and digit range tests bound one variable. TAB4: literals are compared at their full length "
            "(misspelt literals cannot match). C03S: every `return true` of parse_value and of the array/object parsers is "
            "preceded on all paths by a store of the node type, the dispatch falls through to false, and the success label of "
            "the containers is reached only through the comparison with the matching closing bracket.",
        'not_decided': ['that every malformed text is rejected (the grammar as a language)', 'the exact lenient dialect'],
    },
    'C07': {
        'run': run_C07, 'modules': ['own', 'tree', 'utils'],
        'explanation':
            "DEL1: cJSON_Delete followed path by path for all 32 combinations of the two ownership bits and the three payload "
            "pointers: it releases the child chain and the value string unless the node is a reference, the key unless it is "
            "constant, the node itself always and last, and reads nothing of the node afterwards. "
            "OWN5: every release of valuestring / child / string of a node in cJSON.c is reachable only through the clear edge of "
            "a test of the ownership bit that describes that memory, on the same node, with no store to that node's type "
            "between entry and the test. OWN6: the key parameter is not read after the item's own key was released (the key "
            "may alias it). OWN4: no block is released twice or used after release on any path (typestate engine), and a "
            "released field of longer-lived memory is overwritten before return, and a block is not released while an object of the caller that it was stored into still points at it. OWN9: a store that clears an ownership bit is followed path by path - the payload the bit describes is a fresh copy, NULL, a pointer taken from another node under the clear edge of that node's bit, or the node was created in the function. DBL1: blocks the function did not allocate itself (a field of "
            "a parameter, the print buffer): between two releases of the same access path on a feasible path (conditions passed are "
            "remembered) the path is assigned; a successful reallocate counts as a release of its argument. OWN2/OWN3: what a function allocates it "
            "releases, links or returns on every path, including the failure outcomes of consume-on-success callees whose "
            "summaries are re-checked against their bodies. TAB14: the duplicator clears the reference bit and shares only "
            "constant keys. REFC: reference constructors clear the key, set the reference bit and clear both links; "
            "cast_away_const results are only stored into fresh nodes.",
        'not_decided': ['global allocator balance over arbitrary call histories (needs the heap)',
                        "'releasing a reference never affects the referenced tree' beyond OWN5"],
    },
    'C08': {
        'run': run_C08, 'modules': ['own', 'utils'],
        'explanation':
            "The failure index k of the property becomes 'every allocator call site x its NULL outcome', exhaustive over "
            "sites: the typestate engine splits the state at each of the ~60 allocating calls of cJSON.c into the NULL and "
            "the fresh-block outcome and follows both. OWN1: the NULL outcome is never dereferenced nor passed to a callee "
            "that dereferences it (callee NULL-tolerance computed from the bodies). OWN2/OWN3: on the NULL outcome nothing "
            "allocated earlier in the call stays allocated without an owner, including blocks handed to add_item_to_* when "
            "that call can still fail at the site. OWN7: nothing reachable from a tree parameter is released or stored into "
            "before an allocation that can still fail. OWN4: ensure() clears the buffer pointer it released.",
        'not_decided': ["'still prints the same text afterwards' as a value", 'behaviour of the two allocator configurations at run time'],
    },
    'C06': {
        'run': run_C06, 'modules': ['tree', 'utils'],
        'explanation':
            "CMP1: the case-insensitive key comparator explored over all 65536 pairs of byte values: the loop continues exactly when the ASCII-folded bytes agree and are not the terminator, returns 0 exactly at a common terminator and non-zero otherwise (static helpers and <ctype.h> evaluated in the C locale); before the loop a zero result needs identical pointers. "
            "The sibling-chain consistency sentence of the property as maintenance obligations on every mutator of cJSON.c. "
            "LST1: every path through a store X->child = V passes a store to V->prev / X->child->prev (unless V is NULL on "
            "that path or the container is released). LST2: the unlink, take-over (replace), insert-before, append and "
            "first-element idioms each re-establish every link they invalidate (both neighbours, head, tail, cleared links "
            "of the detached item). LST3: in the public edit functions no refusal return is reachable after a link store, so a "
            "refused call leaves the containers unchanged. LST4: every dereference of a pointer parameter of a public "
            "function is preceded on all paths by a NULL test of it (listed exceptions with reasons). TAB7: the three "
            "writers of valueint follow the saturation template. SHP1: shape analysis by finite instantiation - each array "
            "editor (append, insert, detach and delete by pointer and by index, replace by pointer and by index) is evaluated "
            "from its AST over abstract heaps for every list of 0..5 elements and every position/index; the resulting heap must "
            "be the one the list model gives (child sequence, every prev mirrors a next, the first child's prev is the last "
            "child, the removed node has no links, exactly the replaced node is deleted). Five elements realise every aliasing "
            "pattern among head / predecessor / item / successor / tail; the premise that the editors store links at most one "
            "link away from a node they can name, and not inside loops, is checked, so longer lists add no new case. A single "
            "edit only: sequences of edits follow because every edit is shown to re-establish the invariant it assumes. SHP3: the "
            "queries get_array_item, cJSON_GetArrayItem, cJSON_GetArraySize and get_object_item evaluated over the same abstract heaps "
            "on every list of up to five elements (every index from below to beyond the range; every arrangement of the keys a/A/b on "
            "up to four members with every name, both flag values): the element, the size, the first matching member the list model "
            "has, and nothing written (a bounded statement, like SHP2).",
        'not_decided': ['the object-keyed editors as wholes (they resolve the key through get_object_item, which SHP3 covers on short '
                        'lists, and then call the pointer-based editors that SHP1 covers)',
                        'lookup on objects of more than four members', 'success flags as values'],
    },
    'C11': {
        'run': run_C11, 'modules': ['tree', 'parse', 'utils', 'own'],
        'explanation':
            "TAB14: every field of struct cJSON is either assigned in the duplicator or is a sibling link left zero; pointer "
            "fields of the copy receive fresh allocations (allocator closure computed from the bodies) or, for the key only, "
            "the source key under cJSON_StringIsConst; the stored type is the source type with exactly the reference bit "
            "masked out; no whole-node copy; children are visited only when recurse is set. TAB1: the recursive call is "
            "guarded by the CJSON_CIRCULAR_LIMIT test and passes depth + 1 (cyclic input terminates, stack bounded). LST1: the "
            "copy's child chain gets its tail link on every path that does not release the partial copy. LST4: NULL source "
            "refused.",
        'not_decided': ["'compares equal / prints identical' as values", 'independence under later edit histories beyond the '
                        'no-sharing clause'],
    },
    'C12': {
        'run': run_C12, 'modules': ['tree', 'utils'],
        'explanation':
            "CMP1: the case-insensitive key comparator explored over all 65536 pairs of byte values: the loop continues exactly when the ASCII-folded bytes agree and are not the terminator, returns 0 exactly at a common terminator and non-zero otherwise (static helpers and <ctype.h> evaluated in the C locale); before the loop a zero result needs identical pointers. "
            "EFF6: cJSON_Compare and everything it calls store only to their own locals and call only pure functions, so the "
            "arguments are never modified. C12S: in the array arm `return true` is reachable only with both element cursors "
            "exhausted (nullness facts by dataflow); in the object arm members are looked up in both objects, every lookup "
            "result is tested against NULL before a true return, every recursive comparison is a branch condition whose false "
            "edge returns false; strcmp is reached only after NULL tests of both payloads; the number comparison takes one "
            "operand from each argument. TAB3: the kind is compared and switched on under the 0xFF mask, all eight kinds are "
            "valid, the default arm refuses. TAB11: the case flag reaches get_object_item and both recursive calls unchanged. "
            "LST4: NULL arguments refused before any dereference. NUM4: compare_double evaluated in the class domain of doubles for every pair "
            "of operand classes (NaN, +inf, -inf, positive, negative, zero): a NaN equals nothing, an infinite number equals neither a finite "
            "one nor the other infinity, zero equals zero.",
        'not_decided': ['the tolerance between two finite numbers as a value', 'reflexivity/symmetry as such'],
    },
    'C01': {
        'run': run_C01, 'modules': ['parse'],
        'explanation':
            "Forward dataflow over every function of the parse family (everything that takes a parse_buffer or a raw "
            "input cursor). BND1/BND2: the abstract state bounds length-offset for each buffer and length-(p-content) for "
            "each raw cursor; facts come only from the guards in the code (after macro expansion, so can_read / "
            "can_access_at_index / cannot_access_at_index are seen as the comparisons they are) and from cursor "
            "arithmetic; every input read (subscript, dereference, strncmp of the input) must be covered. Callee entry "
            "requirements (parse_string/parse_array need one readable byte, parse_hex4 four) are inferred as least "
            "assumptions by a fixpoint over the call graph and checked at every call site; the public entry function is "
            "analysed from the API contract (value[0..buffer_length) readable, buffer_length != 0 after its own test); "
            "the step-back postcondition of buffer_skip_whitespace is re-proved on every run. BND4: every subscript of a "
            "local array is within its size (interval analysis with thresholds) and sprintf into local arrays fits. "
            "EFF7: no store through anything derived from the input. TAB1: every recursion cycle of the parser passes a "
            "CJSON_NESTING_LIMIT test with the counter incremented on every path to the recursive call and handed down; "
            "the counter is decremented before every successful return. BND6: every loop of the family steps a cursor "
            "or counter forward on every iteration. TAB2: the string entry points add only strlen+1. OWN2 over the parse family: "
            "whatever a parsing function allocates is linked into the result, released, or handed to a callee that takes it, on "
            "every path (the 'or a leak' clause; allocation failures included). OUT9: the string parse_string decodes fits the block "
            "allocated for it - a count over the whole literal assembled from facts about single steps: the scan counts one saved "
            "byte at most per step and only for two-byte steps, starting from 0; the block's size is, as a linear expression, at "
            "least (end - start) - count + 1; the decoder starts where the scan started, stops at its end, and every turn of its "
            "loop writes one byte for one plain byte and at most ceil(a/2) for a bytes led by a backslash (the UTF-16 arm through "
            "the value-set engine of TAB6: every successful path writes at most half of what it reports as consumed); one "
            "terminator behind the loop.",
        'not_decided': [
                        'that the returned tree can be walked/printed/deleted (LST1 covers the tail link only)',
                        'absence of UB in arithmetic other than the int saturation template (TAB7)'],
    },
    'C10': {
        'run': run_C10, 'modules': ['parse'],
        'explanation':
            "NUM2: parse_number advances the offset by exactly what its strtod call consumed (end pointer minus start of the converted copy), so the number token ends where the conversion stopped. NUM3: a variable that bounds the scan of the input in parse_number and is computed from the remaining input is all of it (length - offset, not one less). "
            "BND5: every value stored into the error position that is published on failure is the constant 0, the "
            "buffer offset at a point where a readable byte is proven, or length-1 where length>=1 is proven (dataflow "
            "state of the entry function). C10P: on the failure path *return_parse_end and the global error are both "
            "computed from one local error object (json + position; json is the caller's buffer) with no redefinition "
            "between the two publications; on success the parse end is content+offset. C10R: the reset of both fields of "
            "the global error dominates every return and no other store to it can reach the successful return. C10T: "
            "with require_null_terminated, every path from the flag test to the successful return passes the comparison "
            "of the byte at the cursor with 0, after skipping whitespace, and that read is bounds-guarded (BND1). TAB2: "
            "the other entry points only forward.",
        'not_decided': ['parse_end <= value+length on success (needs offset <= length after strtod\'s variable advance)',
                        'prefix re-parse equality', "'exactly when' direction of the termination check (value semantics of whitespace skipping)"],
    },
    'C13': {
        'run': run_C13, 'modules': ['parse', 'utils'],
        'explanation':
            "BND3 dataflow on NUL-terminated cursors over cJSON_Minify, skip_oneline_comment, skip_multiline_comment and "
            "minify_string: a read json[k] needs k bytes proven not to be the terminator, an advance by c needs c such "
            "bytes (the cursor never steps over the terminator); callee requirements (comment skippers need 2, "
            "minify_string 1) are inferred and checked at the three call sites. OUT6: the write cursor never overtakes "
            "a read cursor that is still in use (difference bounds between all character cursors, lag >= 0 on every path, "
            "callee net lag >= 0), every store lands on a byte already read. "
            "OUT5: no gap in the output. BND6: each loop advances the read cursor. TAB13: the string scanner consumes "
            "the byte after a backslash whatever it is. TAB19: each comment skipper steps over its opener, recognises its closer at "
            "the cursor (bytes 0..len-1 against '*/' resp. newline) and consumes exactly the closer.",
        'not_decided': ['value preservation and idempotence as such', 'completeness of whitespace removal'],
    },
    'C14': {
        'run': run_C14,
        'modules': ['eff', 'own'],
        'explanation':
            "Who-may-call / provenance argument over the whole program (both library units, every function, every call "
            "site). EFF1: the C allocator (malloc/free/realloc and every other allocating libc function) is referenced "
            "only as a default stored into / compared with the one global hooks table, never called; every call site "
            "in both units is classified as internal, non-allocating libc, or indirect through a hooks field; the same "
            "census is repeated independently on the LLVM IR. EFF2: every value of the hooks record type is the global "
            "table, a parameter of that type, or an embedded copy assigned from the table on every path before a "
            "callee can use it; cJSON_malloc/cJSON_free forward to the table; cJSON_Utils.c has no indirect call. "
            "EFF3: every reallocate call is dominated by a non-NULL test of the same member, and every path through "
            "the installing function leaves reallocate NULL unless allocate/deallocate are the libc defaults, restores "
            "defaults for a NULL argument or NULL members. DBL1: no access path is handed to the release function twice on "
            "a feasible path without a store in between (a successful reallocate counts as a release of its argument). "
            "The 'not lost' half of exactly-once is C07/C08's (OWN2).",
        'not_decided': ["'no block is lost' (C07/C08 rules)", 'behaviour of user-supplied hooks'],
    },
    'C20': {
        'run': run_C20,
        'modules': ['eff'],
        'explanation':
            "Effect argument. EFF4: complete census of objects with static storage duration in both units (file scope "
            "and function-local), each const (never written) or one of the three documented exceptions "
            "(global_error: written only by cJSON_ParseWithLengthOpts and read only by cJSON_GetErrorPtr; global_hooks: "
            "written only by cJSON_InitHooks; cJSON_Version's buffer); for every public function the transitive set of "
            "statics written over the resolved call graph is empty except for the parse entry points (global_error), "
            "cJSON_InitHooks and cJSON_Version; cross-checked on LLVM IR (set of non-constant globals, store sites). "
            "EFF5: no call or address-taking of a libc function with hidden static state; localeconv is the "
            "documented locale condition. EFF2: all memory obtained in a call comes from the hooks and is reachable "
            "only from that call's arguments/locals. Under the C11 memory model calls on disjoint argument graphs then "
            "have no conflicting accesses other than the documented globals.",
        'not_decided': ['thread safety of user hooks and of libc itself (assumed)',
                        'data races through trees deliberately shared by the caller'],
    },
    'C15': {
        'run': run_C15, 'modules': ['utils', 'parse'],
        'explanation':
            "Structural necessary conditions of RFC 6901 resolution and of pointer construction, on every function "
            "reachable from the pointer entry points. TAB8: every two-sided range test with literal bounds bounds one and "
            "the same element (the array-index digit loop). ESC1: a member name (X->string) becomes part of a pointer only as an "
            "argument of the encoder, never as something sprintf(%s)/strcat/strcpy/memcpy copy verbatim, neither directly nor "
            "through a helper parameter that is. TAB9: the four escape routines (encoder, encoded-length, "
            "in-place decoder, comparing tokeniser) are followed path by path with the set of values the bytes under "
            "their cursors can have; for every byte value 1..255 what each writes, counts, consumes and accepts must agree "
            "with the others and with RFC 6901 (~0<->~, ~1<->/, everything else verbatim, no other ~x). TAB11: the case_sensitive flag is passed unchanged to every callee that "
            "takes one and no case-folding function is reachable while it is true. OUT7: every block filled with a "
            "pointer string is sized, term by term (strlen / encoded length of the same key / 20 digits / literals / "
            "terminator; a size_t helper result counts as one non-negative term), for what sprintf/encode/strcat/memcpy and helpers "
            "with a recognised counting loop write. DIG1: a loop that only divides x by K and counts must run while x >= K (or x != 0): "
            "the digit count agrees with the radix (no instance today; armed by a fixture). OUT5: the encoder's write cursor leaves no gap. "
            "ESC3: a byte of a member name is compared with a byte of a reference token directly (outside compare_pointers) only "
            "behind tests that the token byte is neither '~' nor '/' (no instance today; armed by a fixture). "
            "PTR1: on every path of get_item_from_pointer that returns something other than the constant NULL the byte under the text "
            "cursor is the terminator or the value returned is known to be NULL (text that does not begin with '/' designates nothing). "
            "Decides these clauses, not the resolution semantics as a whole.",
        'not_decided': ['RFC 6901 resolution as a function of (document, pointer): which node is returned',
                        'size_t overflow of the decoded index'],
    },
    'C16': {
        'run': run_C16, 'modules': ['utils', 'own'],
        'explanation':
            "TAB3: in every function reachable from the entry points the kind of a node is examined only through the 0xFF mask (or a cJSON_Is* predicate); two type words are never compared raw, so ownership flags cannot make equal kinds look different. "
            "Survival and table clauses of patch application on every function reachable from cJSONUtils_ApplyPatches*. "
            "TAB12: every payload field (valuestring/child/value*) of a node looked up in the caller-supplied patch "
            "document is used only under the matching cJSON_Is* test of that node. PFX1: a strncmp/memcmp of two pointer texts over the "
            "length of one of them leads to a non-zero result only together with a test of the next byte against '/' (no such "
            "comparison exists today; the rule is kept alive by its fixture). TAB10: every patch_operation "
            "enumerator is decoded from exactly its RFC 6902 name and tested in apply_patch. TAB11: case flag "
            "propagation (detach, lookup, compare, sort). TAB9/OUT5/OUT6: the in-place key decoder agrees with the other "
            "pointer tables, leaves no unwritten byte behind its write cursor and never writes ahead of its read "
            "cursor. LST1: every mutator that stores a child pointer restores the first child's back link (the test "
            "operation sorts both operands). TAB8/TAB18: index digit test, no narrowing of the decoded index. ORD1: a node resolved "
            "in the document is not used after a call that may unlink/release nodes of it. OWN2/OWN4 (typestate engine, allocation "
            "failure not modelled here): on every path of apply_patch/detach_path the duplicated or detached value and the pointer "
            "copy are released, linked into the document or returned - no leak and no double release for any patch document.",
        'not_decided': ['RFC 6902 results (which document results, which status)', "'move into own child' refusal",
                        ],
    },
    'C17': {
        'run': run_C17, 'modules': ['utils', 'own'],
        'explanation':
            "TAB3: in every function reachable from the entry points the kind of a node is examined only through the 0xFF mask (or a cJSON_Is* predicate); two type words are never compared raw, so ownership flags cannot make equal kinds look different. "
            "CMP1: compare_strings over all 65536 byte pairs per flag value: exact mode is strcmp of the two arguments; folding mode continues exactly on fold-equal non-terminator pairs, returns 0 at a common terminator and otherwise a value with the sign of the folded difference (lower or upper fold, one of them throughout), because the sorter and the generator look at the sign. "
            "Path construction and input preservation clauses of patch generation. OUT7: each path buffer (compose_patch, "
            "create_patches array and object arms) is sized for what is written, with the encoded length taken of the "
            "same key that is encoded and the key appended exactly where the text so far ends. GEN1: no branch of the recursive generator whose condition is computed from neither document (and "
            "is not the NULL test of a fresh allocation) has an edge on which the generator can only leave without emitting while its "
            "other edge can emit - a depth budget, flag or counter must not decide whether differences are reported (edges settled by "
            "the range of an unsigned type are dead). GEN2: a loop that emits one indexed \"remove\" per leftover element while walking forwards does not "
            "step the printed counter forward (each removal shifts the next leftover element to the same index), and a loop that emits one "
            "indexed \"add\" per new element steps the counter and prints the index again on every iteration (\"-\" needs no index). ESC1: member names reach pointer "
            "text only through the encoder (not as a %s argument or a verbatim-copied helper parameter). TAB9/OUT5: escape tables "
            "and gap-free encoding. LST1+LST5: sort_object (run on both inputs) restores the tail link and sort_list "
            "stores only next/prev and calls only itself and the comparator, so inputs are merely re-linked. TAB11: "
            "the flag reaches sort and compare. INP: create_patches stores through nothing derived from its two inputs and hands "
            "input nodes only to const parameters, the sorter, the comparator and itself. OWN2: path buffers and patch objects are "
            "released or linked on every path. TAB20: key order comes from the comparator only. ESC2: where a text keeps its own "
            "length and an encoded name is appended at that length, the length moves on by the encoded length, not by strlen of the "
            "name (no instance today; armed by a fixture). NUMU: two numbers are taken for equal only behind compare_double.",
        'not_decided': ['that applying the generated patch yields the target; emptiness iff equal; array index arithmetic'],
    },
    'C18': {
        'run': run_C18, 'modules': ['utils', 'own'],
        'explanation':
            "TAB3: in every function reachable from the entry points the kind of a node is examined only through the 0xFF mask (or a cJSON_Is* predicate); two type words are never compared raw, so ownership flags cannot make equal kinds look different. "
            "TAB11: on every function reachable from the four merge-patch entry points the case_sensitive flag is passed "
            "unchanged (never a constant, never through a case-folding public entry point) at every nesting level. "
            "LST1/LST5: generation sorts both inputs through sort_object, which restores the tail link and only re-links. INP: "
            "generate_merge_patch and compare_json store through nothing derived from their inputs. OWN2 (allocation failure not "
            "modelled): in merge_patch the detached member is consumed by the recursive call on every path and the target is "
            "released on the failure exit; generate_merge_patch releases the empty patch object. TAB20: the merge walk orders keys "
            "with strcmp/compare_strings only. MRG1-4: patch values copied verbatim only when not objects, members removed only under a null patch value, member operations only on a target known to be an object, and what enters the target goes in through a keyed insertion named by the patch member.",
        'not_decided': ['the RFC 7396 result itself (null deletes, non-object replaces, recursion) - semantic, not '
                        'approximated'],
    },
    'C19': {
        'run': run_C19, 'modules': ['utils'],
        'explanation':
            "CMP1: compare_strings over all 65536 byte pairs per flag value: exact mode is strcmp of the two arguments; folding mode continues exactly on fold-equal non-terminator pairs, returns 0 at a common terminator and otherwise a value with the sign of the folded difference (lower or upper fold, one of them throughout), because the sorter and the generator look at the sign. "
            "The 'healthy tree afterwards' and 'same nodes' sentences. LST1: every function of both units that stores a "
            "non-null child pointer also stores the first child's prev (sort_object included; every internal sorter goes "
            "through sort_object: LST5). LST5: sort_list assigns only next/prev, allocates and releases nothing, calls "
            "only itself and compare_strings. TAB11: pre-check and merge use the comparator with the caller's flag. "
            "SHP2 (bounded): sort_object evaluated from its AST over abstract heaps for every object of up to four members with "
            "every arrangement of keys (repetitions included) and every arrangement of five distinct keys, both flag values: "
            "the members afterwards are the same nodes, in non-decreasing key order, every prev mirrors a next and the first "
            "member's prev is the last member. The comparator is taken by its contract (TAB20 covers its use).",
        'not_decided': ['sortedness / permutation / idempotence for objects of more than five members: sorting re-links inside '
                        'loops and recursion, so the short lists of SHP2 are a bounded statement, not a small-model argument'],
    },
}



# clauses added by the eighth seed wave (DESIGN.md section 21)
_WAVE8 = {
    'C02': "TAB7 is decided by evaluation, not by template: parse_number is followed once per region into which the constants it compares the "
           "number with (and INT_MIN-1 .. INT_MAX+1, their negatives, 0) cut the doubles; every reachable store into valueint is the conversion "
           "(only where C defines it) or the truncated, saturated constant of the region - through int locals, ?: and static helpers.",
    'C06': "TAB7 by region evaluation (see C02) for cJSON_SetNumberHelper and cJSON_CreateNumber.",
    'C07': "OWN10: bytes are written into X->valuestring / X->string of a node the function was handed only behind the clear edge of the "
           "ownership bit that describes the field (a reference borrows its text). REFC also: a reference node under construction is handed to "
           "cJSON_Delete only once cJSON_IsReference is set, and its key is NULL or an own copy with the constant-key bit cleared. OWN9 evaluates "
           "the flag bits of any store to ->type (kept / cleared / set through &, |, ~, ?:), so a type word rebuilt from constants counts as clearing.",
    'C08': "REFC: a failed step does not release what a half-built reference node still borrows from the original.",
    'C09': "OUT1: a write straight into buffer + offset without ensure() is accepted only behind tests that establish offset < length and "
           "length - offset >= N, N the bound of the bytes written with the terminator (bounded sprintf formats, constant-size copies).",
    'C11': "SHP4: cJSON_Duplicate evaluated over abstract heaps on one node of every kind (with and without the two flag bits, with the payload "
           "that kind carries) and on arrays / objects of up to three children of mixed kinds, with and without recursion: same kind, number "
           "views, key and text whatever the kind, never a reference, children copied in order with well-formed links, source untouched (bounded).",
    'C12': "TAB11 mirror clause: a callee without a flag that hands the constant true to a flagged function compares keys exactly whatever it "
           "is told; a flagged function calls it only on the true edge of its flag.",
    'C16': "ESC4: the last token of a path, once decode_pointer_inplace has turned it into the member name, is looked up as a name and never "
           "handed to a reader of tokens (a parameter that ends up as the second argument of compare_pointers; fixpoint over the call graph).",
    'C17': "ESC4 (see C16).",
    'C18': "MRG5: a function that takes the null members out of a copy of the patch descends only into children known to be objects (an array "
           "in the patch is a value as a whole); MRG1 accepts a copy of an object patch that goes through such a pruner before any other use.",
    'C19': "LST5 covers the static helpers sort_object is split into: stores to next/prev and into records of their own, qsort on their own array.",
}
for _k, _t in _WAVE8.items():
    PROPERTIES[_k]['explanation'] = PROPERTIES[_k]['explanation'] + ' ' + _t


# clauses added by the ninth seed wave (DESIGN.md section 22)
_WAVE9 = {
    'C02': "TAB24: a text nested exactly CJSON_NESTING_LIMIT containers deep is accepted - every test of the depth counter on the way into a "
           "container sees the counter before this level's own increment and refuses at >= LIMIT (or after it, at > LIMIT).",
    'C04': "BND4: what print_number prints into its scratch array fits it, '*' precisions read from the argument list (a number that does not "
           "fit is not printed at all).",
    'C09': "OUT1 also accepts one byte at P.offset of the caller's own block behind a test of P.offset < P.length; OUT8 takes the failure edge of "
           "a printer call for the end of that text.",
    'C11': "TAB24: a node exactly CJSON_CIRCULAR_LIMIT levels below the root is copied, one level more is refused (a depth test every "
           "successful return lies behind judges the node itself, one that only the recursive call lies behind judges the children).",
    'C12': "SHP5: cJSON_Compare evaluated against the definition of equality on ~8900 pairs of short trees (scalars of every kind, with and "
           "without the ownership flags; arrays of up to three scalars; objects of up to two members with keys from {a, A, b}; one more level "
           "of nesting with keys that differ in case only), both flag values; NULL and invalid arguments unequal; arguments unmodified.",
    'C13': "TAB19 follows cursors handed over by value and judges the opener from what every caller has already stepped over: nothing of the "
           "opener that is still ahead when the scan begins can begin the closer; a skipper that meets the terminator leaves the cursor on it.",
    'C15': "IDX1: an index token handed to strtoul/strtol lies behind tests that its first byte is a decimal digit. FND1: in the search for "
           "a node no branch that depends on neither the tree nor the target (a depth budget) may make it answer NULL.",
    'C16': "IDX1 (see C15).",
    'C17': "ORD2: no position in a member list (a local set from X->child) is read behind sort_object(X) without being set again. TAB20 accepts a "
           "difference of first key bytes only as unsigned char, where they differ, in exact comparisons (the sign strcmp gives).",
    'C18': "ORD2 (see C17).",
}
for _k, _t in _WAVE9.items():
    PROPERTIES[_k]['explanation'] = PROPERTIES[_k]['explanation'] + ' ' + _t

_WAVE10 = {
    'C02': "ENT1: in front of the call of the value parser the entry point gives up only for reasons that are not about the text (arguments, "
           "memory) or that make the value unparsable too (nothing readable at the cursor; a byte there that opens no value). NUM5: a "
           "hand-written `v = v * 10 + digit` in a double is bounded to 15 digits by the loop's own tests (none on the pinned tree).",
    'C04': "NUM5 (see C02): what is printed with 17 digits reads back as the same double only through a correctly rounding conversion. "
           "TAB5b's verbatim clause is about bytes above 0x7F only: an ASCII byte may be escaped, its spelling is judged.",
    'C05': "OUT3: where a caller measures what was printed with update_offset, every successful return leaves a terminator at or behind "
           "the offset, whether or not the function accounted for its own text.",
    'C07': "DEL1 follows both outcomes of a test of a counter (a recursion budget) for every kind of node: whatever a node owns is "
           "released on either.",
    'C09': "OUT3 (see C05).",
    'C10': "ENT1 (see C02). TAB4 takes the bytes demanded in front of a literal from the bounds analysis when the guard is not "
           "spelled offset + S <= length.",
    'C12': "SHP5 stays inside the property's domain: objects whose keys fall together after case folding are not compared without "
           "regard to case (what the lookups do with them is C06's business, SHP3).",
}
for _k, _t in _WAVE10.items():
    PROPERTIES[_k]['explanation'] = PROPERTIES[_k]['explanation'] + ' ' + _t
_WAVE11 = {
    'C02': "NUM6: behind the strtod call parse_number fails only because nothing was converted or under a test that the result is not finite.",
    'C04': "NUM6 (see C02): every finite double is printed as a literal that has to parse again.",
    'C07': "OWN11: where the utilities copy a whole node handed in by value over another one and free the emptied node alone, every payload "
           "pointer of the copy lives on or is released by the caller.",
    'C08': "OUT4 (the clause on a refused reallocate): with the result NULL every way out of ensure passes a release of the old block.",
    'C09': "OUT4 has the same clause here.",
    'C10': "TAB4: a literal needs no more readable bytes than it has (a literal that ends the buffer is a complete document).",
    'C18': "MRG6: in merge_patch / generate_merge_patch no branch decides on a byte of a member name compared with a constant (the empty "
           "name is a name).",
    'C16': "TAB10: a bounded comparison with an operation name takes the terminator in (strncmp(op, \"add\", 3) is true of \"addendum\"). OWN11 (see C07).",
}
for _k, _t in _WAVE11.items():
    PROPERTIES[_k]['explanation'] = PROPERTIES[_k]['explanation'] + ' ' + _t
PROPERTIES['C12']['not_decided'] = list(PROPERTIES['C12']['not_decided']) + [
    'rounding inside the comparison itself (a halved difference rounds for subnormal operands, seed s11_C12)']
PROPERTIES['C02']['not_decided'] = list(PROPERTIES['C02']['not_decided']) + [
    'a validating decoder added in front of the copy (which UTF-8 sequences it lets through, seed s11_C02)']
PROPERTIES['C15']['not_decided'] = list(PROPERTIES['C15']['not_decided']) + [
    'reference tokens delimited by a length handed in instead of by the next / or the terminator (seed s11_C15)']
PROPERTIES['C19']['not_decided'] = list(PROPERTIES['C19']['not_decided']) + [
    'sorters that keep runs in an array of their own (seed s11_C19)']
for _k in ('C16', 'C17'):
    PROPERTIES[_k]['explanation'] += (" ESC5: a decoder of ~0/~1 that finds the next sequence with a search resumes the search behind the "
                                      "character it just decoded (RFC 6901 section 4: ~01 is ~1, not /); none on the pinned tree.")
for _k in ('C15', 'C16', 'C17'):
    PROPERTIES[_k]['not_decided'] = list(PROPERTIES[_k]['not_decided']) + [
        'what a decoder of ~0/~1 that is not byte-by-byte (strchr + memmove) produces: TAB9 ends at exit 2 on it; ESC5 decides one '
        'necessary condition of it (seed s10_C17)']

def claimed():
    return sorted(PROPERTIES)


def selftest(modules=None, verbose=False):
    """Run the fixtures of the given rule modules; returns 0 or 2."""
    import importlib
    from .rules import fixtures_run
    mods = modules or sorted({m for p in PROPERTIES.values() for m in p['modules']})
    bad = 0
    total = 0
    for m in mods:
        res = fixtures_run.run_module(m)
        for (name, ok, msg) in res:
            total += 1
            if not ok:
                bad += 1
                print('FIXTURE-FAIL %s: %s' % (name, msg))
            elif verbose:
                print('fixture ok   %s: %s' % (name, msg))
    if verbose:
        print('selftest: %d fixture expectations, %d failed' % (total, bad))
    return (2 if bad else 0), total


def run(pid, tier, seed=0):
    t0 = time.time()
    spec = PROPERTIES[pid]
    rc, nfix = selftest(spec['modules'])
    if rc:
        print('ANALYSIS-BROKEN property=%s: a rule did not behave as expected on its fixture' % pid)
        return 2
    ctx = Ctx(tier)
    os.environ['CJSA_TIER'] = tier
    R = Results()
    facts, _extra = extract.check_build_config()
    for f in facts:
        R.note(f)
    if tier == 'thorough':
        for f in extract.compile_db_check():
            R.note('compile database: ' + f)
    spec['run'](ctx, R)
    R.note('configurations analysed: %s' % ctx.configs())
    R.note('fixture expectations checked before this run: %d' % nfix)
    for cfg in ctx.configs():
        us = ctx.units(cfg)
        R.note('%s: %s' % (cfg, ', '.join('%s %d functions' % (k, len(u.function_list)) for k, u in us.items())))
    cmd = './check %s --tier %s' % (pid, tier)
    return report.finish(pid, tier, R, t0, spec['explanation'], TRUSTED, ASSUME_COMMON + spec.get('assumptions', []),
                         cmd, seed=seed, not_decided=spec.get('not_decided'))


def replay(rep, tier):
    pid = rep['property']
    ob = rep['obligation']
    ctx = Ctx(tier)
    R = Results()
    PROPERTIES[pid]['run'](ctx, R)
    hits = [o for o in R.obs if (o.rule, o.file, o.function, o.key) == (ob['rule'], ob['file'], ob['function'], ob['key'])]
    if not hits:
        print('replay: construct %s / %s / %s no longer present' % (ob['rule'], ob['function'], ob['key']))
        return 0
    rc = 0
    for o in hits:
        print('%s:%d: %s: %s: %s -- %s [%s]' % (o.file, o.line, o.function, o.rule, o.what, o.detail,
                                               'discharged' if o.ok else 'VIOLATED'))
        if o.witness:
            print('    path: %s' % ' -> '.join(str(x) for x in o.witness))
        if not o.ok:
            rc = 1
    return rc
