"""Property assembly: which rules decide which property (DESIGN.md section 4)."""
import json
import os
import time

from . import extract, report
from .facts import AnalysisBroken
from .report import Results

VERIF = os.path.dirname(os.path.dirname(os.path.abspath(__file__)))

TRUSTED = [
    "clang-14 parser/Sema (type-checked AST, constant folding) via engine/cjsa_export.cc",
    "cjsa Python rules and CFG builder (exercised on every run by fixtures/: each rule must fire on its bad_* "
    "function and stay silent on its good_* twin)",
    "libc contracts: the classified libc functions read/write only what ISO C says and allocate nothing on the "
    "caller's behalf",
]
ASSUME_COMMON = [
    "only the two library units cJSON.c and cJSON_Utils.c (with cJSON.h, cJSON_Utils.h) are the library; tests/ and "
    "fuzzing/ are not analysed",
    "configurations analysed: see coverage.notes (quick: CMake default defines; thorough: also Makefile defines and "
    "two nesting-limit variants)",
]


class Ctx:
    def __init__(self, tier):
        self.tier = tier

    def configs(self):
        if self.tier == 'thorough':
            return ['cmake', 'make', 'limit1', 'limitbig']
        return ['cmake']

    def units(self, config='cmake'):
        return extract.load_units(config)

    def ir(self, config='cmake'):
        return extract.load_ir(config)


def _per_config(ctx, R, fn, configs=None):
    for cfg in (configs or ctx.configs()):
        r = Results(config=cfg)
        fn(ctx.units(cfg), r)
        R.extend(r)


# ---- property definitions ----------------------------------------------------------------------

def run_C14(ctx, R):
    from .rules import eff
    _per_config(ctx, R, eff.eff1)
    _per_config(ctx, R, eff.eff2)
    _per_config(ctx, R, eff.eff3)
    for cfg in ctx.configs():
        r = Results(config=cfg)
        eff.eff1_ir(ctx.ir(cfg), r)
        R.extend(r)


def run_C20(ctx, R):
    from .rules import eff
    _per_config(ctx, R, eff.eff4)
    _per_config(ctx, R, eff.eff5)
    _per_config(ctx, R, eff.eff2)
    for cfg in ctx.configs():
        r = Results(config=cfg)
        eff.eff4_ir(ctx.ir(cfg), ctx.units(cfg), r)
        R.extend(r)


PROPERTIES = {
    'C14': {
        'run': run_C14,
        'modules': ['eff'],
        'explanation':
            "Who-may-call / provenance argument over the whole program (both library units, every function, every call "
            "site). EFF1: the C allocator (malloc/free/realloc and every other allocating libc function) is referenced "
            "only as a default stored into / compared with the one global hooks table, never called; every call site "
            "in both units is classified as internal, non-allocating libc, or indirect through a hooks field; the same "
            "census is repeated independently on the LLVM IR. EFF2: every value of the hooks record type is the global "
            "table, a parameter of that type, or an embedded copy assigned from the table on every path before a "
            "callee can use it; cJSON_malloc/cJSON_free forward to the table; cJSON_Utils.c has no indirect call. "
            "EFF3: every reallocate call is dominated by a non-NULL test of the same member, and every path through "
            "the installing function leaves reallocate NULL unless allocate/deallocate are the libc defaults, restores "
            "defaults for a NULL argument or NULL members. Decides the property except 'exactly once' (C07).",
        'not_decided': ["'released exactly once' (C07/C08 rules)", 'behaviour of user-supplied hooks'],
    },
    'C20': {
        'run': run_C20,
        'modules': ['eff'],
        'explanation':
            "Effect argument. EFF4: complete census of objects with static storage duration in both units (file scope "
            "and function-local), each const (never written) or one of the three documented exceptions "
            "(global_error: written only by cJSON_ParseWithLengthOpts and read only by cJSON_GetErrorPtr; global_hooks: "
            "written only by cJSON_InitHooks; cJSON_Version's buffer); for every public function the transitive set of "
            "statics written over the resolved call graph is empty except for the parse entry points (global_error), "
            "cJSON_InitHooks and cJSON_Version; cross-checked on LLVM IR (set of non-constant globals, store sites). "
            "EFF5: no call or address-taking of a libc function with hidden static state; localeconv is the "
            "documented locale condition. EFF2: all memory obtained in a call comes from the hooks and is reachable "
            "only from that call's arguments/locals. Under the C11 memory model calls on disjoint argument graphs then "
            "have no conflicting accesses other than the documented globals.",
        'not_decided': ['thread safety of user hooks and of libc itself (assumed)',
                        'data races through trees deliberately shared by the caller'],
    },
}


def claimed():
    return sorted(PROPERTIES)


def selftest(modules=None, verbose=False):
    """Run the fixtures of the given rule modules; returns 0 or 2."""
    import importlib
    from .rules import fixtures_run
    mods = modules or sorted({m for p in PROPERTIES.values() for m in p['modules']})
    bad = 0
    total = 0
    for m in mods:
        res = fixtures_run.run_module(m)
        for (name, ok, msg) in res:
            total += 1
            if not ok:
                bad += 1
                print('FIXTURE-FAIL %s: %s' % (name, msg))
            elif verbose:
                print('fixture ok   %s: %s' % (name, msg))
    if verbose:
        print('selftest: %d fixture expectations, %d failed' % (total, bad))
    return (2 if bad else 0), total


def run(pid, tier, seed=0):
    t0 = time.time()
    spec = PROPERTIES[pid]
    rc, nfix = selftest(spec['modules'])
    if rc:
        print('ANALYSIS-BROKEN property=%s: a rule did not behave as expected on its fixture' % pid)
        return 2
    ctx = Ctx(tier)
    R = Results()
    facts, _extra = extract.check_build_config()
    for f in facts:
        R.note(f)
    if tier == 'thorough':
        for f in extract.compile_db_check():
            R.note('compile database: ' + f)
    spec['run'](ctx, R)
    R.note('configurations analysed: %s' % ctx.configs())
    R.note('fixture expectations checked before this run: %d' % nfix)
    for cfg in ctx.configs():
        us = ctx.units(cfg)
        R.note('%s: %s' % (cfg, ', '.join('%s %d functions' % (k, len(u.function_list)) for k, u in us.items())))
    cmd = './check %s --tier %s' % (pid, tier)
    return report.finish(pid, tier, R, t0, spec['explanation'], TRUSTED, ASSUME_COMMON + spec.get('assumptions', []),
                         cmd, seed=seed, not_decided=spec.get('not_decided'))


def replay(rep, tier):
    pid = rep['property']
    ob = rep['obligation']
    ctx = Ctx(tier)
    R = Results()
    PROPERTIES[pid]['run'](ctx, R)
    hits = [o for o in R.obs if (o.rule, o.file, o.function, o.key) == (ob['rule'], ob['file'], ob['function'], ob['key'])]
    if not hits:
        print('replay: construct %s / %s / %s no longer present' % (ob['rule'], ob['function'], ob['key']))
        return 0
    rc = 0
    for o in hits:
        print('%s:%d: %s: %s: %s -- %s [%s]' % (o.file, o.line, o.function, o.rule, o.what, o.detail,
                                               'discharged' if o.ok else 'VIOLATED'))
        if o.witness:
            print('    path: %s' % ' -> '.join(str(x) for x in o.witness))
        if not o.ok:
            rc = 1
    return rc
