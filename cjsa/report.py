"""Obligation bookkeeping, verdicts, evidence and report files."""
import json
import os
import time

VERIF = os.path.dirname(os.path.dirname(os.path.abspath(__file__)))
KNOWN = os.path.join(VERIF, 'known_findings.json')
OUT = os.environ.get('CJSA_OUT', VERIF)


class Ob:
    __slots__ = ('rule', 'file', 'line', 'function', 'what', 'ok', 'detail', 'key', 'config', 'witness')

    def __init__(self, rule, file, line, function, what, ok, detail='', key=None, config='', witness=None):
        self.rule = rule
        self.file = file
        self.line = line
        self.function = function
        self.what = what
        self.ok = ok
        self.detail = detail
        self.key = key or what
        self.config = config
        self.witness = witness

    def ident(self):
        return (self.rule, self.file, self.function, self.key)

    def to_json(self):
        d = {'rule': self.rule, 'file': self.file, 'line': self.line, 'function': self.function,
             'what': self.what, 'ok': self.ok, 'detail': self.detail, 'key': self.key,
             'config': self.config}
        if self.witness:
            d['witness'] = self.witness
        return d


class Results:
    """Collects obligations of one rule run over one configuration."""

    def __init__(self, config=''):
        self.obs = []
        self.config = config
        self.notes = []
        self.floors = []   # (rule, what, count, floor)
        self.broken = []   # messages of rules that could not analyse the code (AnalysisBroken)

    def ob(self, rule, fn, node, what, ok, detail='', key=None, witness=None, file=None, line=None):
        if fn is not None and not isinstance(fn, str):
            f = file or fn.file
            ln = line if line is not None else (node['loc'][0] if node is not None and 'loc' in node else fn.line)
            name = fn.name
        else:
            f = file or ''
            ln = line or 0
            name = fn or ''
        o = Ob(rule, f, ln, name, what, bool(ok), detail, key, self.config, witness)
        self.obs.append(o)
        return o

    def note(self, s):
        self.notes.append(s)

    def floor(self, rule, what, count, floor):
        """Record an instance count; a count below its floor is analysis-broken (exit 2)."""
        self.floors.append((rule, what, count, floor))

    def extend(self, other):
        self.obs.extend(other.obs)
        self.notes.extend(other.notes)
        self.floors.extend(other.floors)
        self.broken.extend(other.broken)


def load_known():
    if not os.path.exists(KNOWN):
        return []
    with open(KNOWN) as fh:
        return json.load(fh).get('findings', [])


def known_match(entry, ob, prop):
    if entry.get('status') != 'known':
        return False
    if entry.get('property') != prop:
        return False
    return (entry.get('rule') == ob.rule and entry.get('function') == ob.function
            and entry.get('file') == ob.file and entry.get('key') == ob.key)


def finish(prop, tier, results, t0, explanation, trusted_base, assumptions, checker_cmd, seed=0,
           not_decided=None):
    """Prints the verdict, writes reports and evidence, returns the exit code."""
    obs = results.obs
    broken = [(r, w, c, f) for (r, w, c, f) in results.floors if c < f]
    known = load_known()
    viol = []
    known_hits = []
    seen_ident = set()
    for o in obs:
        if o.ok:
            continue
        if o.ident() in seen_ident:
            continue   # same construct reported under several configurations
        seen_ident.add(o.ident())
        hit = None
        for e in known:
            if known_match(e, o, prop):
                hit = e
                break
        if hit:
            known_hits.append((o, hit))
        else:
            viol.append(o)

    rdir = os.path.join(OUT, 'reports', prop)
    os.makedirs(rdir, exist_ok=True)
    for old in os.listdir(rdir):
        if old.endswith('.json'):
            os.unlink(os.path.join(rdir, old))

    for (o, e) in known_hits:
        print('KNOWN-FINDING: property=%s %s %s:%s %s' % (prop, o.rule, o.file, o.function, o.what))
    for i, o in enumerate(viol):
        path = os.path.join(rdir, '%d.json' % i)
        with open(path, 'w') as fh:
            json.dump({'property': prop, 'obligation': o.to_json()}, fh, indent=1)
        print('%s:%d: %s: %s: %s -- %s' % (o.file, o.line, o.function, o.rule, o.what, o.detail))
        if o.witness:
            print('    path: %s' % ' -> '.join(str(x) for x in o.witness))
        print('VIOLATION property=%s replay=%s' % (prop, path))

    distinct = len({o.ident() for o in obs})
    discharged = len({o.ident() for o in obs if o.ok})
    by_rule = {}
    for o in obs:
        r = by_rule.setdefault(o.rule, {'obligations': 0, 'discharged': 0})
        r['obligations'] += 1
        r['discharged'] += 1 if o.ok else 0
    samples = []
    seen_rules = set()
    for o in obs:
        if o.rule in seen_rules and len(samples) >= 12:
            continue
        if o.rule not in seen_rules or len(samples) < 12:
            seen_rules.add(o.rule)
            samples.append({'rule': o.rule, 'site': '%s:%d' % (o.file, o.line), 'function': o.function,
                            'obligation': o.what, 'discharged_by': o.detail, 'ok': o.ok})
    samples = samples[:40]
    ev = {
        'property_id': prop,
        'tier': tier,
        'seed': seed,
        'level': 'other',
        'coverage': {
            'explanation': explanation,
            'obligations': len(obs),
            'discharged': sum(1 for o in obs if o.ok),
            'evaluations': max(len(obs), 1),
            'distinct_nontrivial': distinct,
            'rule': 'one obligation per (rule, function, construct) instance found in the current source by the '
                    'exporter; distinct = distinct (rule, file, function, construct-key) tuples; an instance is '
                    'non-trivial because it is an actual construct of /repo, not a fixture',
            'samples': samples,
            'checker_cmd': checker_cmd,
            'trusted_base': trusted_base,
            'per_rule': by_rule,
            'instance_floors': [{'rule': r, 'what': w, 'count': c, 'floor': f} for (r, w, c, f) in results.floors],
            'notes': results.notes[:60],
            'not_decided': not_decided or [],
            'known_findings_reported': [o.what for (o, _e) in known_hits],
            'exhaustive': False,
        },
        'assumptions': assumptions,
        'wall_s': round(time.time() - t0, 3),
        'violations': len(viol),
    }
    os.makedirs(os.path.join(OUT, 'evidence'), exist_ok=True)
    with open(os.path.join(OUT, 'evidence', prop + '.json'), 'w') as fh:
        json.dump(ev, fh, indent=1)

    seen_b = set()
    for msg in results.broken:
        if msg not in seen_b:
            seen_b.add(msg)
            print('ANALYSIS-BROKEN property=%s: %s' % (prop, msg))
    if broken or results.broken:
        for (r, w, c, f) in broken:
            print('ANALYSIS-BROKEN property=%s rule=%s: %s: %d instances, floor %d' % (prop, r, w, c, f))
        # a violated obligation is a fact about a construct that exists; the floors only guard against
        # vacuous passes, so they decide the exit code only when nothing was reported
        if not viol:
            return 2
    print('%s [%s]: %d obligations over %d distinct constructs, %d discharged, %d violations, %d known findings (%.2fs)'
          % (prop, tier, len(obs), distinct, sum(1 for o in obs if o.ok), len(viol), len(known_hits),
             time.time() - t0))
    return 1 if viol else 0
