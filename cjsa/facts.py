"""Fact base loader: wraps the JSON written by engine/cjsa_export.cc.

Nodes stay plain dicts (see DESIGN.md section 9).  This module adds navigation helpers,
a normalising pretty-printer (used for construct keys and messages, never for matching
source text) and the per-unit index.
"""
import json
import os

EXPR_KINDS = {
    'ref', 'mem', 'un', 'bin', 'cond', 'call', 'idx', 'cast', 'int', 'char', 'float', 'str',
    'sizeof', 'initlist', 'zeroinit', 'stmtexpr', 'compoundlit', 'vaarg', 'predefined', 'unknown',
}
ASSIGN_OPS = {'=', '+=', '-=', '*=', '/=', '%=', '<<=', '>>=', '&=', '|=', '^='}
CMP_OPS = {'<', '<=', '>', '>=', '==', '!='}


class AnalysisBroken(Exception):
    """Raised when an anchor is missing or a construct is not understood: exit 2."""


def children(n):
    """Direct child nodes (expressions and statements) in evaluation/source order."""
    k = n.get('k')
    out = []
    if k == 'mem':
        out = [n['b']]
    elif k == 'un':
        out = [n['e']]
    elif k == 'bin':
        out = [n['l'], n['r']]
    elif k == 'cond':
        out = [n['c'], n['t'], n['e']]
    elif k == 'call':
        out = [n['fn']] + list(n['args'])
    elif k == 'idx':
        out = [n['b'], n['i']]
    elif k in ('cast', 'compoundlit', 'vaarg'):
        out = [n['e']]
    elif k == 'sizeof':
        out = [n['e']] if 'e' in n else []
    elif k == 'initlist':
        out = list(n['inits'])
    elif k == 'stmtexpr':
        out = [n['body']]
    elif k in ('unknown', 'unknownstmt'):
        out = list(n.get('kids', []))
    elif k == 'compound':
        out = list(n['body'])
    elif k == 'if':
        out = [n['c'], n['t']] + ([n['e']] if 'e' in n else [])
    elif k in ('while', 'switch'):
        out = [n['c'], n['body']]
    elif k == 'do':
        out = [n['body'], n['c']]
    elif k == 'for':
        out = [n[x] for x in ('init', 'c', 'inc') if x in n] + [n['body']]
    elif k == 'case':
        out = [n['v']] + ([n['vhi']] if 'vhi' in n else []) + ([n['sub']] if 'sub' in n else [])
    elif k in ('default', 'label'):
        out = [n['sub']] if 'sub' in n else []
    elif k == 'return':
        out = [n['e']] if 'e' in n else []
    elif k == 'decl':
        out = [d['init'] for d in n['decls'] if 'init' in d]
    return out


def walk(n):
    """Pre-order walk over every node of the subtree (including n)."""
    stack = [n]
    while stack:
        x = stack.pop()
        yield x
        cs = children(x)
        for c in reversed(cs):
            stack.append(c)


def is_expr(n):
    return n.get('k') in EXPR_KINDS


def strip_casts(n):
    while n.get('k') == 'cast':
        n = n['e']
    return n


def const_val(n):
    """Folded integer value of an expression or None."""
    if n is None:
        return None
    if 'val' in n:
        return n['val']
    # an explicit cast of an integer constant to a floating type: (double)INT_MIN
    if n.get('k') == 'cast' and 'val' in n.get('e', {}) and n['e'].get('k') in ('int', 'un', 'bin', 'cast'):
        return n['e']['val']
    return None


def is_null_const(n):
    m = strip_casts(n)
    if n.get('null') or m.get('null'):
        return True
    if m.get('k') == 'int' and m.get('val') == 0:
        return True
    return False


_PREC = {
    ',': 1, '=': 2, '||': 4, '&&': 5, '|': 6, '^': 7, '&': 8, '==': 9, '!=': 9,
    '<': 10, '<=': 10, '>': 10, '>=': 10, '<<': 11, '>>': 11, '+': 12, '-': 12,
    '*': 13, '/': 13, '%': 13,
}


def _chr(v):
    if v == 0:
        return "'\\0'"
    if v == 10:
        return "'\\n'"
    if v == 9:
        return "'\\t'"
    if v == 13:
        return "'\\r'"
    if v == 8:
        return "'\\b'"
    if v == 12:
        return "'\\f'"
    if v == 92:
        return "'\\\\'"
    if v == 39:
        return "'\\''"
    if 32 <= v < 127:
        return "'%s'" % chr(v)
    return "'\\x%02x'" % (v & 0xFF)


def expr_str(n, keep_casts=False):
    """Normalised C-like rendering (parentheses/implicit casts already gone)."""
    k = n.get('k')
    if k == 'ref':
        return n['n']
    if k == 'raw':
        return n['s']
    if k == 'mem':
        return '%s%s%s' % (_sub(n['b'], 20, keep_casts), '->' if n['arrow'] else '.', n['f'])
    if k == 'un':
        op = n['op']
        if op in ('post++', 'post--'):
            return _sub(n['e'], 20, keep_casts) + op[4:]
        if op in ('pre++', 'pre--'):
            return op[3:] + _sub(n['e'], 15, keep_casts)
        return op + _sub(n['e'], 15, keep_casts)
    if k == 'bin':
        op = n['op']
        p = _PREC.get(op, 2 if op in ASSIGN_OPS else 3)
        return '%s %s %s' % (_sub(n['l'], p, keep_casts), op, _sub(n['r'], p + 1, keep_casts))
    if k == 'cond':
        return '%s ? %s : %s' % (_sub(n['c'], 4, keep_casts), _sub(n['t'], 3, keep_casts), _sub(n['e'], 3, keep_casts))
    if k == 'call':
        return '%s(%s)' % (_sub(n['fn'], 20, keep_casts), ', '.join(expr_str(a, keep_casts) for a in n['args']))
    if k == 'idx':
        return '%s[%s]' % (_sub(n['b'], 20, keep_casts), expr_str(n['i'], keep_casts))
    if k == 'cast':
        if keep_casts:
            return '(cast)%s' % _sub(n['e'], 15, keep_casts)
        return expr_str(n['e'], keep_casts)
    if k == 'char':
        return _chr(n['val'])
    if k == 'int':
        return str(n.get('val', '?'))
    if k == 'float':
        return repr(n.get('fval'))
    if k == 'str':
        bs = n['bytes']
        s = ''.join(chr(b) if 32 <= b < 127 and b not in (34, 92) else '\\x%02x' % b for b in bs)
        return '"%s"' % s
    if k == 'sizeof':
        if 'val' in n:
            return 'sizeof=%d' % n['val']
        return 'sizeof(...)'
    if k == 'initlist':
        return '{%s}' % ', '.join(expr_str(i, keep_casts) for i in n['inits'])
    if k == 'zeroinit':
        return '{0}'
    return '<%s>' % k


def _prec_of(n):
    k = n.get('k')
    if k == 'bin':
        op = n['op']
        return _PREC.get(op, 2 if op in ASSIGN_OPS else 3)
    if k == 'cond':
        return 3
    if k == 'un':
        return 15
    if k == 'cast':
        return 15
    return 20


def _sub(n, p, keep_casts):
    if n.get('k') == 'cast' and not keep_casts:
        return _sub(n['e'], p, keep_casts)
    s = expr_str(n, keep_casts)
    if _prec_of(n) < p:
        return '(' + s + ')'
    return s


class Function:
    def __init__(self, unit, raw):
        self.unit = unit
        self.raw = raw
        self.name = raw['name']
        self.d = raw['d']
        self.file = os.path.basename(raw['file'])
        self.line = raw['loc'][0]
        self.endline = raw['endloc'][0]
        self.static = raw['static']
        self.external = raw['external']
        self.in_header = raw.get('in_header', False)
        self.params = raw['params']
        self.body = raw['body']
        self.ret = raw['ret']
        self._nodes = None
        self._parents = None
        self._cfg = None

    @property
    def public(self):
        return self.external

    def nodes(self):
        if self._nodes is None:
            self._nodes = list(walk(self.body))
        return self._nodes

    def parents(self):
        """id -> parent node."""
        if self._parents is None:
            par = {}
            for n in self.nodes():
                for c in children(n):
                    par[c['id']] = n
            self._parents = par
        return self._parents

    def calls(self):
        return [n for n in self.nodes() if n.get('k') == 'call']

    def locals(self):
        out = []
        for n in self.nodes():
            if n.get('k') == 'decl':
                out.extend(n['decls'])
        return out

    def param(self, name):
        for p in self.params:
            if p['n'] == name:
                return p
        return None

    def where(self, n=None):
        line = n['loc'][0] if n is not None and 'loc' in n else self.line
        return '%s:%d' % (self.file, line)

    def cfg(self):
        if self._cfg is None:
            from . import cfg as _cfg
            self._cfg = _cfg.build(self)
        return self._cfg


class Unit:
    def __init__(self, path, label=None):
        with open(path) as fh:
            self.raw = json.load(fh)
        self.path = path
        self.label = label or os.path.basename(path)
        self.types = self.raw['types']
        self.file = os.path.basename(self.raw.get('main_file', ''))
        self.functions = {}
        self.function_list = []
        for f in self.raw['functions']:
            fn = Function(self, f)
            self.functions[fn.name] = fn
            self.function_list.append(fn)
        self.by_decl = {fn.d: fn for fn in self.function_list}
        self.globals = self.raw['globals']
        self.records = {r['name']: r for r in self.raw['records']}
        self.enums = self.raw['enums']
        self.fdecls = self.raw['fdecls']
        self.macros_tested = self.raw['macros_tested']
        self._resolve_dispatch_tables()

    def _resolve_dispatch_tables(self):
        """Constant tables of function pointers (`static const struct { f *a; g *b; } table[] = {{x, y}, ..}`): when every object
        of the record type in this unit is such a const table, an indirect call through field `a` can only reach the functions
        named in that column.  The call nodes get c['targets'] = sorted names (callee_name stays None)."""
        cols = {}        # (record type string, field) -> set of function names
        const_types = set()
        bad_types = set()

        def rec_of(tid):
            import re
            base = re.sub(r'\[[^\]]*\]', '', self.types[tid]['s'])
            base = re.sub(r'\bconst\b|\bstruct\b|\*', ' ', base)
            return ' '.join(base.split())
        objs = [(g, True) for g in self.globals] + [(d, False) for (_f, d) in self.static_locals()]
        for (g, _isg) in objs:
            t = self.types[g['ty']]
            if t['c'] not in ('array', 'record'):
                continue
            rn = rec_of(g['ty'])
            rec = None
            for r in self.raw['records']:
                if r['name'] == rn:
                    rec = r
            if rec is None or not rec['fields'] or not all(self.types[f['ty']].get('fnptr') for f in rec['fields']):
                continue
            if not (g.get('const') or t.get('const')) or 'init' not in g:
                bad_types.add(rn)
                continue
            ini = strip_casts(g['init'])
            rows = ini['inits'] if t['c'] == 'array' else [ini]
            ok = True
            for row in rows:
                row = strip_casts(row)
                if row.get('k') != 'initlist' or len(row['inits']) != len(rec['fields']):
                    ok = False
                    break
                for f, cell in zip(rec['fields'], row['inits']):
                    c0 = strip_casts(cell)
                    if c0.get('k') == 'un' and c0['op'] == '&':
                        c0 = strip_casts(c0['e'])
                    if c0.get('k') == 'ref' and c0.get('dk') == 'fn':
                        cols.setdefault((rn, f['n']), set()).add(c0['n'])
                    else:
                        ok = False
            if ok:
                const_types.add(rn)
            else:
                bad_types.add(rn)
        good = const_types - bad_types
        if not good:
            return
        # no other object of these types: no local, parameter or member holds one by value
        for fn in self.function_list:
            for d in list(fn.params) + list(fn.locals()):
                t = self.types[d['ty']]
                if t['c'] in ('record', 'array') and rec_of(d['ty']) in good and not d.get('static'):
                    good.discard(rec_of(d['ty']))
        for fn in self.function_list:
            for c in fn.calls():
                if c.get('callee') is not None:
                    continue
                f = strip_casts(c['fn'])
                if f.get('k') == 'un' and f['op'] == '*':
                    f = strip_casts(f['e'])
                if f.get('k') != 'mem':
                    continue
                b = strip_casts(f['b'])
                rn = rec_of(b.get('ty0', b['ty']))
                if rn in good and (rn, f['f']) in cols:
                    c['targets'] = sorted(cols[(rn, f['f'])])

    def ty(self, n_or_id):
        i = n_or_id if isinstance(n_or_id, int) else n_or_id['ty']
        return self.types[i]

    def tystr(self, n_or_id):
        return self.ty(n_or_id)['s']

    def fn(self, name):
        f = self.functions.get(name)
        if f is None:
            raise AnalysisBroken('anchor function %s not found in %s' % (name, self.file))
        return f

    def has_fn(self, name):
        return name in self.functions

    def record(self, name):
        r = self.records.get(name)
        if r is None:
            raise AnalysisBroken('anchor record %s not found in %s' % (name, self.file))
        return r

    def static_locals(self):
        out = []
        for fn in self.function_list:
            for d in fn.locals():
                if d.get('static'):
                    out.append((fn, d))
        return out


def callee_name(call):
    """Direct callee name or None (indirect)."""
    return call.get('callee')


def indirect_field(call):
    """For an indirect call through a struct member: the member name."""
    fn = strip_casts(call['fn'])
    if fn.get('k') == 'un' and fn['op'] == '*':
        fn = strip_casts(fn['e'])
    if fn.get('k') == 'mem':
        return fn['f']
    return None


def call_graph(units):
    """name -> set of direct callee names, over a list of units (static names are
    qualified by unit when they collide)."""
    g = {}
    for u in units:
        for fn in u.function_list:
            key = qname(u, fn)
            s = g.setdefault(key, set())
            for c in fn.calls():
                cn = callee_name(c)
                if cn is None:
                    for t in c.get('targets', []):       # dispatch through a constant table of functions
                        s.add(resolve(units, u, t))
                    continue
                s.add(resolve(units, u, cn))
    return g


def qname(u, fn):
    return fn.name if fn.external else '%s::%s' % (u.file, fn.name)


def resolve(units, u, name):
    """Resolve a direct callee name seen in unit u to a call-graph key."""
    if name in u.functions:
        return qname(u, u.functions[name])
    for v in units:
        if v is not u and name in v.functions and v.functions[name].external:
            return name
    return name  # libc or unknown external
