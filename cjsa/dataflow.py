"""Generic forward dataflow over cjsa.cfg graphs, and the linearisation of expression trees into
primitive effects in evaluation order.

solve(cfg, init, transfer, refine, join) computes for every CFG node the state holding on entry.
  transfer(node, state) -> state'        effect of executing the node (for a branch/switch node: of
                                         evaluating its condition)
  refine(node, label, state') -> state'' | None   narrowing along one out-edge (None = infeasible)
  join(a, b) -> state                    must be monotone; states need __eq__
A node is revisited until its in-state is stable; `widen(old, new, visits)` may be given for infinite
domains.
"""
from .facts import strip_casts, ASSIGN_OPS, const_val, expr_str, AnalysisBroken


def solve(cfg, init, transfer, refine, join, widen=None, max_visits=200):
    order = cfg.rpo()
    pos = {n: i for i, n in enumerate(order)}
    state_in = {cfg.entry.id: init}
    visits = {}
    work = [cfg.entry.id]
    inwork = {cfg.entry.id}
    while work:
        work.sort(key=lambda n: pos.get(n, 1 << 30))
        nid = work.pop(0)
        inwork.discard(nid)
        st = state_in.get(nid)
        if st is None:
            continue
        visits[nid] = visits.get(nid, 0) + 1
        if visits[nid] > max_visits:
            raise AnalysisBroken('%s: dataflow does not converge at %r' % (cfg.fn.name, cfg.nodes[nid]))
        node = cfg.nodes[nid]
        out = transfer(node, st)
        if out is None:
            continue
        for (y, label) in cfg.succ[nid]:
            s2 = refine(node, label, out) if label is not None else out
            if s2 is None:
                continue
            old = state_in.get(y)
            if old is None:
                new = s2
            else:
                new = join(old, s2)
                if widen is not None and new != old:
                    new = widen(old, new, visits.get(y, 0))
            if old is None or new != old:
                state_in[y] = new
                if y not in inwork:
                    work.append(y)
                    inwork.add(y)
    return state_in


# ---- effects ---------------------------------------------------------------------------------------

class Ev:
    __slots__ = ('kind', 'node', 'lhs', 'rhs', 'delta', 'post')

    def __init__(self, kind, node, lhs=None, rhs=None, delta=0, post=False):
        self.kind = kind      # 'load' | 'store' | 'incdec' | 'call' | 'addr'
        self.node = node      # the expression node of the event
        self.lhs = lhs        # store: lvalue node; incdec: target lvalue
        self.rhs = rhs        # store: value node (None for compound)
        self.delta = delta
        self.post = post

    def __repr__(self):
        return '%s(%s)' % (self.kind, expr_str(self.node)[:50])


def effects(e, skip=frozenset()):
    """Primitive events of a full expression in evaluation order.
    load: an lvalue-to-rvalue read of memory through a pointer/array/member (node = the lvalue)
    store: `lhs op= rhs` (node = the assignment)
    incdec: ++/-- (lhs = target, delta = +-1)
    call: function call (after its arguments)
    Reads of plain variables are not reported (rules look at the expression trees themselves)."""
    out = []
    deferred = []

    def flush():
        out.extend(deferred)
        del deferred[:]

    def is_mem_lvalue(x):
        k = x.get('k')
        if k == 'idx':
            return True
        if k == 'un' and x['op'] == '*':
            return True
        if k == 'mem':
            return True
        return False

    def addr(x):
        """evaluate the sub-expressions needed to designate lvalue x (no load of x itself)"""
        x = strip_casts(x)
        k = x.get('k')
        if k == 'idx':
            rv(x['b'])
            rv(x['i'])
        elif k == 'un' and x['op'] == '*':
            rv(x['e'])
        elif k == 'mem':
            if x['arrow']:
                rv(x['b'])
            else:
                addr(x['b'])
        elif k == 'ref':
            pass
        else:
            rv(x)

    def rv(x):
        if x.get('id') in skip:
            return      # already evaluated by preceding branch nodes (value-context && || ?:)
        k = x.get('k')
        if k == 'cast':
            rv(x['e'])
        elif k in ('int', 'char', 'float', 'str', 'sizeof', 'zeroinit', 'predefined'):
            pass
        elif k == 'ref':
            pass
        elif k == 'un':
            op = x['op']
            if op in ('post++', 'post--', 'pre++', 'pre--'):
                addr(x['e'])
                ev = Ev('incdec', x, lhs=strip_casts(x['e']), delta=1 if '++' in op else -1, post=op.startswith('post'))
                if ev.post:
                    deferred.append(ev)
                else:
                    out.append(ev)
            elif op == '&':
                addr(x['e'])
                out.append(Ev('addr', x, lhs=strip_casts(x['e'])))
            elif op == '*':
                rv(x['e'])
                # dereferencing a function designator is not a memory read
                out.append(Ev('load', x))
                flush()
            else:
                rv(x['e'])
        elif k == 'idx':
            rv(x['b'])
            rv(x['i'])
            out.append(Ev('load', x))
            flush()
        elif k == 'mem':
            if x['arrow']:
                rv(x['b'])
                out.append(Ev('load', x))
                flush()
            else:
                b = strip_casts(x['b'])
                if is_mem_lvalue(b):
                    addr(b)
                    out.append(Ev('load', x))
                    flush()
                elif b.get('k') != 'ref':
                    rv(b)
        elif k == 'bin':
            op = x['op']
            if op in ASSIGN_OPS:
                rv(x['r'])
                addr(x['l'])
                if op != '=':
                    if is_mem_lvalue(strip_casts(x['l'])):
                        out.append(Ev('load', strip_casts(x['l'])))
                out.append(Ev('store', x, lhs=strip_casts(x['l']), rhs=x['r'] if op == '=' else None))
                flush()
            else:
                rv(x['l'])
                rv(x['r'])
        elif k == 'cond':
            rv(x['c'])
            rv(x['t'])
            rv(x['e'])
        elif k == 'call':
            f = strip_casts(x['fn'])
            if f.get('k') != 'ref':
                if f.get('k') == 'un' and f['op'] == '*':
                    rv(f['e'])
                else:
                    rv(f)
            for a in x['args']:
                rv(a)
            flush()
            out.append(Ev('call', x))
        elif k == 'initlist':
            for i in x['inits']:
                rv(i)
        elif k in ('compoundlit', 'vaarg'):
            rv(x['e'])
        elif k == 'stmtexpr':
            raise AnalysisBroken('statement expression not supported')
        else:
            for c in x.get('kids', []):
                rv(c)
    rv(e)
    flush()
    return out


def node_effects(node):
    """Events of a CFG node (stmt, branch, switch, return, decl)."""
    if node.kind == 'decl':
        d = node.decl
        if 'init' in d:
            evs = effects(d['init'], node.skip)
            evs.append(Ev('declinit', d, lhs=d, rhs=d['init']))
            return evs
        return [Ev('declinit', d, lhs=d, rhs=None)]
    if node.expr is None:
        return []
    return effects(node.expr, node.skip)


def access(x):
    """Normalise a memory lvalue to (base_expr, index_expr_or_int): p[k] -> (p, k); *p -> (p, 0);
    *(p + k) -> (p, k); *p++ -> (p, 0).  Returns None for member accesses."""
    x = strip_casts(x)
    k = x.get('k')
    if k == 'idx':
        b = strip_casts(x['b'])
        i = x['i']
        iv = const_val(i)
        b = _strip_post(b)
        return (b, iv if iv is not None else strip_casts(i))
    if k == 'un' and x['op'] == '*':
        b = strip_casts(x['e'])
        b = _strip_post(b)
        if b.get('k') == 'bin' and b['op'] == '+':
            rv_ = const_val(b['r'])
            lv_ = const_val(b['l'])
            if rv_ is not None and lv_ is None:
                return (strip_casts(b['l']), rv_)
            if lv_ is not None and rv_ is None:
                return (strip_casts(b['r']), lv_)
            return (strip_casts(b['l']), strip_casts(b['r']))
        return (b, 0)
    return None


def _strip_post(b):
    if b.get('k') == 'un' and b['op'] in ('post++', 'post--'):
        return strip_casts(b['e'])
    return b
