"""Control-flow graph built from the exported statement tree.

One node per simple statement / atomic condition.  Conditions are lowered so that `!`,
`&&`, `||` never appear at the top of a branch node: every edge out of a branch node
carries the atomic condition and its truth value, which is what the dataflow rules refine
on.  (clang's own CFG, also exported, joins at `!(a && b)`; building the graph here avoids
depending on that.)

Node kinds: entry, exit, stmt (expression statement), decl (one variable), branch
(atomic condition), switch (controlling expression), return, nop (labels / joins).
Edge labels: None | ('T', expr) | ('F', expr) | ('case', expr, value) |
             ('default', expr, [values])
"""
from .facts import AnalysisBroken, const_val, walk, strip_casts


class Node:
    __slots__ = ('id', 'kind', 'expr', 'decl', 'stmt', 'line', 'name', 'skip')

    def __init__(self, nid, kind, expr=None, decl=None, stmt=None, line=0, name=None, skip=None):
        self.id = nid
        self.kind = kind
        self.expr = expr
        self.decl = decl
        self.stmt = stmt
        self.line = line
        self.name = name
        self.skip = skip or frozenset()   # ids of sub-expressions already evaluated by preceding branch nodes

    def __repr__(self):
        return 'N%d:%s@%d' % (self.id, self.kind, self.line)


class CFG:
    def __init__(self, fn):
        self.fn = fn
        self.nodes = []
        self.succ = {}
        self.pred = {}
        self.entry = self.new('entry', line=fn.line)
        self.exit = self.new('exit', line=fn.endline)
        self._dom = None
        self._pdom = None

    def new(self, kind, **kw):
        n = Node(len(self.nodes), kind, **kw)
        self.nodes.append(n)
        self.succ[n.id] = []
        self.pred[n.id] = []
        return n

    def edge(self, a, b, label=None):
        self.succ[a.id].append((b.id, label))
        self.pred[b.id].append((a.id, label))

    def connect(self, dangling, b):
        for (a, label) in dangling:
            self.edge(a, b, label)

    # ---- graph utilities -------------------------------------------------------------
    def reachable(self, start=None, forward=True, stop=None):
        start = self.entry.id if start is None else start
        adj = self.succ if forward else self.pred
        seen = {start}
        work = [start]
        while work:
            x = work.pop()
            for (y, _l) in adj[x]:
                if y not in seen and (stop is None or y not in stop):
                    seen.add(y)
                    work.append(y)
        return seen

    def rpo(self):
        seen = set()
        order = []

        def dfs(x):
            stack = [(x, iter(self.succ[x]))]
            seen.add(x)
            while stack:
                node, it = stack[-1]
                adv = False
                for (y, _l) in it:
                    if y not in seen:
                        seen.add(y)
                        stack.append((y, iter(self.succ[y])))
                        adv = True
                        break
                if not adv:
                    order.append(node)
                    stack.pop()
        dfs(self.entry.id)
        order.reverse()
        return order

    def dominators(self):
        """node id -> set of dominator ids (over nodes reachable from entry)."""
        if self._dom is not None:
            return self._dom
        order = self.rpo()
        allset = set(order)
        dom = {n: set(allset) for n in order}
        dom[self.entry.id] = {self.entry.id}
        changed = True
        while changed:
            changed = False
            for n in order:
                if n == self.entry.id:
                    continue
                ps = [p for (p, _l) in self.pred[n] if p in dom]
                new = set(allset)
                for p in ps:
                    new &= dom[p]
                new.add(n)
                if new != dom[n]:
                    dom[n] = new
                    changed = True
        self._dom = dom
        return dom

    def dominates(self, a, b):
        d = self.dominators()
        return b in d and a in d[b]

    def node_of_expr(self, expr_id):
        """CFG node whose expression tree contains the node with this id."""
        for n in self.nodes:
            root = n.expr if n.expr is not None else (n.decl.get('init') if n.decl else None)
            if root is None:
                continue
            for x in walk(root):
                if x.get('id') == expr_id:
                    return n
        return None

    def returns(self):
        return [n for n in self.nodes if n.kind == 'return']

    def find_path(self, src, dst, avoid=()):
        """Some path src->dst (list of node ids) avoiding given nodes, or None."""
        avoid = set(avoid)
        prev = {src: None}
        work = [src]
        while work:
            x = work.pop(0)
            if x == dst:
                out = []
                while x is not None:
                    out.append(x)
                    x = prev[x]
                return list(reversed(out))
            for (y, _l) in self.succ[x]:
                if y not in prev and y not in avoid:
                    prev[y] = x
                    work.append(y)
        return None

    def describe_path(self, path, limit=12):
        out = []
        for i, nid in enumerate(path):
            n = self.nodes[nid]
            if n.kind == 'branch' and i + 1 < len(path):
                for (y, l) in self.succ[nid]:
                    if y == path[i + 1] and l:
                        from .facts import expr_str
                        out.append('%d:%s(%s)' % (n.line, l[0], expr_str(l[1])[:60]))
                        break
        if len(out) > limit:
            out = out[:limit // 2] + ['...'] + out[-limit // 2:]
        return out


def has_side_effects(e):
    for x in walk(e):
        k = x.get('k')
        if k == 'call':
            return True
        if k == 'un' and x['op'] in ('post++', 'post--', 'pre++', 'pre--'):
            return True
        if k == 'bin' and (x['op'] == '=' or x['op'].endswith('=') and x['op'] not in ('==', '!=', '<=', '>=')):
            return True
    return False


class _Builder:
    def __init__(self, fn):
        self.fn = fn
        self.g = CFG(fn)
        self.labels = {}
        self.gotos = []

    def line(self, n):
        return n['loc'][0] if 'loc' in n else 0

    # condition lowering ------------------------------------------------------------
    def cond(self, e, preds):
        """Lower condition e reached through dangling edges preds.
        Returns (true_dangling, false_dangling)."""
        k = e.get('k')
        if k == 'un' and e['op'] == '!':
            t, f = self.cond(e['e'], preds)
            return f, t
        if k == 'bin' and e['op'] == '&&':
            t1, f1 = self.cond(e['l'], preds)
            t2, f2 = self.cond(e['r'], t1)
            return t2, f1 + f2
        if k == 'bin' and e['op'] == '||':
            t1, f1 = self.cond(e['l'], preds)
            t2, f2 = self.cond(e['r'], f1)
            return t1 + t2, f2
        if k == 'cond':
            tc, fc = self.cond(e['c'], preds)
            ta, fa = self.cond(e['t'], tc)
            tb, fb = self.cond(e['e'], fc)
            return ta + tb, fa + fb
        if k == 'cast' and not has_side_effects(e):
            # (cJSON_bool)x as a condition is x as a condition when the cast is to an integer type
            pass
        v = const_val(e)
        if v is not None and not has_side_effects(e):
            n = self.g.new('nop', line=self.line(e), expr=None, name='const-cond')
            self.g.connect(preds, n)
            if v != 0:
                return [(n, None)], []
            return [], [(n, None)]
        preds, skip = self.lower_values(e, preds)
        n = self.g.new('branch', expr=e, line=self.line(e), skip=skip)
        self.g.connect(preds, n)
        return [(n, ('T', e))], [(n, ('F', e))]

    # value-context short-circuit expressions -----------------------------------------
    def _needs_lowering(self, e):
        """top-most `a && b`, `a || b`, `c ? x : y` sub-expressions whose later operands read memory or call."""
        out = []

        def impure(x):
            for y in walk(x):
                k = y.get('k')
                if k in ('call', 'idx'):
                    return True
                if k == 'un' and y['op'] in ('*', 'post++', 'post--', 'pre++', 'pre--'):
                    return True
                if k == 'mem' and y.get('arrow'):
                    return True
                if k == 'bin' and y['op'] in ('=', '+=', '-=', '*=', '/=', '|=', '&=', '^=', '<<=', '>>=', '%='):
                    return True
            return False

        def visit(x):
            k = x.get('k')
            if k == 'bin' and x['op'] in ('&&', '||') and impure(x['r']):
                out.append(x)
                return
            if k == 'cond' and (impure(x['t']) or impure(x['e'])):
                # only lowered when both arms are themselves conditions-free values we can evaluate as statements
                out.append(x)
                return
            from .facts import children
            for c in children(x):
                if c.get('k') in ('compound', 'if', 'while', 'do', 'for', 'switch'):
                    continue
                visit(c)
        visit(e)
        return out

    def lower_values(self, e, preds):
        """Evaluate the short-circuit sub-expressions of e through branch nodes; returns (preds', skip ids)."""
        skip = set()
        for sub in self._needs_lowering(e):
            if sub.get('k') == 'cond':
                t, f = self.cond(sub['c'], preds)
                ta = self.g.new('stmt', expr=sub['t'], line=self.line(sub['t']), name='cond-arm:%d' % sub['id'])
                self.g.connect(t, ta)
                fa = self.g.new('stmt', expr=sub['e'], line=self.line(sub['e']), name='cond-arm:%d' % sub['id'])
                self.g.connect(f, fa)
                j = self.g.new('nop', line=self.line(sub), name='value-join')
                self.g.edge(ta, j)
                self.g.edge(fa, j)
            else:
                t, f = self.cond(sub, preds)
                j = self.g.new('nop', line=self.line(sub), name='value-join')
                self.g.connect(t + f, j)
            preds = [(j, None)]
            skip.add(sub['id'])
        return preds, frozenset(skip)

    # statements -------------------------------------------------------------------
    def stmt(self, s, preds, ctx):
        """Returns dangling exits."""
        g = self.g
        k = s.get('k')
        if k == 'compound':
            for c in s['body']:
                preds = self.stmt(c, preds, ctx)
            return preds
        if k == 'decl':
            for d in s['decls']:
                skip = frozenset()
                if 'init' in d:
                    preds, skip = self.lower_values(d['init'], preds)
                n = g.new('decl', decl=d, line=d['loc'][0], stmt=s, skip=skip)
                g.connect(preds, n)
                preds = [(n, None)]
            return preds
        if k == 'if':
            t, f = self.cond(s['c'], preds)
            out = self.stmt(s['t'], t, ctx)
            if 'e' in s:
                out = out + self.stmt(s['e'], f, ctx)
            else:
                out = out + f
            return out
        if k == 'while':
            head = g.new('nop', line=self.line(s), name='loop-head', stmt=s)
            g.connect(preds, head)
            t, f = self.cond(s['c'], [(head, None)])
            brk = []
            c2 = dict(ctx, brk=brk, cont=head)
            out = self.stmt(s['body'], t, c2)
            g.connect(out, head)
            return f + brk
        if k == 'do':
            head = g.new('nop', line=self.line(s), name='loop-head', stmt=s)
            g.connect(preds, head)
            condj = g.new('nop', line=self.line(s['c']), name='do-cond')
            brk = []
            c2 = dict(ctx, brk=brk, cont=condj)
            out = self.stmt(s['body'], [(head, None)], c2)
            g.connect(out, condj)
            t, f = self.cond(s['c'], [(condj, None)])
            g.connect(t, head)
            return f + brk
        if k == 'for':
            if 'init' in s:
                preds = self.stmt(s['init'], preds, ctx)
            head = g.new('nop', line=self.line(s), name='loop-head', stmt=s)
            g.connect(preds, head)
            if 'c' in s:
                t, f = self.cond(s['c'], [(head, None)])
            else:
                t, f = [(head, None)], []
            incj = g.new('nop', line=self.line(s), name='for-inc')
            brk = []
            c2 = dict(ctx, brk=brk, cont=incj)
            out = self.stmt(s['body'], t, c2)
            g.connect(out, incj)
            tail = [(incj, None)]
            if 'inc' in s:
                tail = self.stmt(s['inc'], tail, ctx)
            g.connect(tail, head)
            return f + brk
        if k == 'switch':
            sw = g.new('switch', expr=s['c'], line=self.line(s), stmt=s)
            g.connect(preds, sw)
            brk = []
            swctx = {'node': sw, 'cases': [], 'default': None}
            c2 = dict(ctx, brk=brk, sw=swctx)
            out = self.stmt(s['body'], [], c2)
            vals = [v for (v, _n) in swctx['cases']]
            for (v, n) in swctx['cases']:
                g.edge(sw, n, ('case', s['c'], v))
            if swctx['default'] is not None:
                g.edge(sw, swctx['default'], ('default', s['c'], vals))
                return out + brk
            return out + brk + [(sw, ('default', s['c'], vals))]
        if k == 'case':
            n = g.new('nop', line=self.line(s), name='case')
            g.connect(preds, n)
            v = const_val(s['v'])
            if v is None or 'vhi' in s:
                raise AnalysisBroken('%s: non-constant or range case label' % self.fn.where(s))
            if 'sw' not in ctx:
                raise AnalysisBroken('%s: case outside switch' % self.fn.where(s))
            ctx['sw']['cases'].append((v, n))
            if 'sub' in s:
                return self.stmt(s['sub'], [(n, None)], ctx)
            return [(n, None)]
        if k == 'default':
            n = g.new('nop', line=self.line(s), name='default')
            g.connect(preds, n)
            ctx['sw']['default'] = n
            if 'sub' in s:
                return self.stmt(s['sub'], [(n, None)], ctx)
            return [(n, None)]
        if k == 'break':
            ctx['brk'].extend(preds)
            return []
        if k == 'continue':
            g.connect(preds, ctx['cont'])
            return []
        if k == 'return':
            skip = frozenset()
            if 'e' in s:
                preds, skip = self.lower_values(s['e'], preds)
            n = g.new('return', expr=s.get('e'), line=self.line(s), stmt=s, skip=skip)
            g.connect(preds, n)
            g.edge(n, g.exit)
            return []
        if k == 'goto':
            n = g.new('nop', line=self.line(s), name='goto ' + s['label'], stmt=s)
            g.connect(preds, n)
            self.gotos.append((n, s['label']))
            return []
        if k == 'label':
            n = g.new('nop', line=self.line(s), name='label ' + s['label'], stmt=s)
            g.connect(preds, n)
            self.labels[s['label']] = n
            return self.stmt(s['sub'], [(n, None)], ctx)
        if k == 'null':
            return preds
        if k in ('unknownstmt',):
            raise AnalysisBroken('%s: statement kind %s not understood' % (self.fn.where(s), s.get('cls')))
        # expression statement
        e = s
        if e.get('k') == 'cast' and self._is_void_cast(e):
            e = e['e']
        if e.get('k') == 'bin' and e['op'] == ',':
            preds = self.stmt(e['l'], preds, ctx)
            return self.stmt(e['r'], preds, ctx)
        preds, skip = self.lower_values(e, preds)
        n = g.new('stmt', expr=e, line=self.line(e), stmt=s, skip=skip)
        g.connect(preds, n)
        return [(n, None)]

    def _is_void_cast(self, e):
        return self.fn.unit.ty(e)['c'] == 'void'

    def build(self):
        g = self.g
        ctx = {'brk': None, 'cont': None}
        out = self.stmt(self.fn.body, [(g.entry, None)], ctx)
        g.connect(out, g.exit)
        for (n, label) in self.gotos:
            if label not in self.labels:
                raise AnalysisBroken('%s: goto to unknown label %s' % (self.fn.name, label))
            g.edge(n, self.labels[label])
        return g


def build(fn):
    g = _Builder(fn).build()
    if fn.raw.get('inlined'):
        _thread_constant_flags(g)
    return g


def _thread_constant_flags(g):
    """Jump threading for the result flags that inlining a helper introduces (cjsa/specialize.py):

        flag = 0; goto end;  ...  end: ;  if (flag) ...

    A node that assigns a constant to a local and is followed, through nothing but jumps and labels, by a branch on that local
    continues on the edge the constant selects.  The program is unchanged; the paths `flag = 0` / `flag is true` that the
    flow-insensitive rules would otherwise follow do not exist."""
    from .facts import strip_casts as sc, const_val as cv
    changed = False
    for a in g.nodes:
        if a.kind != 'stmt' or a.expr is None:
            continue
        e = a.expr
        if e.get('k') != 'bin' or e.get('op') != '=':
            continue
        l = sc(e['l'])
        c = cv(e['r'])
        if c is None:
            r0 = sc(e['r'])
            if e['r'].get('null') or r0.get('null'):
                c = 0
            elif r0.get('k') == 'str' or (r0.get('k') == 'un' and r0.get('op') == '&') or \
                    (r0.get('k') == 'ref' and r0.get('dk') == 'local' and g.fn.unit.ty(r0.get('ty0', r0['ty']))['c'] == 'array'):
                c = 1       # the address of an object is not NULL
        if c is None and l.get('k') == 'ref':
            # t = v where v is a local that the straight-line code leading here has just tested to be non-NULL
            r0 = sc(e['r'])
            if r0.get('k') == 'ref' and r0.get('dk') in ('local', 'param'):
                x = a.id
                for _hop in range(40):
                    ps = g.pred[x]
                    if len(ps) != 1:
                        break
                    (pid, lab) = ps[0]
                    pn = g.nodes[pid]
                    if pn.kind == 'branch' and lab is not None and pn.expr is not None:
                        be0 = sc(pn.expr)
                        nonnull = None
                        if be0.get('k') == 'ref' and be0.get('d') == r0.get('d'):
                            nonnull = (lab[0] == 'T')
                        elif be0.get('k') == 'bin' and be0.get('op') in ('==', '!='):
                            xx, yy = sc(be0['l']), sc(be0['r'])
                            other = None
                            if xx.get('k') == 'ref' and xx.get('d') == r0.get('d'):
                                other = be0['r']
                            elif yy.get('k') == 'ref' and yy.get('d') == r0.get('d'):
                                other = be0['l']
                            if other is not None and (other.get('null') or sc(other).get('null') or cv(other) == 0):
                                nonnull = ((be0['op'] == '!=') == (lab[0] == 'T'))
                        if nonnull:
                            c = 1
                        if nonnull is not None:
                            break
                    if pn.kind in ('stmt', 'decl') and pn.expr is not None:
                        pe = pn.expr
                        if pe.get('k') == 'bin' and pe.get('op') == '=' and sc(pe['l']).get('k') == 'ref' and sc(pe['l']).get('d') == r0.get('d'):
                            break
                    x = pid
        if l.get('k') != 'ref' or l.get('dk') != 'local' or c is None or len(g.succ[a.id]) != 1:
            continue
        cur = g.succ[a.id][0][0]
        hops = 0
        while g.nodes[cur].kind == 'nop' and len(g.succ[cur]) == 1 and hops < 50:
            cur = g.succ[cur][0][0]
            hops += 1
        b = g.nodes[cur]
        if b.kind != 'branch' or b.expr is None:
            continue
        be = sc(b.expr)
        want_true = None
        if be.get('k') == 'ref' and be.get('d') == l.get('d'):
            want_true = (c != 0)
        elif be.get('k') == 'bin' and be.get('op') in ('==', '!='):
            x, y = sc(be['l']), sc(be['r'])
            def kv(n_):
                return 0 if (n_.get('null') or sc(n_).get('null')) else cv(n_)
            k0 = kv(be['r']) if x.get('k') == 'ref' and x.get('d') == l.get('d') else (kv(be['l']) if y.get('k') == 'ref' and y.get('d') == l.get('d') else None)
            if k0 == 0:
                want_true = ((c == 0) == (be['op'] == '=='))
            elif k0 is not None and cv(e['r']) is not None:
                want_true = ((c == k0) == (be['op'] == '=='))
        if want_true is None:
            continue
        targets = [(y, lab) for (y, lab) in g.succ[b.id] if lab is not None and lab[0] == ('T' if want_true else 'F')]
        if len(targets) != 1:
            continue
        old = g.succ[a.id][0]
        g.succ[a.id] = [(targets[0][0], None)]
        g.pred[old[0]] = [(p_, lab) for (p_, lab) in g.pred[old[0]] if p_ != a.id]
        g.pred[targets[0][0]].append((a.id, None))
        changed = True
    if changed:
        # what can no longer be reached (the test of a flag every definition of which went straight to its edge) is not code
        live = g.reachable(g.entry.id) | {g.entry.id, g.exit.id}
        for n in g.nodes:
            if n.id in live:
                continue
            for (y, _lab) in g.succ[n.id]:
                g.pred[y] = [(p_, lab) for (p_, lab) in g.pred[y] if p_ != n.id]
            g.succ[n.id] = []
            g.pred[n.id] = []
            n.kind = 'nop'
            n.name = 'dead'
            n.expr = None
