"""Helpers shared by the rule modules."""
from ..facts import (AnalysisBroken, walk, children, strip_casts, expr_str, is_null_const, const_val, ASSIGN_OPS,
                     CMP_OPS, callee_name)


def stmts_of_kind(fn, kind):
    return [n for n in fn.nodes() if n.get('k') == kind]


def assignments(fn):
    return [n for n in fn.nodes() if n.get('k') == 'bin' and n['op'] in ASSIGN_OPS]


def is_ref(e, name=None, dk=None):
    e = strip_casts(e)
    if e.get('k') != 'ref':
        return False
    if name is not None and e['n'] != name:
        return False
    if dk is not None and e.get('dk') != dk:
        return False
    return True


def is_mem(e, field=None):
    e = strip_casts(e)
    return e.get('k') == 'mem' and (field is None or e['f'] == field)


def region_without_edges(cfg, drop):
    """Nodes reachable from entry when edges for which drop(src_node, label) is true are removed."""
    seen = {cfg.entry.id}
    work = [cfg.entry.id]
    while work:
        x = work.pop()
        for (y, l) in cfg.succ[x]:
            if drop(cfg.nodes[x], l):
                continue
            if y not in seen:
                seen.add(y)
                work.append(y)
    return seen


def guarded_by(cfg, node_id, pred):
    """True when node_id can only be reached through an edge (n, label) with pred(n, label) true,
    i.e. it becomes unreachable once those edges are removed."""
    return node_id not in region_without_edges(cfg, pred)


def branch_is(n, label, test, polarity):
    """Edge out of branch node n with the given polarity whose atomic condition satisfies test(expr)."""
    return n.kind == 'branch' and label is not None and label[0] == polarity and test(strip_casts(n.expr))


def cmp_parts(e):
    """For a comparison with a constant on one side: (other_expr, op_as_if_const_on_right, const) else None."""
    e = strip_casts(e)
    if e.get('k') != 'bin' or e['op'] not in CMP_OPS:
        return None
    l, r = e['l'], e['r']
    lv, rv = const_val(l), const_val(r)
    flip = {'<': '>', '>': '<', '<=': '>=', '>=': '<=', '==': '==', '!=': '!='}
    if rv is not None and lv is None:
        return (strip_casts(l), e['op'], rv)
    if lv is not None and rv is None:
        return (strip_casts(r), flip[e['op']], lv)
    return None


def node_containing(cfg, expr):
    n = cfg.node_of_expr(expr['id'])
    if n is None:
        raise AnalysisBroken('%s: expression %s not placed in the CFG' % (cfg.fn.where(expr), expr_str(expr)[:60]))
    return n


def param_index(fn, name):
    for i, p in enumerate(fn.params):
        if p['n'] == name:
            return i
    return None


def all_functions(units):
    for u in units.values():
        for fn in u.function_list:
            yield u, fn


def find_function(units, name):
    for u in units.values():
        if name in u.functions:
            return u, u.functions[name]
    raise AnalysisBroken('anchor function %s not found' % name)


def enclosing_stmt(fn, node, kinds):
    par = fn.parents()
    p = par.get(node['id'])
    while p is not None:
        if p.get('k') in kinds:
            return p
        p = par.get(p['id'])
    return None


def subst_params(e, sub):
    """Copy of expression e with references to the parameters in `sub` (decl id -> argument expression node) replaced by
    the argument; `*p` with an argument `&x` becomes x."""
    e0 = e
    e = strip_casts(e)
    k = e.get('k')
    if k == 'un' and e['op'] == '*':
        inner = strip_casts(e['e'])
        if inner.get('k') == 'ref' and inner.get('d') in sub:
            a = strip_casts(sub[inner['d']])
            if a.get('k') == 'un' and a['op'] == '&':
                return strip_casts(a['e'])
    if k == 'ref' and e.get('d') in sub:
        return strip_casts(sub[e['d']])
    out = dict(e)
    for f in ('b', 'e', 'l', 'r', 'c', 't', 'i', 'fn'):
        if f in e and isinstance(e[f], dict):
            out[f] = subst_params(e[f], sub)
    if 'args' in e:
        out['args'] = [subst_params(a, sub) for a in e['args']]
    return out


def assignment_pairs(u, fn, with_helpers=True):
    """[(lhs_str, rhs_str, node, via)] for every plain assignment of fn (chained assignments expanded, NULL spelled
    'NULL'), plus - one level deep - the assignments of static helpers it calls, rewritten in terms of the arguments."""
    out = []

    def add(a, sub, via):
        if a['op'] != '=':
            return
        r0 = strip_casts(a['r'])
        while r0.get('k') == 'bin' and r0['op'] == '=':
            r0 = strip_casts(r0['r'])
        l = strip_casts(a['l'])
        if sub:
            l = subst_params(l, sub)
            r0 = subst_params(r0, sub)
        rs = 'NULL' if is_null_const(r0) or r0.get('null') else expr_str(r0)
        out.append((expr_str(l), rs, a, via))
    for a in assignments(fn):
        add(a, None, None)
    if with_helpers:
        for c in fn.calls():
            cn = callee_name(c)
            h = u.functions.get(cn)
            if h is None or not h.static or h.name == fn.name or len(h.nodes()) > 400:
                continue
            sub = {p['d']: arg for p, arg in zip(h.params, c['args'])}
            for a in assignments(h):
                add(a, sub, c)
    return out


# ---- feasible-path search with remembered branch outcomes --------------------------------------------------------------

def _cond_key(e):
    """(text of the tested value, negated?) with NULL/zero comparisons normalised: x == NULL, !x -> (x, True)"""
    e = strip_casts(e)
    neg = False
    while e.get('k') == 'un' and e['op'] == '!':
        e = strip_casts(e['e'])
        neg = not neg
    if e.get('k') == 'bin' and e['op'] in ('==', '!='):
        for (a, b) in ((e['l'], e['r']), (e['r'], e['l'])):
            if is_null_const(b) or const_val(b) == 0:
                return expr_str(strip_casts(a)), (e['op'] == '==') != neg
    return expr_str(e), neg


def _mentions(cond, name):
    import re
    return re.search(r'(?<![A-Za-z0-9_>.])' + re.escape(name) + r'(?![A-Za-z0-9_])', cond) is not None


def feasibly_reaches(cfg, fn, target, barrier):
    """Is `target` reachable from the entry on a path that never takes an edge for which barrier(node, label) is true and whose
    branch outcomes do not contradict each other (the same value tested again with no store to it in between has the same
    truth)?  A purely syntactic notion of feasibility: it only removes paths, so "not reachable" is sound to rely on when the
    plain graph says reachable only because of such correlated tests."""
    from ..dataflow import node_effects
    work = [(cfg.entry.id, frozenset())]
    seen = set()
    steps = 0
    while work:
        nid, facts = work.pop()
        if (nid, facts) in seen:
            continue
        seen.add((nid, facts))
        steps += 1
        if steps > 100000:
            raise AnalysisBroken('path search in %s does not finish' % fn.name)
        if nid == target:
            return True
        node = cfg.nodes[nid]
        fd = dict(facts)
        changed = set()
        for ev in node_effects(node):
            if ev.kind in ('store', 'incdec') and ev.lhs is not None:
                changed.add(expr_str(strip_casts(ev.lhs)))
            if ev.kind == 'declinit':
                changed.add(ev.lhs.get('n'))
            if ev.kind == 'call':
                changed.add('(')
        for k in list(fd):
            if any(ch == k or (ch != '(' and _mentions(k, ch)) or (ch == '(' and ('(' in k or '->' in k or '[' in k or '*' in k)) for ch in changed):
                del fd[k]
        for (y, label) in cfg.succ[nid]:
            if barrier(node, label):
                continue
            f2 = dict(fd)
            if label is not None and label[0] in ('T', 'F') and node.kind == 'branch':
                k, neg = _cond_key(label[1])
                val = (label[0] == 'T') != neg
                if k in f2 and f2[k] != val:
                    continue
                f2[k] = val
            work.append((y, frozenset(f2.items())))
    return False


# ---- locals that cache a field ---------------------------------------------------------------------------------------

def field_cache(u, fn, field=None):
    """{decl id: X->f expression} for locals with exactly one definition that is not a constant, that definition being a plain read
    X->f of a parameter or never-reassigned local X, in a function that never stores to ->f of anything (so the cached value is
    what a later read of X->f would give).  `int type = cJSON_Invalid; ... type = item->type;` qualifies."""
    # stores to the same field through the same base variable (a store through another pointer is a store to another object as
    # far as the users of this helper are concerned: the copy under construction, a fresh node)
    stored = {(expr_str(strip_casts(strip_casts(a['l'])['b'])), strip_casts(a['l'])['f']) for a in fn.nodes()
              if a.get('k') == 'bin' and a.get('op') in ASSIGN_OPS and strip_casts(a['l']).get('k') == 'mem'}
    stored |= {(expr_str(strip_casts(strip_casts(x['e'])['b'])), strip_casts(x['e'])['f']) for x in fn.nodes()
               if x.get('k') == 'un' and x.get('op') in ('post++', 'post--', 'pre++', 'pre--') and strip_casts(x['e']).get('k') == 'mem'}
    out = {}
    for d in fn.locals():
        defs = []
        if 'init' in d and const_val(d['init']) is None and not d['init'].get('null'):
            defs.append(d['init'])
        ok = True
        for a in fn.nodes():
            if a.get('k') == 'bin' and a.get('op') in ASSIGN_OPS and strip_casts(a['l']).get('k') == 'ref' and strip_casts(a['l'])['d'] == d['d']:
                if a['op'] != '=':
                    ok = False
                defs.append(a['r'])
            if a.get('k') == 'un' and a.get('op') in ('post++', 'post--', 'pre++', 'pre--', '&') and strip_casts(a['e']).get('k') == 'ref' and \
                    strip_casts(a['e'])['d'] == d['d']:
                ok = False
        if not ok or len(defs) != 1:
            continue
        r = strip_casts(defs[0])
        if r.get('k') != 'mem' or not r.get('arrow') or (field is not None and r['f'] != field) or \
                (expr_str(strip_casts(r['b'])), r['f']) in stored:
            continue
        b = strip_casts(r['b'])
        if b.get('k') != 'ref' or b.get('dk') not in ('param', 'local'):
            continue
        out[d['d']] = r
    return out


def expand_cached(e, cache):
    """e with references to field-caching locals replaced by the field reads they stand for (a shallow copy; ids of the replaced
    nodes are those of the reads)"""
    if isinstance(e, list):
        return [expand_cached(x, cache) for x in e]
    if not isinstance(e, dict):
        return e
    if e.get('k') == 'ref' and e.get('d') in cache:
        m = dict(cache[e['d']])
        m['ty'] = e.get('ty', m.get('ty'))
        return m
    return {k: expand_cached(v, cache) for k, v in e.items()}
