"""Helpers shared by the rule modules."""
from ..facts import (AnalysisBroken, walk, children, strip_casts, expr_str, is_null_const, const_val, ASSIGN_OPS,
                     CMP_OPS, callee_name)


def stmts_of_kind(fn, kind):
    return [n for n in fn.nodes() if n.get('k') == kind]


def assignments(fn):
    return [n for n in fn.nodes() if n.get('k') == 'bin' and n['op'] in ASSIGN_OPS]


def is_ref(e, name=None, dk=None):
    e = strip_casts(e)
    if e.get('k') != 'ref':
        return False
    if name is not None and e['n'] != name:
        return False
    if dk is not None and e.get('dk') != dk:
        return False
    return True


def is_mem(e, field=None):
    e = strip_casts(e)
    return e.get('k') == 'mem' and (field is None or e['f'] == field)


def region_without_edges(cfg, drop):
    """Nodes reachable from entry when edges for which drop(src_node, label) is true are removed."""
    seen = {cfg.entry.id}
    work = [cfg.entry.id]
    while work:
        x = work.pop()
        for (y, l) in cfg.succ[x]:
            if drop(cfg.nodes[x], l):
                continue
            if y not in seen:
                seen.add(y)
                work.append(y)
    return seen


def guarded_by(cfg, node_id, pred):
    """True when node_id can only be reached through an edge (n, label) with pred(n, label) true,
    i.e. it becomes unreachable once those edges are removed."""
    return node_id not in region_without_edges(cfg, pred)


def branch_is(n, label, test, polarity):
    """Edge out of branch node n with the given polarity whose atomic condition satisfies test(expr)."""
    return n.kind == 'branch' and label is not None and label[0] == polarity and test(strip_casts(n.expr))


def cmp_parts(e):
    """For a comparison with a constant on one side: (other_expr, op_as_if_const_on_right, const) else None."""
    e = strip_casts(e)
    if e.get('k') != 'bin' or e['op'] not in CMP_OPS:
        return None
    l, r = e['l'], e['r']
    lv, rv = const_val(l), const_val(r)
    flip = {'<': '>', '>': '<', '<=': '>=', '>=': '<=', '==': '==', '!=': '!='}
    if rv is not None and lv is None:
        return (strip_casts(l), e['op'], rv)
    if lv is not None and rv is None:
        return (strip_casts(r), flip[e['op']], lv)
    return None


def node_containing(cfg, expr):
    n = cfg.node_of_expr(expr['id'])
    if n is None:
        raise AnalysisBroken('%s: expression %s not placed in the CFG' % (cfg.fn.where(expr), expr_str(expr)[:60]))
    return n


def param_index(fn, name):
    for i, p in enumerate(fn.params):
        if p['n'] == name:
            return i
    return None


def all_functions(units):
    for u in units.values():
        for fn in u.function_list:
            yield u, fn


def find_function(units, name):
    for u in units.values():
        if name in u.functions:
            return u, u.functions[name]
    raise AnalysisBroken('anchor function %s not found' % name)


def enclosing_stmt(fn, node, kinds):
    par = fn.parents()
    p = par.get(node['id'])
    while p is not None:
        if p.get('k') in kinds:
            return p
        p = par.get(p['id'])
    return None


def subst_params(e, sub):
    """Copy of expression e with references to the parameters in `sub` (decl id -> argument expression node) replaced by
    the argument; `*p` with an argument `&x` becomes x."""
    e0 = e
    e = strip_casts(e)
    k = e.get('k')
    if k == 'un' and e['op'] == '*':
        inner = strip_casts(e['e'])
        if inner.get('k') == 'ref' and inner.get('d') in sub:
            a = strip_casts(sub[inner['d']])
            if a.get('k') == 'un' and a['op'] == '&':
                return strip_casts(a['e'])
    if k == 'ref' and e.get('d') in sub:
        return strip_casts(sub[e['d']])
    out = dict(e)
    for f in ('b', 'e', 'l', 'r', 'c', 't', 'i', 'fn'):
        if f in e and isinstance(e[f], dict):
            out[f] = subst_params(e[f], sub)
    if 'args' in e:
        out['args'] = [subst_params(a, sub) for a in e['args']]
    return out


def assignment_pairs(u, fn, with_helpers=True):
    """[(lhs_str, rhs_str, node, via)] for every plain assignment of fn (chained assignments expanded, NULL spelled
    'NULL'), plus - one level deep - the assignments of static helpers it calls, rewritten in terms of the arguments."""
    out = []

    def add(a, sub, via):
        if a['op'] != '=':
            return
        r0 = strip_casts(a['r'])
        while r0.get('k') == 'bin' and r0['op'] == '=':
            r0 = strip_casts(r0['r'])
        l = strip_casts(a['l'])
        if sub:
            l = subst_params(l, sub)
            r0 = subst_params(r0, sub)
        rs = 'NULL' if is_null_const(r0) or r0.get('null') else expr_str(r0)
        out.append((expr_str(l), rs, a, via))
    for a in assignments(fn):
        add(a, None, None)
    if with_helpers:
        for c in fn.calls():
            cn = callee_name(c)
            h = u.functions.get(cn)
            if h is None or not h.static or h.name == fn.name or len(h.nodes()) > 400:
                continue
            sub = {p['d']: arg for p, arg in zip(h.params, c['args'])}
            for a in assignments(h):
                add(a, sub, c)
    return out
