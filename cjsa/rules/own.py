"""OWN rules: allocation typestate (DESIGN.md section 3, OWN1-OWN7).

Engine (OWN1/2/3/4a): forward analysis over disjunctive states.  A simple state maps tracked variables (locals,
fields of local aggregates, fields of freshly allocated nodes) to abstract values

    ('null',)   ('tok', t)   ('nn',)  non-null, not ours   ('unk',)

and every token t (one per allocation site; 'cur' = the most recent instance, merged into a per-site group when the
site allocates again) to a status live / released / escaped plus an optional parent token (the object it was linked
into).  The state at a CFG node is a *set* of simple states, so `if (x != NULL) free(x)` and `goto fail` idioms are
followed exactly; sets are bounded (functions here are small) and exceeding the bound is analysis-broken, not a
verdict.  Calls to allocating functions split the state into the NULL outcome and the fresh-token outcome.

Obligations
  OWN1  a value that is NULL on some path is not dereferenced nor passed to a callee that dereferences it
  OWN2  at every return no live token is left without an owner that outlives the function
  OWN3  a token handed to a consume-on-success callee is released when the callee can fail at that site
  OWN4  no token is released twice, none is used after release; a released field of longer-lived memory is
        overwritten before the function returns (structural, own4_dangling)
  OWN5  releases of valuestring/child/string are guarded by the ownership bit describing that memory
  OWN6  a key parameter is not read after the item's own key was released
  OWN7  no release of / store into pre-existing trees before an allocation that can still fail
"""
from ..facts import (AnalysisBroken, walk, strip_casts, expr_str, is_null_const, const_val, ASSIGN_OPS, CMP_OPS,
                     callee_name, indirect_field)
from ..dataflow import node_effects
from .common import (all_functions, assignments, is_ref, is_mem, cmp_parts, guarded_by, node_containing, find_function,
                     region_without_edges, field_cache, expand_cached)

NULL = ('null',)
NN = ('nn',)
UNK = ('unk',)
MAX_STATES = 400

# ---- summaries (frozen tables; each entry is checked against the callee body by verify_summaries) ----------------------
# callee -> (index of the parameter whose ownership is taken when the call returns non-zero,
#            indices whose NULL-ness makes the call fail, pair that must differ, may fail on its own allocation)
CONSUME_ON_SUCCESS = {
    'add_item_to_array': {'takes': 1, 'null': (0, 1), 'differ': (0, 1), 'alloc': None},
    'cJSON_AddItemToArray': {'takes': 1, 'null': (0, 1), 'differ': (0, 1), 'alloc': None},
    'add_item_to_object': {'takes': 2, 'null': (0, 1, 2), 'differ': (0, 2), 'alloc': ('unless_const', 4)},
    'cJSON_AddItemToObject': {'takes': 2, 'null': (0, 1, 2), 'differ': (0, 2), 'alloc': 'always'},
    'cJSON_AddItemToObjectCS': {'takes': 2, 'null': (0, 1, 2), 'differ': (0, 2), 'alloc': None},
    'cJSON_InsertItemInArray': {'takes': 2, 'null': (0, 2), 'differ': (0, 2), 'alloc': None, 'extra_fail': 'negative index / corrupted list'},
    'insert_item_in_array': {'takes': 2, 'null': (), 'differ': None, 'alloc': None, 'extra_fail': 'index beyond the end'},
    'cJSON_ReplaceItemViaPointer': {'takes': 2, 'null': (0, 1, 2), 'differ': None, 'alloc': None, 'extra_fail': 'empty parent'},
    'cJSON_ReplaceItemInArray': {'takes': 2, 'null': (0, 2), 'differ': None, 'alloc': None, 'extra_fail': 'index out of range'},
    'replace_item_in_object': {'takes': 2, 'null': (0, 1, 2), 'differ': None, 'alloc': 'always', 'extra_fail': 'missing key'},
    'cJSON_ReplaceItemInObject': {'takes': 2, 'null': (0, 1, 2), 'differ': None, 'alloc': 'always', 'extra_fail': 'missing key'},
    'cJSON_ReplaceItemInObjectCaseSensitive': {'takes': 2, 'null': (0, 1, 2), 'differ': None, 'alloc': 'always', 'extra_fail': 'missing key'},
}
# callee -> parameter released (deep = the whole subtree)
RELEASES = {'cJSON_Delete': (0, True), 'cJSON_free': (0, False)}
# callees that take ownership unconditionally and give back a result that is fresh-or-NULL
CONSUME_ALWAYS = {'merge_patch': 0, 'cJSONUtils_MergePatch': 0, 'cJSONUtils_MergePatchCaseSensitive': 0}
# results that transfer ownership of an existing node to the caller (may be NULL)
DETACHERS = {'cJSON_DetachItemViaPointer', 'cJSON_DetachItemFromArray', 'cJSON_DetachItemFromObject',
             'cJSON_DetachItemFromObjectCaseSensitive', 'detach_path', 'detach_item_from_array'}
# libc functions that dereference their pointer arguments unconditionally (argument indices)
LIBC_DEREF = {'strlen': (0,), 'strcpy': (0, 1), 'strcat': (0, 1), 'memcpy': (0, 1), 'memset': (0,), 'strcmp': (0, 1),
              'strncmp': (0, 1), 'sprintf': (0, 1), 'strrchr': (0,), 'strchr': (0,), 'sscanf': (0, 1), 'strtod': (0,)}


def fresh_functions(units):
    """Functions (by name, over both units) whose non-NULL result is a fresh allocation owned by the caller."""
    from .tree import _fresh_sources
    fresh = set()
    for _round in range(4):
        before = len(fresh)
        for u in units.values():
            fresh |= _fresh_sources(u, known=fresh | {'cJSON_malloc'})
        if len(fresh) == before:
            break
    # public creators of cJSON.c are visible to Utils by name; wrappers returning a fresh callee's result
    changed = True
    while changed:
        changed = False
        for u in units.values():
            for fn in u.function_list:
                if fn.name in fresh:
                    continue
                rets = [strip_casts(r['e']) for r in fn.nodes() if r.get('k') == 'return' and 'e' in r and not is_null_const(r['e'])]
                if rets and all(r.get('k') == 'call' and callee_name(r) in fresh for r in rets):
                    fresh.add(fn.name)
                    changed = True
    return fresh


class S:
    """One simple state (immutable by convention: copy before changing)."""
    __slots__ = ('vals', 'tok', 'par', 'hist')

    def __init__(self, vals=None, tok=None, par=None, hist=()):
        self.vals = vals or {}
        self.tok = tok or {}
        self.par = par or {}
        self.hist = hist

    def copy(self):
        return S(dict(self.vals), dict(self.tok), dict(self.par), self.hist)

    def key(self):
        return (tuple(sorted(self.vals.items(), key=repr)), tuple(sorted(self.tok.items(), key=repr)),
                tuple(sorted(self.par.items(), key=repr)))


class Finding:
    __slots__ = ('rule', 'node', 'what', 'detail', 'key', 'witness')

    def __init__(self, rule, node, what, detail, key, witness=None):
        self.rule = rule
        self.node = node
        self.what = what
        self.detail = detail
        self.key = key
        self.witness = witness


class OwnAnalyzer:
    _inl_cache = {}

    def __init__(self, units, u, fn, fresh, tolerant, alloc_may_fail=True):
        self.units = units
        self.u = u
        self.fn = fn
        self.fresh = fresh
        self.tolerant = tolerant          # (fn name, param index) -> True when a NULL argument is handled
        self.alloc_may_fail = alloc_may_fail
        self.cfg = fn.cfg()
        self.findings = {}
        self.sites = {}                   # tid -> call node
        self.checked = {'deref': 0, 'alloc': 0, 'ret': 0, 'consume': 0, 'release': 0}
        self.local_records = {}
        for d in fn.locals():
            t = u.ty(d['ty'])
            if t['c'] in ('record', 'array'):
                self.local_records[d['d']] = d['n']
        self.param_ids = {p['d'] for p in fn.params}
        assigned = set()
        for x in fn.nodes():
            if x.get('k') == 'bin' and x['op'] in ASSIGN_OPS and is_ref(x['l']):
                assigned.add(strip_casts(x['l'])['d'])
            if x.get('k') == 'un' and x['op'] == '&' and is_ref(x['e']):
                assigned.add(strip_casts(x['e'])['d'])
        self.unassigned_params = self.param_ids - assigned
        self.inlined = False
        self.depth = 0

    # ---- keys ----------------------------------------------------------------------------------------------
    def var_key(self, e):
        """Key of a trackable lvalue: local/param variable, field of a local aggregate, field of a token."""
        e = strip_casts(e)
        k = e.get('k')
        if k == 'ref' and e.get('dk') in ('local', 'param'):
            return ('v', e['d'])
        if k == 'mem':
            b = strip_casts(e['b'])
            if b.get('k') == 'un' and b['op'] == '&':
                b = strip_casts(b['e'])
            if b.get('k') == 'ref' and b['d'] in self.local_records:
                return ('lf', b['d'], e['f'])
            if b.get('k') == 'idx' and is_ref(b['b']) and strip_casts(b['b'])['d'] in self.local_records:
                return ('lf', strip_casts(b['b'])['d'], e['f'])
            return None
        return None

    def find(self, rule, node, what, detail, key, st=None):
        if rule == 'OWN2' and st is not None and any(' fails (' in h for h in st.hist):
            rule = 'OWN3'    # the block was handed to a consume-on-success callee whose failure is not handled
        fid = (rule, key)
        if fid not in self.findings:
            self.findings[fid] = Finding(rule, node, what, detail, key, list(st.hist[-8:]) if st is not None else None)

    # ---- token helpers ----------------------------------------------------------------------------------------
    def root_of(self, st, t):
        seen = set()
        while t in st.par and t not in seen:
            seen.add(t)
            t = st.par[t]
        return t

    def gc(self, st):
        """Forget tokens that can no longer matter: released/escaped ones nobody refers to, and live ones that hang
        under an escaped/released root and that no variable refers to."""
        refd = {v[1] for v in st.vals.values() if v[0] == 'tok'}
        drop = set()
        for t, status in st.tok.items():
            if t in refd:
                continue
            if status in ('released', 'escaped'):
                if not any(p == t and st.tok.get(c) == 'live' and c in refd for c, p in st.par.items()):
                    drop.add(t)
            elif status == 'live' and t in st.par:
                r = self.root_of(st, t)
                if r != t and st.tok.get(r) in ('escaped', 'released'):
                    drop.add(t)
            elif status == 'live' and t not in st.par:
                # nothing refers to a block that is still allocated: it can never be released
                self.find('OWN2', self.sites.get(t[1] if isinstance(t, tuple) else t),
                          'block from %s is still allocated but nothing refers to it any more' % self.site_desc(t),
                          'path: %s' % ' ; '.join(st.hist[-6:]), 'leak:%s' % self.site_key(t), st)
                drop.add(t)
        if not drop:
            return st
        st = st.copy()
        for t in drop:
            st.tok.pop(t, None)
            st.par.pop(t, None)
            for k in [k for k in st.vals if k[0] == 'tf' and k[1] == t]:
                del st.vals[k]
        for c, p in list(st.par.items()):
            if p in drop:
                # the parent was escaped/released: the child shares its fate
                if st.tok.get(c) == 'live':
                    st.tok[c] = 'escaped'
                del st.par[c]
        return st

    def under(self, st, t, anc):
        seen = set()
        while t in st.par and t not in seen:
            seen.add(t)
            t = st.par[t]
            if t == anc:
                return True
        return False

    def release(self, st, t, deep, node):
        if st.tok.get(t) == 'released':
            self.find('OWN4', node, 'block from %s released twice' % self.site_desc(t), 'already released on this path',
                      'double:%s' % self.site_key(t), st)
            return
        if st.tok.get(t) == 'escaped' and ('esc', t) in st.vals:
            _k, where, line = st.vals[('esc', t)]
            self.find('OWN4', node, 'block from %s is released while %s still points at it' % (self.site_desc(t), where),
                      'it was stored there at line %d and that place has not been stored to since: its owner will release or '
                      'use the block again' % line, 'handed-then-released:%s' % self.site_key(t), st)
            del st.vals[('esc', t)]
        st.tok[t] = 'released'
        if deep:
            for c, p in list(st.par.items()):
                if p == t and st.tok.get(c) == 'live':
                    self.release(st, c, True, node)
        else:
            # children of a shallowly released node lose their parent: they must be owned otherwise
            for c, p in list(st.par.items()):
                if p == t:
                    del st.par[c]

    def escape(self, st, t):
        if st.tok.get(t) == 'live':
            st.tok[t] = 'escaped'

    def site_desc(self, t):
        n = self.sites.get(t[1] if isinstance(t, tuple) else t)
        if n is None:
            return str(t)
        return '%s (line %d)' % (expr_str(n)[:40], n['loc'][0])

    def site_key(self, t):
        n = self.sites.get(t[1] if isinstance(t, tuple) else t)
        return expr_str(n)[:50] if n is not None else str(t)

    def int_value(self, e, st, depth=0):
        """value of an integer expression built from constants, locals with a known constant value, NULL tests of locals whose
        NULL-ness is known, ?:, | & + - and lookups in constant tables of the unit (no memory is read, nothing is called); else None"""
        if depth > 12:
            return None
        e = strip_casts(e)
        c = const_val(e)
        if c is not None:
            return c
        k = e.get('k')
        if k == 'ref' and e.get('dk') in ('local', 'param'):
            v = st.vals.get(('v', e['d']), UNK)
            return v[1] if v[0] == 'int' else None
        if k == 'bin' and e['op'] in ('==', '!=') and (is_null_const(e['l']) or is_null_const(e['r'])):
            o = strip_casts(e['l'] if is_null_const(e['r']) else e['r'])
            if o.get('k') == 'ref' and o.get('dk') in ('local', 'param'):
                v = st.vals.get(('v', o['d']), UNK)
                if v == NULL:
                    return int(e['op'] == '==')
                if v == NN or v[0] == 'tok':
                    return int(e['op'] == '!=')
            return None
        if k == 'cond':
            cv = self.int_value(e['c'], st, depth + 1)
            if cv is None:
                return None
            return self.int_value(e['t'] if cv else e['e'], st, depth + 1)
        if k == 'bin' and e['op'] in ('|', '&', '+', '-'):
            l, r = self.int_value(e['l'], st, depth + 1), self.int_value(e['r'], st, depth + 1)
            if l is None or r is None:
                return None
            return {'|': l | r, '&': l & r, '+': l + r, '-': l - r}[e['op']]
        if k == 'idx' and strip_casts(e['b']).get('k') == 'ref' and strip_casts(e['b']).get('dk') not in ('local', 'param'):
            from .parse import _const_table
            tb = _const_table(self.u, strip_casts(e['b']))
            i = self.int_value(e['i'], st, depth + 1)
            if tb is not None and i is not None and 0 <= i < len(tb):
                return tb[i]
        return None

    # ---- expression evaluation: returns list of (state, value) ---------------------------------------------------
    def eval(self, e, st, node):
        e0 = e
        e = strip_casts(e)
        k = e.get('k')
        if e.get('id') in node.skip:
            v = st.vals.get(('cond', e['id']), UNK)
            return [(st, v)]
        if k in ('cond', 'bin', 'idx') and 'ty' in e0 and self.u.ty(e0['ty'])['c'] == 'int' and const_val(e0) is None:
            iv_ = self.int_value(e, st)
            if iv_ is not None:
                return [(st, ('int', iv_))]
        if self.u.ty(e0['ty'])['c'] == 'int' and const_val(e0) is not None and k != 'ref':
            return [(st, ('int', const_val(e0)))]
        if is_null_const(e0):
            return [(st, NULL)]
        if k in ('int', 'char', 'float', 'sizeof'):
            return [(st, NN if const_val(e) not in (0, None) else UNK)]
        if k == 'str':
            return [(st, NN)]
        if k == 'ref':
            if e.get('dk') in ('local', 'param'):
                key = ('v', e['d'])
                if key in st.vals:
                    return [(st, st.vals[key])]
                if e['d'] in self.local_records:
                    return [(st, NN)]
                return [(st, UNK)]
            if e.get('dk') == 'fn':
                return [(st, NN)]
            return [(st, UNK)]
        if k == 'mem':
            key = self.var_key(e)
            if key is not None:
                return [(st, st.vals.get(key, UNK))]
            outs = []
            for (s2, bv) in self.eval(e['b'], st, node):
                if e['arrow']:
                    s2 = self.deref(s2, bv, e, node)
                    if s2 is None:
                        continue
                if bv[0] == 'tok':
                    outs.append((s2, s2.vals.get(('tf', bv[1], e['f']), UNK)))
                else:
                    outs.append((s2, UNK))
            return outs
        if k == 'un':
            op = e['op']
            if op == '&':
                inner = strip_casts(e['e'])
                if inner.get('k') == 'ref' and inner['d'] in self.local_records:
                    return [(st, ('addr', inner['d']))]
                if inner.get('k') == 'ref' and inner.get('dk') in ('local', 'param'):
                    return [(st, ('addrv', inner['d']))]
                if inner.get('k') == 'mem':
                    outs = []
                    for (s2, bv) in self.eval(inner['b'], st, node):
                        outs.append((s2, NN))
                    return outs
                return [(st, NN)]
            if op == '*':
                outs = []
                for (s2, bv) in self.eval(e['e'], st, node):
                    if bv[0] == 'ptrto':
                        outs.append((s2, s2.vals.get(bv[1], UNK)))
                        continue
                    s2 = self.deref(s2, bv, e, node)
                    if s2 is not None:
                        outs.append((s2, ('deref', bv) if bv[0] == 'tok' else UNK))
                return outs
            if op in ('post++', 'post--', 'pre++', 'pre--'):
                key = self.var_key(e['e'])
                outs = []
                for (s2, v) in self.eval(e['e'], st, node):
                    if key is not None and key in s2.vals:
                        s2 = s2.copy()
                        if v[0] == 'int':
                            s2.vals[key] = ('int', v[1] + (1 if '++' in op else -1))
                            if abs(s2.vals[key][1]) > 3:
                                del s2.vals[key]      # counters are not tracked beyond a few steps
                        elif v[0] != 'tok':
                            del s2.vals[key]
                    outs.append((s2, UNK))
                return outs
            if op == '!':
                return [(s2, UNK) for (s2, _v) in self.eval(e['e'], st, node)]
            return [(s2, UNK) for (s2, _v) in self.eval(e['e'], st, node)]
        if k == 'idx':
            outs = []
            for (s2, bv) in self.eval(e['b'], st, node):
                for (s3, _iv) in self.eval(e['i'], s2, node):
                    s3 = self.deref(s3, bv, e, node)
                    if s3 is not None:
                        outs.append((s3, UNK))
            return outs
        if k == 'bin':
            op = e['op']
            if op in ASSIGN_OPS:
                return self.assign(e, st, node)
            if op == ',':
                outs = []
                for (s2, _v) in self.eval(e['l'], st, node):
                    outs.extend(self.eval(e['r'], s2, node))
                return outs
            outs = []
            for (s2, lv) in self.eval(e['l'], st, node):
                for (s3, rv) in self.eval(e['r'], s2, node):
                    v = UNK
                    if op in ('+', '-') and lv[0] == 'tok' and self.u.ty(e0['ty'])['c'] == 'ptr':
                        v = lv       # pointer arithmetic stays inside the block
                    outs.append((s3, v))
            return outs
        if k == 'cond':
            outs = []
            for (s2, _c) in self.eval(e['c'], st, node):
                outs.extend(self.eval(e['t'], s2, node))
                outs.extend(self.eval(e['e'], s2, node))
            return outs
        if k == 'call':
            return self.call(e, st, node)
        if k == 'initlist':
            cur = [st]
            for i in e['inits']:
                nxt = []
                for s2 in cur:
                    nxt.extend(s3 for (s3, _v) in self.eval(i, s2, node))
                cur = nxt
            return [(s2, UNK) for s2 in cur]
        return [(st, UNK)]

    def deref(self, st, v, e, node):
        self.checked['deref'] += 1
        if v == UNK:
            # a pointer that was dereferenced is not NULL on the paths that continue
            base = None
            ee = strip_casts(e)
            if ee.get('k') == 'mem':
                base = ee['b']
            elif ee.get('k') == 'un':
                base = ee['e']
            elif ee.get('k') == 'idx':
                base = ee['b']
            if base is not None:
                key = self.var_key(base)
                if key is not None and key[0] == 'v':
                    st = st.copy()
                    st.vals[key] = NN
            return st
        if v == NULL:
            self.find('OWN1', e, 'NULL dereferenced: %s' % expr_str(e)[:50],
                      'on a path where the allocation (or lookup) before it returned NULL', 'nullderef:' + expr_str(e)[:50], st)
            return None
        if v[0] == 'tok' and st.tok.get(v[1]) == 'released':
            self.find('OWN4', e, 'use after release: %s' % expr_str(e)[:50], 'block from %s was released on this path' % self.site_desc(v[1]),
                      'uar:' + expr_str(e)[:50], st)
        return st

    # ---- assignment -----------------------------------------------------------------------------------------------
    def assign(self, a, st, node):
        outs = []
        if a['op'] != '=':
            res = []
            for (s2, _v) in self.eval(a['r'], st, node):
                res.extend((s3, UNK) for (s3, _x) in self.eval(a['l'], s2, node))
            return res
        for (s2, v) in self.eval(a['r'], st, node):
            outs.extend(self.store(a['l'], v, s2, node, a))
        return outs

    def store(self, lhs, v, st, node, at):
        """Store value v into lvalue lhs; returns [(state, v)]."""
        l = strip_casts(lhs)
        key = self.var_key(l)
        st = st.copy()
        if v[0] == 'deref':
            v = UNK
        if key is not None:
            self.overwrite(st, key, node, at)
            if v in (UNK,) and key in st.vals:
                del st.vals[key]
            elif v != UNK:
                st.vals[key] = v
            return [(st, v)]
        if l.get('k') == 'mem':
            outs = []
            for (s2, bv) in self.eval(l['b'], st, node):
                s2 = s2.copy()
                if l['arrow']:
                    s2 = self.deref(s2, bv, l, node)
                    if s2 is None:
                        continue
                    s2 = s2.copy()
                if bv[0] == 'tok':
                    fkey = ('tf', bv[1], l['f'])
                    self.overwrite(s2, fkey, node, at)
                    if v == UNK:
                        s2.vals.pop(fkey, None)
                    else:
                        s2.vals[fkey] = v
                    if v[0] == 'tok' and v[1] != bv[1]:
                        # the stored block is now owned through the object it was linked into, unless that would be
                        # a back link (the target already hangs, directly or not, under the stored block)
                        if s2.tok.get(v[1]) == 'live' and v[1] not in s2.par and not self.under(s2, bv[1], v[1]):
                            s2.par[v[1]] = bv[1]
                else:
                    # stored into memory we do not own: the value escapes; where it went is remembered until that place is
                    # stored to again (a block released while an object of the caller still points at it is released twice)
                    where = expr_str(l)
                    for k_ in [k_ for k_ in s2.vals if k_[0] == 'esc' and s2.vals[k_][1] == where]:
                        del s2.vals[k_]
                    if v[0] == 'tok':
                        if s2.tok.get(v[1]) == 'live':
                            s2.vals[('esc', v[1])] = ('into', where, node.line)
                        self.escape(s2, self.root_of(s2, v[1]) if False else v[1])
                outs.append((s2, v))
            return outs
        if l.get('k') == 'un' and l['op'] == '*':
            outs = []
            for (s2, bv) in self.eval(l['e'], st, node):
                s2 = s2.copy()
                if bv[0] == 'ptrto':
                    self.overwrite(s2, bv[1], node, at)
                    if v == UNK:
                        s2.vals.pop(bv[1], None)
                    else:
                        s2.vals[bv[1]] = v
                    outs.append((s2, v))
                    continue
                s2 = self.deref(s2, bv, l, node)
                if s2 is None:
                    continue
                if v[0] == 'tok':
                    s2 = s2.copy()
                    self.escape(s2, v[1])
                outs.append((s2, v))
            return outs
        if l.get('k') == 'idx':
            outs = []
            for (s2, bv) in self.eval(l['b'], st, node):
                s2 = self.deref(s2, bv, l, node)
                if s2 is None:
                    continue
                if v[0] == 'tok':
                    s2 = s2.copy()
                    self.escape(s2, v[1])
                outs.append((s2, v))
            return outs
        if l.get('k') == 'ref':
            # global
            if v[0] == 'tok':
                self.escape(st, v[1])
            return [(st, v)]
        return [(st, v)]

    def overwrite(self, st, key, node, at):
        """The variable/field `key` is about to be overwritten: if it held the only reference to a live token,
        that token is lost."""
        old = st.vals.get(key)
        if old is None or old[0] != 'tok':
            return
        t = old[1]
        if st.tok.get(t) != 'live' or t in st.par:
            return
        others = [k for k, v in st.vals.items() if v == old and k != key]
        if not others:
            self.find('OWN2', at, 'only reference to the block from %s is overwritten' % self.site_desc(t),
                      'the block is still allocated and nothing else refers to it', 'lost:%s' % self.site_key(t), st)
            st.tok[t] = 'escaped'   # report once

    # ---- calls ---------------------------------------------------------------------------------------------------------
    def call(self, c, st, node):
        cn = callee_name(c)
        field = indirect_field(c) if cn is None else None
        # evaluate arguments left to right
        cur = [(st, [])]
        for a in c['args']:
            nxt = []
            for (s2, vs) in cur:
                for (s3, v) in self.eval(a, s2, node):
                    nxt.append((s3, vs + [v]))
            cur = nxt
        outs = []
        for (s2, vs) in cur:
            outs.extend(self.apply_call(c, cn, field, s2, vs, node))
        return outs

    def new_token(self, st, c):
        tid = c['id']
        self.sites[tid] = c
        st = st.copy()
        if st.tok.get(tid) == 'live':
            # the site allocates again: the previous instance joins the per-site group
            gid = ('grp', tid)
            held = [k for k, v in st.vals.items() if v == ('tok', tid)]
            if not held and tid not in st.par:
                self.find('OWN2', c, 'previous block from %s is lost when the site allocates again' % self.site_desc(tid),
                          'not released, not linked, no variable refers to it', 'lost:%s' % self.site_key(tid), st)
            for k in held:
                st.vals[k] = ('tok', gid)
            if tid in st.par:
                p = st.par.pop(tid)
                if p != gid and p != tid:
                    st.par[gid] = p if gid not in st.par else st.par[gid]
            for cch, p in list(st.par.items()):
                if p == tid:
                    st.par[cch] = gid
            for k in [k for k in st.vals if k[0] == 'tf' and k[1] == tid]:
                v = st.vals.pop(k)
                st.vals[('tf', gid, k[2])] = v
            if st.tok.get(gid) != 'live':
                st.tok[gid] = 'live'
            self.sites[gid] = c
        elif st.tok.get(tid) in ('released', 'escaped'):
            for k in [k for k, v in st.vals.items() if v == ('tok', tid)]:
                del st.vals[k]
            for k in [k for k in st.vals if k[0] == 'tf' and k[1] == tid]:
                del st.vals[k]
        st.tok[tid] = 'live'
        st.par.pop(tid, None)
        return st, ('tok', tid)

    def apply_call(self, c, cn, field, st, vs, node):
        # 1. NULL passed to callees that dereference unconditionally
        derefs = ()
        if cn in LIBC_DEREF:
            derefs = LIBC_DEREF[cn]
        elif cn is not None:
            derefs = tuple(i for i in range(len(vs)) if self.tolerant.get((cn, i)) is False)
        for i in derefs:
            if i < len(vs) and vs[i] == NULL:
                self.find('OWN1', c, 'NULL passed to %s (argument %d), which dereferences it' % (cn, i + 1),
                          'on a path where the preceding allocation/lookup returned NULL', 'nullarg:%s:%d' % (cn, i), st)
                return []
        for i, v in enumerate(vs):
            if v[0] == 'tok' and st.tok.get(v[1]) == 'released' and not (cn in RELEASES or field == 'deallocate'):
                self.find('OWN4', c, 'released block from %s passed to %s' % (self.site_desc(v[1]), cn or field), 'use after release',
                          'uar-arg:%s' % (cn or field), st)
        # 2. releases
        if field == 'deallocate' or cn in RELEASES:
            self.checked['release'] += 1
            idx, deep = (0, False) if field == 'deallocate' else RELEASES[cn]
            s2 = st.copy()
            if idx < len(vs) and vs[idx][0] == 'tok':
                self.release(s2, vs[idx][1], deep, c)
            return [(s2, UNK)]
        # 3. realloc
        if field == 'reallocate':
            self.checked['alloc'] += 1
            outs = []
            if self.alloc_may_fail:
                outs.append((st, NULL))
            s2, tv = self.new_token(st, c)
            if vs and vs[0][0] == 'tok':
                s2.tok[vs[0][1]] = 'released'   # moved into the new block
                s2.hist = s2.hist + ('%d:realloc ok' % c['loc'][0],)
            outs.append((s2, tv))
            return outs
        # 4. fresh results
        if (field == 'allocate' or cn in self.fresh or cn == 'cJSON_malloc') and cn not in CONSUME_ALWAYS:
            self.checked['alloc'] += 1
            outs = []
            # a static constructor that disposes of (a field of) one of its arguments on every path - a grow/shrink helper that
            # moves the old block into the new one or releases it - takes that block in both outcomes
            if cn in self.u.functions and self.u.functions[cn].static:
                disposed = _always_releases_param(self.u, self.u.functions[cn], null_stores_ok=True)
                if disposed:
                    st = st.copy()
                    for (pi, f) in disposed:
                        if pi >= len(c['args']):
                            continue
                        tv0 = None
                        if f is None:
                            tv0 = vs[pi] if pi < len(vs) else None
                        else:
                            a0 = strip_casts(c['args'][pi])
                            key0 = self.var_key({'k': 'mem', 'f': f, 'arrow': True, 'b': a0})
                            if key0 is not None:
                                tv0 = st.vals.get(key0)
                            elif pi < len(vs) and vs[pi][0] == 'tok':
                                tv0 = st.vals.get(('tf', vs[pi][1], f))
                        if tv0 is not None and tv0[0] == 'tok':
                            self.release(st, tv0[1], False, c)
            s_ok, tv = self.new_token(st, c)
            s_ok.hist = s_ok.hist + ('%d:%s ok' % (c['loc'][0], cn or field),)
            # arguments that are tokens passed to a constructor stay owned by the caller unless consumed below
            outs.append((s_ok, tv))
            if self.alloc_may_fail:
                s_f = st.copy()
                s_f.hist = s_f.hist + ('%d:%s -> NULL' % (c['loc'][0], cn or field),)
                outs.append((s_f, NULL))
            return outs
        if cn in DETACHERS:
            s_ok, tv = self.new_token(st, c)
            return [(s_ok, tv), (st, NULL)]
        # 5. consumers
        if cn in CONSUME_ALWAYS:
            idx = CONSUME_ALWAYS[cn]
            s2 = st.copy()
            if idx < len(vs) and vs[idx][0] == 'tok':
                self.escape(s2, vs[idx][1])
            s_ok, tv = self.new_token(s2, c)
            return [(s_ok, tv), (s2, NULL)]
        if cn in CONSUME_ON_SUCCESS:
            self.checked['consume'] += 1
            sm = CONSUME_ON_SUCCESS[cn]
            idx = sm['takes']
            outs = []
            tokv = vs[idx] if idx < len(vs) else UNK
            # success
            s_ok = st.copy()
            if tokv[0] == 'tok':
                cont = vs[0] if vs else UNK
                if cont[0] == 'tok' and cont[1] != tokv[1]:
                    if s_ok.tok.get(tokv[1]) == 'live' and not self.under(s_ok, cont[1], tokv[1]):
                        s_ok.par[tokv[1]] = cont[1]
                else:
                    self.escape(s_ok, tokv[1])
            feasible_ok = all(vs[i] != NULL for i in sm['null'] if i < len(vs))
            if feasible_ok:
                outs.append((s_ok, ('retflag', c['id'], True)))
            # failure: feasible unless every failure condition is excluded at this site
            reasons = []
            for i in sm['null']:
                if i < len(vs) and (vs[i] == NULL or (vs[i] == UNK and self.alloc_may_fail)):
                    reasons.append('argument %d may be NULL' % (i + 1))
            if sm['differ'] and all(i < len(vs) for i in sm['differ']):
                x, y = vs[sm['differ'][0]], vs[sm['differ'][1]]
                if not (x[0] == 'tok' or y[0] == 'tok') or x == y:
                    reasons.append('container and item may be the same node')
            al = sm['alloc']
            if al == 'always' and self.alloc_may_fail:
                reasons.append('the key copy may fail')
            elif isinstance(al, tuple) and self.alloc_may_fail:
                flag = const_val(c['args'][al[1]]) if al[1] < len(c['args']) else None
                if flag in (0, None):
                    reasons.append('the key copy may fail')
            if sm.get('extra_fail') and (self.alloc_may_fail or cn in ('insert_item_in_array', 'cJSON_InsertItemInArray')):
                reasons.append(sm['extra_fail'])
            if reasons:
                s_f = st.copy()
                s_f.hist = s_f.hist + ('%d:%s fails (%s)' % (c['loc'][0], cn, reasons[0]),)
                outs.append((s_f, ('retflag', c['id'], False)))
            return outs
        # 5b. small non-recursive helpers of the same unit are followed ("abstract inlining")
        if cn in self.u.functions and self.depth < 2 and self.inlinable(cn):
            return self.inline(cn, c, st, vs, node)
        # 6. everything else borrows; a callee that gets a non-const pointer to a local aggregate may release and
        #    clear (or replace) the blocks its fields hold
        outs = [st]
        for i, v in enumerate(vs):
            if v[0] == 'addr':
                did = v[1]
                nxt = []
                for s2 in outs:
                    keys = [k for k in s2.vals if k[0] == 'lf' and k[1] == did and s2.vals[k][0] == 'tok']
                    cands = [s2]
                    must = set()
                    if cn in self.u.functions and self.u.functions[cn].body is not None:
                        ck = (id(self.u), cn)
                        if ck not in OwnAnalyzer._must_cache:
                            OwnAnalyzer._must_cache[ck] = _always_releases_param(self.u, self.u.functions[cn], null_stores_ok=True)
                        must = OwnAnalyzer._must_cache[ck]
                    for k in keys:
                        more = []
                        for s3 in cands:
                            if (i, k[2]) not in must:
                                more.append(s3)        # (a callee that disposes of the field on every path leaves no other outcome)
                            if (cn is not None and cn in self.u.functions or cn in self.units_functions()) and self.may_release_through(cn, i, k[2]):
                                s4 = s3.copy()
                                t = s4.vals[k][1]
                                s4.tok[t] = 'released'
                                s4.vals[k] = NULL
                                s4.hist = s4.hist + ('%d:%s released %s' % (c['loc'][0], cn, k[2]),)
                                more.append(s4)
                        cands = more
                    nxt.extend(cands)
                outs = nxt
            elif v[0] == 'addrv':
                nxt = []
                for s2 in outs:
                    s3 = s2.copy()
                    s3.vals.pop(('v', v[1]), None)
                    nxt.append(s3)
                outs = nxt
            elif v[0] == 'deref':
                # struct passed by value: its pointer fields are shared with the callee (overwrite_item(root, *value))
                nxt = []
                for s2 in outs:
                    s3 = s2.copy()
                    t = v[1][1]
                    for cch, p in list(s3.par.items()):
                        if p == t:
                            del s3.par[cch]
                            self.escape(s3, cch)
                    nxt.append(s3)
                outs = nxt
        return [(s2, UNK) for s2 in outs]

    _rel_cache = {}
    _must_cache = {}

    def may_release_through(self, cn, idx, field=None, seen=()):
        """can the callee (or something it hands the parameter on to) release or replace what the fields of *param idx hold?
        It can if it stores to a field of the parameter, calls a release / reallocate hook or a releasing function, or passes
        the parameter on to a function that can.  update_offset(&p) only reads."""
        key = (id(self.u), cn, idx, field)
        cache = OwnAnalyzer._rel_cache
        if key in cache:
            return cache[key]
        callee = self.u.functions.get(cn)
        if callee is None or callee.body is None or idx >= len(callee.params) or cn in seen:
            return True
        pd = callee.params[idx]['d']
        out = False
        for x in callee.nodes():
            if x.get('k') == 'bin' and x.get('op') in ASSIGN_OPS:
                l = strip_casts(x['l'])
                b = l
                while b.get('k') in ('mem', 'idx'):
                    b = strip_casts(b['b'])
                if b.get('k') == 'ref' and b.get('d') == pd and l is not b and (field is None or l.get('f') == field or l.get('k') != 'mem'):
                    out = True
            elif x.get('k') == 'call':
                cn2 = callee_name(x)
                if cn2 is None and indirect_field(x) in ('deallocate', 'reallocate'):
                    out = True
                elif cn2 in RELEASES or cn2 in ('free', 'realloc'):
                    out = True
                else:
                    for j, a_ in enumerate(x.get('args', [])):
                        a0 = strip_casts(a_)
                        if a0.get('k') == 'ref' and a0.get('d') == pd:
                            if cn2 not in self.u.functions or self.may_release_through(cn2, j, field, seen + (cn,)):
                                if cn2 in self.u.functions or cn2 is None:
                                    out = True
            if out:
                break
        cache[key] = out
        return out

    def inlinable(self, cn):
        callee = self.u.functions[cn]
        if callee.name == self.fn.name or not callee.static:
            return False
        cache = OwnAnalyzer._inl_cache
        key = (id(self.u), cn)
        if key not in cache:
            cfg = callee.cfg()
            small = len(cfg.nodes) <= 80
            rec = any(callee_name(x) == cn for x in callee.calls())
            has_alloc = any((callee_name(x) in self.fresh or callee_name(x) in DETACHERS or callee_name(x) in CONSUME_ALWAYS or
                             callee_name(x) in CONSUME_ON_SUCCESS or callee_name(x) in RELEASES or
                             (callee_name(x) is None and indirect_field(x) in ('allocate', 'reallocate', 'deallocate')))
                            for x in callee.calls())
            # helpers that move pointers around: they store a parameter somewhere, or write through an out-parameter
            moves = False
            pds = {p['d'] for p in callee.params}
            for a in assignments(callee):
                l = strip_casts(a['l'])
                if l.get('k') in ('mem', 'un', 'idx'):
                    if any(x.get('k') == 'ref' and x.get('d') in pds for x in walk(a['r'])) or l.get('k') == 'un':
                        moves = True
            cache[key] = small and not rec and (moves or has_alloc) and cn not in CONSUME_ON_SUCCESS and cn not in RELEASES \
                and cn not in self.fresh and cn not in DETACHERS and cn not in CONSUME_ALWAYS
        return cache[key]

    def inline(self, cn, c, st, vs, node):
        callee = self.u.functions[cn]
        child = OwnAnalyzer(self.units, self.u, callee, self.fresh, self.tolerant, self.alloc_may_fail)
        child.inlined = True
        child.depth = self.depth + 1
        child.sites = self.sites
        s0 = st.copy()
        for p, v in zip(callee.params, vs):
            if v[0] == 'addrv':
                v = ('ptrto', ('v', v[1]))
            elif v[0] in ('addr', 'deref', 'retflag'):
                v = NN if v[0] == 'addr' else UNK
            if v == UNK:
                s0.vals.pop(('v', p['d']), None)
            else:
                s0.vals[('v', p['d'])] = v
        child.run(init_states=[s0], check_leaks=False)
        # findings of the helper that concern blocks (double release, use after release, lost blocks) are the caller's
        for f in child.findings.values():
            self.find(f.rule, c, '%s (inside %s)' % (f.what, cn), f.detail, f.key + '@' + cn, None)
        own_keys = {('v', p['d']) for p in callee.params} | {('v', d['d']) for d in callee.locals()}
        outs = []
        for (rn, s2) in child.exit_states:
            s2 = s2.copy()
            rv = s2.vals.pop(('retval',), UNK)
            for k in list(s2.vals):
                if k in own_keys or (k[0] == 'lf' and ('v', k[1]) in own_keys) or k[0] in ('bv', 'cond', 'condarm'):
                    if k in own_keys or k[0] != 'lf':
                        del s2.vals[k]
            if rv[0] == 'ptrto':
                rv = UNK
            outs.append((s2, rv))
        if not outs:
            return []
        return outs

    def units_functions(self):
        names = set()
        for u in self.units.values():
            names |= set(u.functions)
        return names

    def _can_return_null_without_alloc(self, cn):
        return True

    # ---- nodes ---------------------------------------------------------------------------------------------------------------
    def transfer(self, node, states):
        outs = []
        if node.kind == 'decl':
            d = node.decl
            for st in states:
                if 'init' in d:
                    for (s2, v) in self.eval(d['init'], st, node):
                        s2 = s2.copy()
                        key = ('v', d['d'])
                        if d['d'] in self.local_records:
                            init = strip_casts(d['init'])
                            if init.get('k') == 'initlist':
                                rec = None
                                for k in [k for k in s2.vals if k[0] == 'lf' and k[1] == d['d']]:
                                    del s2.vals[k]
                            outs.append(s2)
                            continue
                        if v[0] == 'deref' or v[0] in ('addr', 'addrv', 'retflag'):
                            v = UNK if v[0] != 'retflag' else v
                        if v == UNK:
                            s2.vals.pop(key, None)
                        else:
                            s2.vals[key] = v
                        outs.append(s2)
                else:
                    s2 = st.copy()
                    s2.vals.pop(('v', d['d']), None)
                    outs.append(s2)
            return outs
        if node.expr is None:
            return list(states)
        if node.kind == 'return':
            for st in states:
                for (s2, v) in self.eval(node.expr, st, node):
                    s2 = s2.copy()
                    s2.vals[('retval',)] = v
                    if v[0] == 'tok' and not self.inlined:
                        self.escape(s2, v[1])
                    outs.append(s2)
            return outs
        if node.name and node.name.startswith('cond-arm'):
            for st in states:
                for (s2, v) in self.eval(node.expr, st, node):
                    s2 = s2.copy()
                    s2.vals[('condarm', node.expr['id'])] = v
                    outs.append(s2)
            return outs
        for st in states:
            for (s2, v) in self.eval(node.expr, st, node):
                if node.kind == 'branch':
                    s2 = s2.copy()
                    s2.vals[('bv',)] = v
                outs.append(s2)
        return outs

    def value_for_refine(self, e, st):
        """Abstract value of a side-effect-free expression for branch refinement (no obligations)."""
        e = strip_casts(e)
        key = self.var_key(e)
        if key is not None:
            return key, st.vals.get(key, UNK)
        if e.get('k') == 'un' and e['op'] == '*':
            ik = self.var_key(e['e'])
            if ik is not None:
                pv = st.vals.get(ik, UNK)
                if pv[0] == 'ptrto':
                    return pv[1], st.vals.get(pv[1], UNK)
        if e.get('k') == 'mem':
            b = strip_casts(e['b'])
            bk = self.var_key(b)
            if bk is not None:
                bv = st.vals.get(bk, UNK)
                if bv[0] == 'tok':
                    k2 = ('tf', bv[1], e['f'])
                    return k2, st.vals.get(k2, UNK)
        return None, UNK

    def refine(self, node, label, st):
        if label[0] not in ('T', 'F'):
            return st
        truth = label[0] == 'T'
        e = strip_casts(label[1])
        bv = st.vals.get(('bv',))
        if bv is not None and bv[0] == 'retflag':
            # the branch condition was the result of a consume-on-success call
            if bv[2] != truth:
                return None
            return st
        k = e.get('k')
        if k == 'bin' and e['op'] in CMP_OPS:
            # integer variable with a known constant value compared with a constant
            p = cmp_parts(e)
            if p is not None and self.u.ty(p[0]['ty'])['c'] == 'int':
                key, v = self.value_for_refine(p[0], st)
                if key is not None and v[0] == 'int':
                    a, b = v[1], p[2]
                    res = {'==': a == b, '!=': a != b, '<': a < b, '<=': a <= b, '>': a > b, '>=': a >= b}[p[1]]
                    return st if res == truth else None
                if key is not None and p[1] in ('==', '!=') and v == UNK:
                    if (p[1] == '==') == truth:
                        st = st.copy()
                        st.vals[key] = ('int', p[2])
                    return st
                if key is not None:
                    return st
        if k == 'bin' and e['op'] in ('==', '!='):
            other = e['l'] if is_null_const(e['r']) else (e['r'] if is_null_const(e['l']) else None)
            if other is not None:
                isnull = (e['op'] == '==') == truth
                return self.refine_null(other, isnull, st)
            # a block obtained from the allocator is never a local array / local object of this function
            for (x, y) in ((e['l'], e['r']), (e['r'], e['l'])):
                key, v = self.value_for_refine(x, st)
                y0 = strip_casts(y)
                if y0.get('k') == 'un' and y0['op'] == '&':
                    y0 = strip_casts(y0['e'])
                if v[0] == 'tok' and y0.get('k') == 'ref' and y0.get('dk') == 'local' and \
                        (self.u.ty(y0.get('ty0', y0['ty']))['c'] in ('array', 'record') or strip_casts(y).get('k') == 'un'):
                    return st if (e['op'] == '!=') == truth else None
            # comparison of a retflag variable with a constant
            for (x, y) in ((e['l'], e['r']), (e['r'], e['l'])):
                key, v = self.value_for_refine(x, st)
                c = const_val(y)
                if v[0] == 'retflag' and c is not None:
                    val_true = (e['op'] == '==') == truth
                    want = (c != 0) if val_true else (c == 0)
                    return st if v[2] == want else None
            return st
        if k in ('ref', 'mem'):
            key, v = self.value_for_refine(e, st)
            if v[0] == 'retflag':
                return st if v[2] == truth else None
            return self.refine_null(e, not truth, st)
        if k == 'call':
            # cJSON_IsArray(x), cJSON_IsObject(x), ... are false for a NULL x: where one holds, x is not NULL
            from .tree import NULL_REJECTING_PREDICATES
            if callee_name(e) in NULL_REJECTING_PREDICATES and e.get('args') and truth:
                return self.refine_null(e['args'][0], False, st)
            return st
        return st

    def refine_null(self, e, isnull, st):
        key, v = self.value_for_refine(e, st)
        if key is None:
            return st
        if v[0] == 'int':
            return st if (v[1] == 0) == isnull else None
        if v == NULL:
            return st if isnull else None
        if v[0] in ('tok', 'nn'):
            return None if isnull else st
        if isnull and v == UNK and key[0] == 'v' and key[1] in self.unassigned_params:
            # a defensive test of a parameter says nothing about what callers pass: whether a parameter may be NULL is decided
            # where NULL arguments are the subject (LST4), not inferred from a test that happens to be there
            return st
        st = st.copy()
        st.vals[key] = NULL if isnull else NN
        return st

    # ---- driver -------------------------------------------------------------------------------------------------------------------
    def run(self, init_states=None, check_leaks=True):
        cfg = self.cfg
        if init_states is None:
            init_states = [S()]
        instates = {cfg.entry.id: {s0.key(): s0 for s0 in init_states}}
        order = cfg.rpo()
        pos = {n: i for i, n in enumerate(order)}
        work = [cfg.entry.id]
        inwork = {cfg.entry.id}
        rounds = 0
        ret_states = []
        while work:
            rounds += 1
            if rounds > 20000:
                raise AnalysisBroken('OWN: %s does not converge' % self.fn.name)
            work.sort(key=lambda n: pos.get(n, 1 << 30))
            nid = work.pop(0)
            inwork.discard(nid)
            node = cfg.nodes[nid]
            states = list(instates.get(nid, {}).values())
            outs = self.transfer(node, states)
            # resolve pending cond values: the main statement after cond arms reads ('cond', id)
            for (y, label) in cfg.succ[nid]:
                tgt = instates.setdefault(y, {})
                changed = False
                for s2 in outs:
                    s3 = self.refine(node, label, s2) if label is not None else s2
                    if s3 is None:
                        continue
                    if ('bv',) in s3.vals and cfg.nodes[y].kind != 'branch':
                        s3 = s3.copy()
                        del s3.vals[('bv',)]
                    if node.name and node.name.startswith('cond-arm'):
                        # hand the arm's value to the statement that uses the conditional expression
                        s3 = s3.copy()
                        v = s3.vals.pop(('condarm', node.expr['id']), UNK)
                        cid = int(node.name.split(':')[1]) if ':' in node.name else None
                        if cid is not None:
                            s3.vals[('cond', cid)] = v
                    s3 = self.gc(s3)
                    kk = s3.key()
                    if kk not in tgt:
                        tgt[kk] = s3
                        changed = True
                if len(tgt) > MAX_STATES:
                    raise AnalysisBroken('OWN: more than %d simple states at %r in %s' % (MAX_STATES, cfg.nodes[y], self.fn.name))
                if changed and y not in inwork:
                    work.append(y)
                    inwork.add(y)
            if node.kind == 'return':
                for s2 in outs:
                    ret_states.append((node, s2))
            elif nid == cfg.exit.id:
                pass
        # void functions: states reaching the exit node without a return statement
        for (pnid, lab) in cfg.pred[cfg.exit.id]:
            pn = cfg.nodes[pnid]
            if pn.kind != 'return':
                for s2 in self.transfer(pn, list(instates.get(pnid, {}).values())):
                    s3 = self.refine(pn, lab, s2) if lab is not None else s2
                    if s3 is not None:
                        ret_states.append((pn, self.gc(s3)))
        self.exit_states = ret_states
        if not check_leaks:
            return list(self.findings.values())
        # leak check at returns
        for (node, st) in ret_states:
            self.checked['ret'] += 1
            for t, status in st.tok.items():
                if status != 'live':
                    continue
                r = self.root_of(st, t)
                if st.tok.get(r) in ('escaped', 'released') and r != t:
                    continue
                if r != t and st.tok.get(r) == 'live':
                    continue   # reported through its root
                self.find('OWN2', self.sites.get(t if not isinstance(t, tuple) else t[1], node.stmt),
                          'block from %s is still allocated at the return on line %d and nothing that outlives the call refers to it'
                          % (self.site_desc(t), node.line), 'path: %s' % ' ; '.join(st.hist[-6:]),
                          'leak:%s' % self.site_key(t), st)
        return list(self.findings.values())


def null_tolerance(units):
    """(function, param index) -> True if every dereference of that pointer parameter is dominated by a NULL test
    (or it is only forwarded to tolerant callees); False if some dereference is unguarded."""
    from .tree import NULL_REJECTING_PREDICATES
    tol = {}
    fns = {}
    for u in units.values():
        for fn in u.function_list:
            fns.setdefault(fn.name, (u, fn))
    # first pass: direct dereferences
    direct = {}
    for name, (u, fn) in fns.items():
        cfg = None
        for i, p in enumerate(fn.params):
            if u.ty(p['ty'])['c'] != 'ptr':
                continue
            ok = True
            unguarded = set()
            for x in fn.nodes():
                d = None
                k = x.get('k')
                if k == 'mem' and x['arrow'] and is_ref(x['b']):
                    d = strip_casts(x['b'])
                elif k == 'un' and x['op'] == '*' and is_ref(x['e']):
                    d = strip_casts(x['e'])
                elif k == 'idx' and is_ref(x['b']):
                    d = strip_casts(x['b'])
                if d is None or d.get('d') != p['d']:
                    continue
                cfg = cfg or fn.cfg()
                node = cfg.node_of_expr(x['id'])
                if node is None:
                    continue
                pd = p['d']

                def guard(nn, l, pd=pd):
                    if nn.kind != 'branch' or l is None:
                        return False
                    e = strip_casts(nn.expr)
                    if e.get('k') == 'ref' and e.get('d') == pd:
                        return l[0] == 'T'
                    if e.get('k') == 'bin' and e['op'] in ('==', '!='):
                        other = e['l'] if is_null_const(e['r']) else (e['r'] if is_null_const(e['l']) else None)
                        if other is not None and is_ref(other) and strip_casts(other)['d'] == pd:
                            return (e['op'] == '!=') == (l[0] == 'T')
                    if e.get('k') == 'call' and callee_name(e) in NULL_REJECTING_PREDICATES and e['args'] and \
                            is_ref(e['args'][0]) and strip_casts(e['args'][0])['d'] == pd:
                        return l[0] == 'T'
                    return False
                if not guarded_by(cfg, node.id, guard):
                    unguarded.add(node.id)
            if unguarded:
                # "dereferences it" is claimed only when no path through the function avoids the dereference: one that depends
                # on another condition (tail->next only when *head != NULL) may be protected by an invariant of the callers
                ok = cfg.exit.id in cfg.reachable(cfg.entry.id, stop=unguarded)
            direct[(name, i)] = ok
    tol = dict(direct)
    # second pass: forwarding to intolerant callees without a guard makes the caller intolerant
    changed = True
    while changed:
        changed = False
        for name, (u, fn) in fns.items():
            cfg = None
            for i, p in enumerate(fn.params):
                if not tol.get((name, i), True):
                    continue
                if u.ty(p['ty'])['c'] != 'ptr':
                    continue
                for c in fn.calls():
                    cn = callee_name(c)
                    for j, a in enumerate(c['args']):
                        if is_ref(a) and strip_casts(a)['d'] == p['d']:
                            bad = (cn in LIBC_DEREF and j in LIBC_DEREF[cn]) or tol.get((cn, j)) is False
                            if not bad:
                                continue
                            cfg = cfg or fn.cfg()
                            node = cfg.node_of_expr(c['id'])
                            pd = p['d']

                            def guard2(nn, l, pd=pd):
                                if nn.kind != 'branch' or l is None:
                                    return False
                                e = strip_casts(nn.expr)
                                if e.get('k') == 'ref' and e.get('d') == pd:
                                    return l[0] == 'T'
                                if e.get('k') == 'bin' and e['op'] in ('==', '!='):
                                    other = e['l'] if is_null_const(e['r']) else (e['r'] if is_null_const(e['l']) else None)
                                    if other is not None and is_ref(other) and strip_casts(other)['d'] == pd:
                                        return (e['op'] == '!=') == (l[0] == 'T')
                                return False
                            if node is not None and not guarded_by(cfg, node.id, guard2):
                                tol[(name, i)] = False
                                changed = True
    return tol


def verify_summaries(units, R):
    """Light verification of the frozen summary tables against the callee bodies."""
    for name, sm in CONSUME_ON_SUCCESS.items():
        found = None
        for u in units.values():
            if name in u.functions:
                found = (u, u.functions[name])
        if found is None:
            raise AnalysisBroken('OWN: summarised function %s vanished' % name)
        u, fn = found
        p = fn.params[sm['takes']]
        # the parameter is stored (linked) or forwarded to another consumer somewhere, and never released here
        stored = False
        for a in assignments(fn):
            if is_ref(a['r']) and strip_casts(a['r'])['d'] == p['d'] and strip_casts(a['l']).get('k') == 'mem':
                stored = True
        for c in fn.calls():
            cn = callee_name(c)
            if cn in CONSUME_ON_SUCCESS or cn == 'suffix_object':
                idx = CONSUME_ON_SUCCESS.get(cn, {'takes': 1})['takes']
                if idx < len(c['args']) and is_ref(c['args'][idx]) and strip_casts(c['args'][idx])['d'] == p['d']:
                    stored = True
        R.ob('OWN3', fn, None, 'summary: %s takes ownership of `%s` when it succeeds' % (name, p['n']), stored,
             'the parameter is linked into the container or forwarded to a consumer' if stored else 'parameter never linked',
             key='summary:' + name)
        # every constant-false return is control dependent on a listed failure condition
        cfg = fn.cfg()
        for r in cfg.returns():
            if r.expr is None or const_val(r.expr) != 0:
                continue
            # must be unreachable when the failure edges are removed
            allowed_null = {fn.params[i]['d'] for i in sm['null'] if i < len(fn.params)}
            differ = sm['differ']

            def failure_edge(nn, l):
                if nn.kind != 'branch' or l is None:
                    return False
                e = strip_casts(nn.expr)
                if e.get('k') == 'bin' and e['op'] in ('==', '!=', '<', '>', '<=', '>='):
                    return True     # comparisons (NULL tests, identity, index range) select the refusal
                if e.get('k') in ('ref', 'mem', 'un'):
                    return True
                return False
            ok = guarded_by(cfg, r.id, failure_edge)
            R.ob('OWN3', fn, r.stmt, 'summary: %s fails only after a test' % name, ok, '', key='summary-fail:%s:%d' % (name, 0))


def own_engine(units, R, unit_name='cJSON.c', alloc_may_fail=True, only=None, skip=()):
    u = units[unit_name]
    fresh = fresh_functions(units)
    tol = null_tolerance(units)
    totals = {'deref': 0, 'alloc': 0, 'ret': 0, 'consume': 0, 'release': 0}
    nfn = 0
    for fn in u.function_list:
        if only and fn.name not in only:
            continue
        if fn.name in skip:
            continue
        has_alloc = any((callee_name(c) in fresh or callee_name(c) in DETACHERS or callee_name(c) in CONSUME_ALWAYS or
                         callee_name(c) == 'cJSON_malloc' or
                         (callee_name(c) is None and indirect_field(c) in ('allocate', 'reallocate'))) for c in fn.calls())
        if not has_alloc:
            continue
        nfn += 1
        an = OwnAnalyzer(units, u, fn, fresh, tol, alloc_may_fail)
        findings = an.run()
        for k in totals:
            totals[k] += an.checked[k]
        # one discharged obligation per allocation site, per return and per consumer call that produced no finding
        bad_keys = {f.key for f in findings}
        for f in findings:
            R.ob(f.rule, fn, f.node if isinstance(f.node, dict) and 'loc' in f.node else None, f.what, False, f.detail, key=f.key,
                 witness=f.witness)
        for tid, c in an.sites.items():
            if isinstance(tid, tuple):
                continue
            sk = an.site_key(tid)
            if 'leak:' + sk in bad_keys or 'lost:' + sk in bad_keys:
                continue
            R.ob('OWN2', fn, c, 'block from %s is released, linked or handed over on every path' % expr_str(c)[:40], True,
                 '%d return states examined' % an.checked['ret'], key='site:' + sk)
        if not any(f.rule == 'OWN1' for f in findings):
            R.ob('OWN1', fn, None, 'no NULL result is dereferenced in %s' % fn.name, True,
                 '%d dereferences and call arguments examined under every NULL/non-NULL outcome' % an.checked['deref'],
                 key='nullsafe')
    R.note('OWN engine on %s: %d functions, %s' % (unit_name, nfn, totals))
    return nfn, totals


# ---- structural ownership rules ----------------------------------------------------------------------------------------------

FLAG_FOR_FIELD = {'valuestring': 'cJSON_IsReference', 'child': 'cJSON_IsReference', 'string': 'cJSON_StringIsConst'}


def _direct_release_calls(u, fn):
    out = []
    for c in fn.calls():
        cn = callee_name(c)
        if cn in RELEASES and c['args']:
            out.append((c, strip_casts(c['args'][RELEASES[cn][0]]), RELEASES[cn][1]))
        elif cn is None and indirect_field(c) == 'deallocate' and c['args']:
            out.append((c, strip_casts(c['args'][0]), False))
    return out


_helper_cache = {}


def release_helpers(u):
    """Static helpers that release a field of one of their node parameters and leave the field to the caller:
    name -> [(param index, field, deep)].  A call of such a helper is a release of arg->field in the caller."""
    if id(u) in _helper_cache:
        return _helper_cache[id(u)]
    out = {}
    for fn in u.function_list:
        if not fn.static:
            continue
        callers = [g for g in u.function_list for c in g.calls() if callee_name(c) == fn.name]
        if not callers:
            continue
        for (c, e, deep) in _direct_release_calls(u, fn):
            if e.get('k') == 'mem' and is_ref(e['b']) and strip_casts(e['b']).get('dk') == 'param':
                pi = [i for i, p in enumerate(fn.params) if p['d'] == strip_casts(e['b'])['d']]
                # the helper does not store the field itself afterwards
                base = expr_str(strip_casts(e['b']))
                restored = any(strip_casts(a['l']).get('k') == 'mem' and expr_str(strip_casts(a['l'])) == expr_str(e) for a in assignments(fn)) \
                    or any(expr_str(strip_casts(a['l'])) == '*' + base for a in assignments(fn)) \
                    or any(callee_name(x) in ('memcpy', 'memset') and x['args'] and expr_str(strip_casts(x['args'][0])) == base for x in fn.calls()) \
                    or any((callee_name(x) in RELEASES or (callee_name(x) is None and indirect_field(x) == 'deallocate')) and x['args'] and
                           expr_str(strip_casts(x['args'][0])) == base for x in fn.calls())
                if pi and not restored:
                    out.setdefault(fn.name, []).append((pi[0], e['f'], deep, e))
    _helper_cache[id(u)] = out
    return out


def _release_calls(u, fn):
    """(call node, released expression, deep) for every release in fn, including calls of helpers that release a field
    of their argument (the released expression is then the synthetic arg->field)."""
    out = _direct_release_calls(u, fn)
    helpers = release_helpers(u)
    for c in fn.calls():
        cn = callee_name(c)
        if cn in helpers and cn != fn.name:
            for (pi, field, deep, proto) in helpers[cn]:
                if pi < len(c['args']):
                    syn = {'k': 'mem', 'f': field, 'arrow': True, 'b': c['args'][pi], 'ty': proto['ty'], 'id': -c['id'] - 1,
                           'loc': c['loc'], 'via_helper': cn}
                    out.append((c, syn, deep))
    return out


def owned_aliases(u, fn):
    """Locals that hold a node's payload pointer exactly when the node owns it:
        char *old = (item->type & cJSON_StringIsConst) ? NULL : item->string;
    (one definition, a conditional with a NULL arm and an X->field arm, the condition a test of the ownership bit of that field
    on the same X, the field on the clear side).  Releasing such a local is releasing X->field under its ownership test, with
    bit and pointer captured together.  -> {decl id: X->field expression}"""
    out = {}
    defs = {}
    for a in assignments(fn):
        if is_ref(a['l']):
            defs.setdefault(strip_casts(a['l'])['d'], []).append(a['r'] if a['op'] == '=' else None)
    for d in fn.locals():
        if 'init' in d:
            defs.setdefault(d['d'], []).append(d['init'])
    for d, rs in defs.items():
        rs = [r for r in rs if r is None or not is_null_const(r)]
        if len(rs) != 1 or rs[0] is None:
            continue
        r = strip_casts(rs[0])
        if r.get('k') == 'mem' and r.get('arrow') and r['f'] in FLAG_FOR_FIELD:
            # the statement form: char *old = NULL; if (!(X->type & FLAG)) { old = X->field; }  - the one assignment sits behind the
            # clear edge of the ownership test, and X->type is not stored to before that test
            asg = [a for a in assignments(fn) if is_ref(a['l']) and strip_casts(a['l'])['d'] == d and a['op'] == '=' and a['r'] is rs[0]]
            if len(asg) == 1:
                X = expr_str(strip_casts(r['b']))
                flag = FLAG_FOR_FIELD[r['f']]
                cfg = fn.cfg()
                nd = cfg.node_of_expr(asg[0]['id'])

                def flag_test(x):
                    x = strip_casts(x)
                    if x.get('k') == 'bin' and x['op'] == '&':
                        for (p_, q_) in ((x['l'], x['r']), (x['r'], x['l'])):
                            p0 = strip_casts(p_)
                            if p0.get('k') == 'mem' and p0['f'] == 'type' and expr_str(strip_casts(p0['b'])) == X and \
                                    flag in (strip_casts(q_).get('m') or []):
                                return True
                    return False

                def clear_edge(nn, l):
                    if nn.kind != 'branch' or l is None:
                        return False
                    x = strip_casts(nn.expr)
                    want = 'F'
                    while x.get('k') == 'un' and x['op'] == '!':
                        x = strip_casts(x['e'])
                        want = 'T' if want == 'F' else 'F'
                    if flag_test(x):
                        return l[0] == want
                    pc_ = cmp_parts(x)
                    if pc_ and flag_test(pc_[0]) and pc_[2] == 0 and pc_[1] in ('==', '!='):
                        return ((pc_[1] == '==') == (l[0] == 'T')) == (want == 'F')
                    return False
                if nd is not None and guarded_by(cfg, nd.id, clear_edge):
                    tstores = [m.id for m in cfg.nodes for ev in node_effects(m)
                               if ev.kind == 'store' and is_mem(ev.lhs, 'type') and expr_str(strip_casts(strip_casts(ev.lhs)['b'])) == X]
                    if not any(nd.id in cfg.reachable(m) for m in tstores):
                        out[d] = r
            continue
        if r.get('k') != 'cond':
            continue
        t_arm, e_arm = strip_casts(r['t']), strip_casts(r['e'])
        c = strip_casts(r['c'])
        neg = False
        while c.get('k') == 'un' and c['op'] == '!':
            c = strip_casts(c['e'])
            neg = not neg
        pc = cmp_parts(c)
        if pc is not None and pc[2] == 0 and pc[1] in ('==', '!='):
            if pc[1] == '==':
                neg = not neg
            c = strip_casts(pc[0])
        # the arm taken when the bit is set / clear
        set_arm, clear_arm = (e_arm, t_arm) if neg else (t_arm, e_arm)
        if not (is_null_const(set_arm) or set_arm.get('null')) or clear_arm.get('k') != 'mem' or clear_arm['f'] not in FLAG_FOR_FIELD:
            continue
        X = expr_str(strip_casts(clear_arm['b']))
        flag = FLAG_FOR_FIELD[clear_arm['f']]
        okc = False
        if c.get('k') == 'bin' and c['op'] == '&':
            for (x, y) in ((c['l'], c['r']), (c['r'], c['l'])):
                x0 = strip_casts(x)
                if x0.get('k') == 'mem' and x0['f'] == 'type' and expr_str(strip_casts(x0['b'])) == X and flag in (strip_casts(y).get('m') or []):
                    okc = True
        if okc:
            out[d] = clear_arm
    return out


def own5(units, R):
    """cJSON.c: every release of X->valuestring / X->child (cJSON_Delete) / X->string is reachable only through the
    clear edge of a test of the ownership bit describing that memory on the same X, and X->type is not modified
    between function entry and that test (the bit tested must still describe the memory being released)."""
    u = units['cJSON.c']
    n = 0
    for fn in u.function_list:
        rel = [(c, e, deep) for (c, e, deep) in _direct_release_calls(u, fn) if e.get('k') == 'mem' and e['f'] in FLAG_FOR_FIELD
               and 'cJSON' in u.ty(strip_casts(e['b'])['ty'])['s']]
        al = owned_aliases(u, fn)
        captured = [(c, al[e['d']]) for (c, e, deep) in _direct_release_calls(u, fn) if e.get('k') == 'ref' and e.get('d') in al]
        # a local that saved the payload pointer (char *old_key = item->string; ... release(old_key)): a release of X->field as it
        # was when saved; the ownership test is judged below like that of a direct release
        saved = {}
        sdefs = {}
        for a_ in assignments(fn):
            if is_ref(a_['l']):
                sdefs.setdefault(strip_casts(a_['l'])['d'], []).append(a_['r'] if a_['op'] == '=' else None)
        for d_ in fn.locals():
            if 'init' in d_:
                sdefs.setdefault(d_['d'], []).append(d_['init'])
        for d_, rs_ in sdefs.items():
            rs_ = [r_ for r_ in rs_ if r_ is None or not is_null_const(r_)]
            if len(rs_) == 1 and rs_[0] is not None:
                r0_ = strip_casts(rs_[0])
                if r0_.get('k') == 'mem' and r0_.get('arrow') and r0_['f'] in FLAG_FOR_FIELD and d_ not in al:
                    saved[d_] = r0_
        rel += [(c, saved[e['d']], deep) for (c, e, deep) in _direct_release_calls(u, fn) if e.get('k') == 'ref' and e.get('d') in saved
                and 'cJSON' in u.ty(strip_casts(saved[e['d']]['b'])['ty'])['s']]
        for (c, m) in captured:
            n += 1
            R.ob('OWN5', fn, c, 'release of %s honours %s' % (expr_str(m), FLAG_FOR_FIELD[m['f']]), True,
                 'released through a local that holds the pointer only when the bit is clear (bit and pointer captured together)',
                 key='release:%s' % expr_str(m))
        if not rel:
            continue
        cfg = fn.cfg()
        tcache = dict(field_cache(u, fn, 'type'))
        # a type word read into a local before the function stores to ->type at all (old_type = item->type; ... item->type = ...): the
        # local describes the node as it was when its payload pointers were saved
        for d_ in fn.locals():
            if d_['d'] in tcache:
                continue
            asg_ = [a_ for a_ in assignments(fn) if is_ref(a_['l']) and strip_casts(a_['l'])['d'] == d_['d']]
            defs_ = [a_['r'] for a_ in asg_ if const_val(a_['r']) is None] + \
                ([d_['init']] if 'init' in d_ and const_val(d_['init']) is None and not d_['init'].get('null') else [])
            if len(defs_) != 1 or any(a_['op'] != '=' for a_ in asg_):
                continue
            r_ = strip_casts(defs_[0])
            if r_.get('k') == 'mem' and r_.get('arrow') and r_['f'] == 'type' and strip_casts(r_['b']).get('k') == 'ref':
                dn_ = [cfg.node_of_expr(a_['id']) for a_ in asg_ if a_['r'] is defs_[0]]
                stores_ = [m_.id for m_ in cfg.nodes for ev_ in node_effects(m_)
                           if ev_.kind == 'store' and is_mem(ev_.lhs, 'type') and
                           expr_str(strip_casts(strip_casts(ev_.lhs)['b'])) == expr_str(strip_casts(r_['b']))]
                if dn_ and dn_[0] is not None and not any(dn_[0].id in cfg.reachable(m_) for m_ in stores_):
                    tcache[d_['d']] = r_
        for (c, e, deep) in rel:
            n += 1
            X = expr_str(strip_casts(e['b']))
            flag = FLAG_FOR_FIELD[e['f']]
            node = node_containing(cfg, c)

            def is_flag_test(x):
                x = strip_casts(expand_cached(x, tcache))       # int type = item->type; ... if (!(type & cJSON_IsReference))
                if x.get('k') == 'bin' and x['op'] == '&':
                    for (a, b) in ((x['l'], x['r']), (x['r'], x['l'])):
                        a0 = strip_casts(a)
                        if a0.get('k') == 'mem' and a0['f'] == 'type' and expr_str(strip_casts(a0['b'])) == X and \
                                flag in (strip_casts(b).get('m') or []):
                            return True
                return False

            def clear_edge(nn, l):
                if nn.kind != 'branch' or l is None:
                    return False
                x = strip_casts(nn.expr)
                if is_flag_test(x):
                    return l[0] == 'F'
                p = cmp_parts(x)
                if p and is_flag_test(p[0]) and p[2] == 0 and p[1] in ('==', '!='):
                    return (p[1] == '==') == (l[0] == 'T')
                x = strip_casts(expand_cached(x, tcache))
                p = cmp_parts(x)
                # (X->type & M) == K with the ownership bit inside M and clear in K: on the equal edge the bit is clear
                bit = {'cJSON_IsReference': 256, 'cJSON_StringIsConst': 512}[flag]
                if p and p[1] in ('==', '!=') and p[2] is not None and (p[2] & bit) == 0:
                    m0 = strip_casts(p[0])
                    if m0.get('k') == 'bin' and m0['op'] == '&':
                        for (a, b) in ((m0['l'], m0['r']), (m0['r'], m0['l'])):
                            a0 = strip_casts(a)
                            mv = const_val(b)
                            if a0.get('k') == 'mem' and a0['f'] == 'type' and expr_str(strip_casts(a0['b'])) == X and \
                                    mv is not None and (mv & bit):
                                return (p[1] == '==') == (l[0] == 'T')
                return False
            ok = guarded_by(cfg, node.id, clear_edge)
            why = 'reachable only when %s->type & %s is clear' % (X, flag)
            if ok:
                tests = [b for b in cfg.nodes if b.kind == 'branch' and (is_flag_test(b.expr) or
                                                                         (cmp_parts(b.expr) and is_flag_test(cmp_parts(b.expr)[0])))]
                tstores = []
                for m in cfg.nodes:
                    for ev in node_effects(m):
                        if ev.kind == 'store' and is_mem(ev.lhs, 'type') and expr_str(strip_casts(strip_casts(ev.lhs)['b'])) == X:
                            tstores.append(m)
                for b in tests:
                    if not cfg.dominates(b.id, node.id):
                        continue
                    for m in tstores:
                        if b.id in cfg.reachable(m.id):
                            ok = False
                            why = '%s->type is modified at line %d before the ownership test at line %d: the bit tested no longer ' \
                                  'describes the memory being released' % (X, m.line, b.line)
            else:
                why = '%s->%s released without testing %s on %s (borrowed memory would be freed)' % (X, e['f'], flag, X)
            R.ob('OWN5', fn, c, 'release of %s->%s honours %s' % (X, e['f'], flag), ok, why, key='release:%s->%s' % (X, e['f']))
    R.floor('OWN5', 'releases of node payloads in cJSON.c', n, 5)


def own6(units, R):
    """In a function with a key parameter (const char *) and an item parameter, no path leads from a release of the
    item's own key (it->string) to a read of the key parameter: the documented contract lets them alias."""
    u = units['cJSON.c']
    n = 0
    for fn in u.function_list:
        keys = [p for p in fn.params if u.ty(p['ty'])['s'].startswith('const char *')]
        items = [p for p in fn.params if 'struct cJSON *' in u.ty(p['ty'])['s'] and not u.ty(p['ty']).get('pointee_const')]
        if not keys or not items:
            continue
        rel = [(c, e) for (c, e, _d) in _release_calls(u, fn) if e.get('k') == 'mem' and e['f'] == 'string' and
               is_ref(e['b']) and strip_casts(e['b'])['d'] in {p['d'] for p in items}]
        al = owned_aliases(u, fn)
        rel += [(c, al[e['d']]) for (c, e, _d) in _release_calls(u, fn) if e.get('k') == 'ref' and e.get('d') in al and
                al[e['d']]['f'] == 'string' and is_ref(al[e['d']]['b']) and strip_casts(al[e['d']]['b'])['d'] in {p['d'] for p in items}]
        # a release of a local that saved it->string earlier (char *old_key = item->string) is a release of the item's key as well
        sd = {}
        for a_ in assignments(fn):
            if is_ref(a_['l']):
                sd.setdefault(strip_casts(a_['l'])['d'], []).append(a_['r'] if a_['op'] == '=' else None)
        for d_ in fn.locals():
            if 'init' in d_:
                sd.setdefault(d_['d'], []).append(d_['init'])
        for (c, e, _d) in _release_calls(u, fn):
            if e.get('k') == 'ref' and e.get('d') in sd and e.get('d') not in al:
                rs_ = [r_ for r_ in sd[e['d']] if r_ is None or not is_null_const(r_)]
                if len(rs_) == 1 and rs_[0] is not None:
                    r0_ = strip_casts(rs_[0])
                    if r0_.get('k') == 'mem' and r0_['f'] == 'string' and is_ref(r0_['b']) and strip_casts(r0_['b'])['d'] in {p['d'] for p in items}:
                        rel.append((c, r0_))
        if not rel:
            continue
        cfg = fn.cfg()
        for (c, e) in rel:
            rn = node_containing(cfg, c)
            after = cfg.reachable(rn.id)
            for kp in keys:
                n += 1
                bad = None
                for m in cfg.nodes:
                    if m.id not in after or m.id == rn.id:
                        continue
                    root = m.expr if m.expr is not None else (m.decl.get('init') if m.decl else None)
                    if root is None:
                        continue
                    for x in walk(root):
                        if x.get('k') == 'ref' and x.get('d') == kp['d']:
                            # a NULL test of the pointer itself does not read the string
                            par = fn.parents().get(x['id'])
                            if par is not None and par.get('k') == 'bin' and par['op'] in ('==', '!=') and \
                                    (is_null_const(par['l']) or is_null_const(par['r'])):
                                continue
                            bad = (m, x)
                            break
                    if bad:
                        break
                R.ob('OWN6', fn, c, 'key parameter %s is not used after %s was released' % (kp['n'], expr_str(e)), bad is None,
                     'all uses of %s precede the release' % kp['n'] if bad is None else
                     '%s is read at line %d after the release at line %d; it may point into the released key' % (kp['n'], bad[0].line, rn.line),
                     key='keyalias:%s' % kp['n'])
    R.floor('OWN6', 'key/item parameter pairs with a key release', n, 2)


def own7(units, R):
    """Failure atomicity: on a path from function entry through the NULL outcome of an allocation to a failure return,
    nothing reachable from a cJSON* parameter was released or stored into before that allocation."""
    u = units['cJSON.c']
    fresh = fresh_functions(units)
    n = 0
    for fn in u.function_list:
        if not fn.external and fn.name not in ('add_item_to_object', 'replace_item_in_object'):
            continue
        cj = {p['d']: p for p in fn.params if 'struct cJSON *' in u.ty(p['ty'])['s'] and not u.ty(p['ty']).get('pointee_const')}
        if not cj:
            continue
        allocs = [c for c in fn.calls() if callee_name(c) in fresh or (callee_name(c) is None and indirect_field(c) in ('allocate', 'reallocate'))]
        if not allocs:
            continue
        cfg = fn.cfg()
        muts = []
        for m in cfg.nodes:
            for ev in node_effects(m):
                if ev.kind == 'store':
                    l = strip_casts(ev.lhs)
                    b = l
                    while b.get('k') in ('mem', 'idx') or (b.get('k') == 'un' and b['op'] == '*'):
                        b = strip_casts(b.get('b') or b.get('e'))
                    if l.get('k') in ('mem', 'idx', 'un') and b.get('k') == 'ref' and b.get('d') in cj:
                        muts.append((m, 'store %s' % expr_str(ev.node)[:40]))
                elif ev.kind == 'call':
                    cn = callee_name(ev.node)
                    if cn in RELEASES or (cn is None and indirect_field(ev.node) == 'deallocate'):
                        a0 = strip_casts(ev.node['args'][0]) if ev.node['args'] else None
                        b = a0
                        while b is not None and (b.get('k') in ('mem', 'idx')):
                            b = strip_casts(b['b'])
                        if b is not None and b.get('k') == 'ref' and b.get('d') in cj and a0.get('k') != 'ref':
                            muts.append((m, 'release %s' % expr_str(a0)[:40]))
        for c in allocs:
            n += 1
            an = node_containing(cfg, c)
            # is the NULL outcome of this allocation followed by a failure return?
            fails = [r for r in cfg.returns() if r.id in cfg.reachable(an.id) and r.expr is not None and
                     (const_val(r.expr) == 0 or is_null_const(r.expr))]
            before = [(m, what) for (m, what) in muts if an.id in cfg.reachable(m.id) and m.id != an.id]
            ok = not (fails and before)
            R.ob('OWN7', fn, c, 'nothing in the caller\'s trees is modified before %s can fail' % expr_str(c)[:40], ok,
                 'no release/store through a tree parameter precedes this allocation' if ok else
                 '%s at line %d happens before the allocation; if it fails the call reports failure with the tree already changed'
                 % (before[0][1], before[0][0].line), key='atomic:%s' % expr_str(c)[:40])
    R.floor('OWN7', 'allocations in functions that edit caller-owned trees', n, 4)


def own4_dangling(units, R, unit_names=('cJSON.c', 'cJSON_Utils.c')):
    """After releasing X->f where X outlives the function (a parameter or something reached from one), X->f is
    overwritten (or X itself released / overwritten as a whole) on every path before the function returns."""
    n = 0
    for un in unit_names:
        u = units[un]
        for fn in u.function_list:
            rel = []
            if fn.name in release_helpers(u):
                R.note('OWN4: %s releases a field of its argument and leaves the store to its callers; each call site is checked' % fn.name)
            for (c, e, deep) in _release_calls(u, fn):
                if e.get('k') != 'mem':
                    continue
                if fn.name in release_helpers(u) and not e.get('via_helper') and \
                        any(expr_str(e) == expr_str(pr) for (_pi, _f, _d, pr) in release_helpers(u)[fn.name]):
                    continue
                b = strip_casts(e['b'])
                root = b
                while root.get('k') in ('mem', 'idx') or (root.get('k') == 'un' and root['op'] in ('*', '&')):
                    root = strip_casts(root.get('b') or root.get('e'))
                if root.get('k') == 'ref' and root.get('dk') == 'param':
                    rel.append((c, e))
            if not rel:
                continue
            cfg = fn.cfg()
            for (c, e) in rel:
                n += 1
                X = expr_str(strip_casts(e['b']))
                target = expr_str(e)
                rn = node_containing(cfg, c)
                fixes = set()
                for m in cfg.nodes:
                    for ev in node_effects(m):
                        if ev.kind == 'store' and expr_str(strip_casts(ev.lhs)) == target:
                            fixes.add(m.id)
                        if ev.kind == 'call':
                            cn = callee_name(ev.node)
                            args = [expr_str(strip_casts(a)) for a in ev.node['args']]
                            if (cn in RELEASES or (cn is None and indirect_field(ev.node) == 'deallocate')) and args and args[0] == X:
                                fixes.add(m.id)
                            if cn in ('memcpy', 'memset') and args and args[0] == X:
                                fixes.add(m.id)
                        if ev.kind == 'store' and expr_str(strip_casts(ev.lhs)) in ('*' + X, '*%s' % X):
                            fixes.add(m.id)      # *X = ... replaces the whole node
                reach = cfg.reachable(rn.id, stop=fixes)
                ok = cfg.exit.id not in reach or rn.id in fixes
                # a loop that re-tests and moves on (cJSON_Delete: item = next) releases X itself afterwards
                R.ob('OWN4', fn, c, 'released field %s is overwritten before the function returns' % target, ok,
                     'every path from the release passes a store to %s or a release of %s' % (target, X) if ok else
                     'a path returns with %s still pointing at the released block' % target, key='dangling:' + target)
    R.floor('OWN4', 'releases of fields of longer-lived objects', n, 8)


def ref_constructors(units, R):
    """Reference constructors: a node that borrows memory carries the reference bit, has no key of its own and no
    sibling links; cast_away_const results are only stored into fields of freshly created nodes."""
    u = units['cJSON.c']
    n = 0
    fn = u.fn('create_reference')
    from .lst import _mentions_macro
    from .nodestate import NodeStates
    rets = {strip_casts(r['e'])['d'] for r in fn.nodes() if r.get('k') == 'return' and 'e' in r and strip_casts(r['e']).get('k') == 'ref'
            and strip_casts(r['e']).get('dk') != 'param'}
    if len(rets) != 1:
        raise AnalysisBroken('REFC: cannot identify the reference node in create_reference')
    refv = rets.pop()
    ns = NodeStates(u)
    ncfg, nbefore, _na = ns.run(fn, refv, {}, 0)
    final = {f: set() for f in ns.fields}
    for rr in ncfg.returns():
        if rr.expr is not None and strip_casts(rr.expr).get('k') == 'ref' and strip_casts(rr.expr)['d'] == refv and rr.id in nbefore:
            for f in ns.fields:
                final[f] |= {d for d in nbefore[rr.id][f] if d.kind != 'nocopy'}
    if not final.get('type'):
        raise AnalysisBroken('REFC: no return of the reference node found')
    n += 1
    # the definitions of each field that are in effect where the reference node is returned
    # the key of the reference is not the original's: NULL, or a fresh copy made here, with the constant-key bit the whole-node copy
    # may have brought along cleared before the node is handed out
    from .tree import _fresh_sources
    fresh_calls = _fresh_sources(u) | {'cJSON_strdup'}
    fcfg = fn.cfg()

    def own_copy(d):
        if d.kind != 'store' or d.r is None or d.fn is not fn:
            return False
        r_ = strip_casts(d.r)
        if not (r_.get('k') == 'call' and (callee_name(r_) in fresh_calls or indirect_field(r_) in ('allocate',))):
            return False
        sn = fcfg.node_of_expr(d.stmt['id'])
        if sn is None:
            return False
        clears = {m.id for m in fcfg.nodes for ev in node_effects(m)
                  if ev.kind == 'store' and is_mem(ev.lhs, 'type') and ev.node['op'] == '&=' and const_val(ev.node['r']) is not None and
                  not (const_val(ev.node['r']) & 512) and strip_casts(strip_casts(ev.lhs)['b']).get('d') == refv}
        region = fcfg.reachable(sn.id, stop=clears)
        return not any(rr.id in region and rr.expr is not None and strip_casts(rr.expr).get('k') == 'ref' and strip_casts(rr.expr)['d'] == refv
                       for rr in fcfg.returns())
    ok_key = all(d.kind == 'zero' or own_copy(d) for d in final['string'])
    R.ob('REFC', fn, None, 'the key of a reference node is not the original\'s', ok_key,
         'string = NULL, or a copy made here with cJSON_StringIsConst cleared' if ok_key else
         'key: %s' % '; '.join(sorted(d.describe() for d in final['string'] if d.kind != 'zero' and not own_copy(d))), key='ref-key')

    def flagged(d):
        if d.kind == 'store':
            return _mentions_macro(d.stmt, 'cJSON_IsReference')
        if d.kind == 'upd':
            return any(o.op == '|=' and _mentions_macro(o.stmt, 'cJSON_IsReference') for o in d.ops.values())
        return False
    ok_bit = all(flagged(d) for d in final['type'])
    R.ob('REFC', fn, None, 'reference node carries cJSON_IsReference', ok_bit,
         '' if ok_bit else 'type: %s' % '; '.join(sorted(d.describe() for d in final['type'] if not flagged(d))), key='ref-bit')
    # the half-built node must not be released as if it owned what the whole-node copy brought along
    for m in ncfg.nodes:
        root = m.expr if m.expr is not None else (m.decl.get('init') if m.kind == 'decl' and m.decl else None)
        if root is None or m.id not in nbefore:
            continue
        for c in walk(root):
            if c.get('k') == 'call' and callee_name(c) == 'cJSON_Delete' and c.get('args') and \
                    strip_casts(c['args'][0]).get('k') == 'ref' and strip_casts(c['args'][0])['d'] == refv:
                st = nbefore[m.id]
                tdefs = [d for d in st['type'] if d.kind != 'nocopy']
                borrowed = [f_ for f_ in ('child', 'valuestring') if any(d.kind == 'whole' for d in st[f_])]
                n += 1
                okd = not borrowed or (tdefs and all(flagged(d) for d in tdefs))
                R.ob('REFC', fn, c, 'a reference node is released only once it is marked as borrowing', okd,
                     'cJSON_IsReference is set (or nothing was copied yet)' if okd else
                     '%s still %s what the whole-node copy took from the original and cJSON_IsReference is not set yet: '
                     'cJSON_Delete releases the original\'s %s' % (expr_str(c['args'][0]), 'holds', ' and '.join(borrowed)), key='ref-release')
    for f in ('next', 'prev'):
        okl = all(d.kind == 'zero' for d in final[f])
        R.ob('REFC', fn, None, 'reference node has no sibling link %s' % f, okl,
             '' if okl else '%s: %s' % (f, '; '.join(sorted(d.describe() for d in final[f] if d.kind != 'zero'))), key='ref-' + f)
    # cast_away_const results
    for fn2 in u.function_list:
        par = fn2.parents()
        for c in fn2.calls():
            if callee_name(c) != 'cast_away_const':
                continue
            n += 1
            p = par.get(c['id'])
            while p is not None and p.get('k') == 'cast':
                p = par.get(p['id'])
            ok = False
            why = 'result used in %s' % (p.get('k') if p else '?')
            if p is not None and p.get('k') == 'bin' and p['op'] == '=':
                l = strip_casts(p['l'])
                if l.get('k') == 'mem':
                    # the node written to must be flagged as borrowing in this function
                    X = expr_str(strip_casts(l['b']))
                    flagged = any(strip_casts(a['l']).get('k') == 'mem' and strip_casts(a['l'])['f'] == 'type' and
                                  expr_str(strip_casts(strip_casts(a['l'])['b'])) == X and
                                  any(m in ('cJSON_IsReference', 'cJSON_StringIsConst') for x in walk(a['r']) for m in (x.get('m') or []))
                                  for a in assignments(fn2))
                    ok = flagged
                    why = 'stored into %s, which is flagged as borrowing' % expr_str(l) if ok else \
                        'stored into %s without an ownership flag: the library would later free caller memory' % expr_str(l)
                elif l.get('k') == 'ref':
                    # local temporary: must be stored under a flag later (add_item_to_object: new_key / new_type)
                    ok = any('cJSON_StringIsConst' in (x.get('m') or []) for a in assignments(fn2) for x in walk(a['r']))
                    why = 'temporary whose use is tied to cJSON_StringIsConst in this function'
            R.ob('REFC', fn2, c, 'const-dropped pointer is only stored under an ownership flag', ok, why, key='cac:%s' % fn2.name)
    R.floor('REFC', 'reference constructors / cast_away_const uses', n, 5)


def own8(units, R):
    """A payload pointer copied from one node to another (X->string = Y->string, valuestring, child) takes the
    ownership bit that describes it along: the copy is under a test of Y's bit, or X->type is assigned from Y->type in
    the same function, or the whole node is copied and then re-flagged (create_reference)."""
    u = units['cJSON.c']
    n = 0
    for fn in u.function_list:
        for a in assignments(fn):
            if a['op'] != '=':
                continue
            l = strip_casts(a['l'])
            if l.get('k') != 'mem' or l['f'] not in FLAG_FOR_FIELD:
                continue
            if 'cJSON' not in u.ty(strip_casts(l['b'])['ty'])['s']:
                continue
            X = expr_str(strip_casts(l['b']))
            srcs = [x for x in walk(a['r']) if x.get('k') == 'mem' and x['f'] == l['f'] and
                    'cJSON' in u.ty(strip_casts(x['b'])['ty'])['s'] and expr_str(strip_casts(x['b'])) != X]
            # only direct copies (possibly one arm of a conditional), not arguments of a copying call
            par = fn.parents()
            direct = []
            for x in srcs:
                p2 = par.get(x['id'])
                while p2 is not None and p2.get('k') == 'cast':
                    p2 = par.get(p2['id'])
                if p2 is a or (p2 is not None and p2.get('k') == 'cond'):
                    direct.append(x)
            for x in direct:
                n += 1
                Y = expr_str(strip_casts(x['b']))
                flag = FLAG_FOR_FIELD[l['f']]
                # (a) under a test of Y's bit
                cfg = fn.cfg()
                tested = False
                p2 = par.get(x['id'])
                while p2 is not None and p2.get('k') == 'cast':
                    p2 = par.get(p2['id'])
                tcache8 = field_cache(u, fn, 'type')

                def is_type_of(y, Y=Y):
                    if y.get('k') == 'mem' and expr_str(y) == '%s->type' % Y:
                        return True
                    return y.get('k') == 'ref' and y.get('d') in tcache8 and expr_str(tcache8[y['d']]) == '%s->type' % Y
                if p2 is not None and p2.get('k') == 'cond' and any(flag in (y.get('m') or []) for y in walk(p2['c'])) and \
                        any(is_type_of(y) for y in walk(p2['c'])):
                    tested = True
                # (b) the type of X is assigned from the type of Y
                carried = False
                for b in assignments(fn):
                    lb = strip_casts(b['l'])
                    if lb.get('k') == 'mem' and lb['f'] == 'type' and expr_str(strip_casts(lb['b'])) == X:
                        bit = 256 if flag == 'cJSON_IsReference' else 512
                        for y in walk(b['r']):
                            if not is_type_of(y):
                                continue
                            # the bit survives unless Y->type is ANDed with a mask that clears it on the way up
                            q = par.get(y['id'])
                            child = y
                            masked = False
                            while q is not None and q is not b:
                                if q.get('k') == 'bin' and q['op'] == '&':
                                    other = q['r'] if q['l'] is child or strip_casts(q['l']) is child else q['l']
                                    mv = const_val(other)
                                    if mv is not None and (mv & bit) == 0:
                                        masked = True
                                child = q
                                q = par.get(q['id'])
                            if not masked:
                                carried = True
                ok = tested or carried
                R.ob('OWN8', fn, a, 'pointer %s copied from %s keeps its ownership bit %s' % (l['f'], Y, flag), ok,
                     'copied under a test of the bit' if tested else ('type copied from %s' % Y if carried else
                     '%s->%s now points at memory whose ownership is described by %s->type, but %s is not carried over: '
                     'borrowed memory would be released (or owned memory leaked)' % (X, l['f'], Y, flag)),
                     key='carry:%s:%s' % (l['f'], Y))
    R.floor('OWN8', 'payload pointers copied between nodes', n, 0)


# ---- DEL1: cJSON_Delete releases exactly what the node owns ---------------------------------------------------------

def del1(units, R):
    """cJSON_Delete, one node at a time: for each of the 32 combinations of (reference bit, constant-key bit, child /
    valuestring / key present) the path the code takes is followed and what it releases is compared with the ownership
    rules: the child chain and the value string unless the node is a reference, the key unless it is constant, the node
    itself always and last, and nothing of the node is read after the node was released.  OWN5 says borrowed memory is
    never freed; this rule adds the other direction (owned memory is always freed) and the order."""
    u = units['cJSON.c']
    fn = u.fn('cJSON_Delete')
    cfg = fn.cfg()
    if not fn.params:
        raise AnalysisBroken('DEL1: cJSON_Delete has no parameter')
    item = fn.params[0]
    FLAGS = {'cJSON_IsReference': 'R', 'cJSON_StringIsConst': 'C'}
    FIELDS = ('child', 'valuestring', 'string')

    def field_of(e):
        """'child' etc. when e is item->field (item = the parameter or a local it was copied to: not supported)"""
        e = strip_casts(e)
        if e.get('k') == 'mem' and is_ref(e['b']) and strip_casts(e['b'])['d'] == item['d']:
            return e['f']
        return None

    def flag_of(e):
        e = strip_casts(e)
        if e.get('k') == 'bin' and e['op'] == '&':
            for (a, b) in ((e['l'], e['r']), (e['r'], e['l'])):
                if field_of(a) == 'type':
                    for m in (strip_casts(b).get('m') or []):
                        if m in FLAGS:
                            return FLAGS[m]
        return None

    tcache = field_cache(u, fn, 'type')

    def truth(e, env):
        """True/False/None for an atomic condition under the abstract node env"""
        e = strip_casts(expand_cached(e, tcache))         # the type word read once into a local at the top of the iteration
        f = flag_of(e)
        if f:
            return env[f]
        if field_of(e) in FIELDS:
            return env[field_of(e)]
        if is_ref(e) and e['d'] == item['d']:
            return True
        p = cmp_parts(e)
        if p and p[2] == 0 and p[1] in ('==', '!='):
            inner = truth(p[0], env)
            if inner is None:
                return None
            return inner if p[1] == '!=' else (not inner)
        if e.get('k') == 'bin' and e['op'] in ('==', '!='):
            for (a, b) in ((e['l'], e['r']), (e['r'], e['l'])):
                if is_null_const(b):
                    t = truth(a, env)
                    if t is None:
                        return None
                    return t if e['op'] == '!=' else (not t)
        return None
    import itertools
    # tests of a counter (how deep the recursion is, how many nodes were handled): they say nothing about the node, so both
    # outcomes are followed for every kind of node - whatever a node owns has to be released on either
    def counter_only(e):
        refs = [x for x in walk(e) if x.get('k') == 'ref' and x.get('dk') != 'fn']
        return bool(refs) and not any(x.get('k') in ('mem', 'call', 'idx') or (x.get('k') == 'un' and x.get('op') == '*') for x in walk(e)) and \
            all(u.ty(x.get('ty0', x['ty']))['c'] == 'int' and x.get('d') != item['d'] for x in refs)
    counters = [nd for nd in cfg.nodes if nd.kind == 'branch' and nd.expr is not None and truth(nd.expr, {
        'R': False, 'C': False, 'child': False, 'valuestring': False, 'string': False}) is None and counter_only(nd.expr)]
    if len(counters) > 3:
        raise AnalysisBroken('DEL1: cJSON_Delete tests %d counters' % len(counters))
    bad = []
    n_cases = 0
    for (Rb, Cb, ch, vs, st) in itertools.product((False, True), repeat=5):
      for cvals in itertools.product((False, True), repeat=len(counters)):
        env = {'R': Rb, 'C': Cb, 'child': ch, 'valuestring': vs, 'string': st,
               '@cnt': {nd.id: v for nd, v in zip(counters, cvals)},
               '@cnt-desc': ', '.join('%s %s' % (expr_str(nd.expr)[:30], 'true' if v else 'false') for nd, v in zip(counters, cvals))}
        n_cases += 1
        events = []        # ('release', what) | ('read', field)
        nid = cfg.entry.id
        steps = 0
        freed_item = False
        moved_on = False
        while nid != cfg.exit.id and steps < 500 and not moved_on:
            steps += 1
            node = cfg.nodes[nid]
            for ev in node_effects(node):
                if ev.kind == 'load':
                    f = field_of(ev.node)
                    if f is not None:
                        events.append(('read-after-free' if freed_item else 'read', f))
                elif ev.kind == 'store':
                    f = field_of(ev.lhs)
                    if f is not None:
                        if freed_item:
                            events.append(('write-after-free', f))
                        if f in FIELDS and ev.node['op'] == '=' and is_null_const(ev.node['r']):
                            env = dict(env)
                            env[f] = False
                        elif f in FIELDS or f == 'type':
                            raise AnalysisBroken('DEL1: %s: cJSON_Delete modifies %s->%s' % (fn.where(ev.node), item['n'], f))
                    elif is_ref(ev.lhs) and strip_casts(ev.lhs)['d'] == item['d']:
                        moved_on = True          # item = next: this node is done
                elif ev.kind == 'call':
                    c = ev.node
                    cn = callee_name(c)
                    arg = strip_casts(c['args'][0]) if c.get('args') else None
                    rel = (cn in RELEASES) or (cn is None and indirect_field(c) == 'deallocate')
                    if rel and arg is not None:
                        f = field_of(arg)
                        if f in FIELDS:
                            events.append(('release', f))
                        elif is_ref(arg) and arg['d'] == item['d']:
                            events.append(('release', 'node'))
                            freed_item = True
                        else:
                            events.append(('release', expr_str(arg)[:30]))
            if moved_on:
                break
            nxt = None
            succ = cfg.succ[nid]
            if node.kind == 'branch':
                t = truth(node.expr, env)
                if t is None and node.id in env.get('@cnt', {}):
                    t = env['@cnt'][node.id]
                if t is None:
                    raise AnalysisBroken('DEL1: %s: condition %s of cJSON_Delete is not about the node being deleted'
                                         % (fn.where(node.expr), expr_str(node.expr)[:50]))
                for (y, l) in succ:
                    if l is not None and l[0] == ('T' if t else 'F'):
                        nxt = y
            elif len(succ) == 1:
                nxt = succ[0][0]
            elif not succ:
                break
            else:
                raise AnalysisBroken('DEL1: unexpected control flow in cJSON_Delete at line %d' % node.line)
            if nxt is None:
                break
            nid = nxt
        rel = [w for (k, w) in events if k == 'release']
        want = set()
        if not Rb and ch:
            want.add('child')
        if not Rb and vs:
            want.add('valuestring')
        if not Cb and st:
            want.add('string')
        want.add('node')
        problems = []
        if set(rel) != want or len(rel) != len(set(rel)):
            problems.append('releases %s, should release %s' % (sorted(rel), sorted(want)))
        if rel and rel[-1] != 'node':
            problems.append('the node is not released last')
        uaf = [w for (k, w) in events if k in ('read-after-free', 'write-after-free')]
        if uaf:
            problems.append('%s->%s used after the node was released' % (item['n'], uaf[0]))
        if problems:
            bad.append((env, problems))
    desc = lambda env: '%s%s node with%s child, with%s value string, with%s key%s' % (
        'reference ' if env['R'] else '', 'constant-key' if env['C'] else 'plain', '' if env['child'] else 'out',
        '' if env['valuestring'] else 'out', '' if env['string'] else 'out',
        (' when ' + env['@cnt-desc'] + ' (a test of a counter, which a tree built through the API can make come out either way)')
        if env.get('@cnt-desc') else '')
    R.ob('DEL1', fn, None, 'cJSON_Delete releases exactly what each kind of node owns, the node itself last', not bad,
         'all %d combinations of the two ownership bits and the three payload pointers' % n_cases if not bad else
         '%s: %s (%d of %d combinations wrong)' % (desc(bad[0][0]), '; '.join(bad[0][1]), len(bad), n_cases), key='delete-table')
    R.floor('DEL1', 'ownership combinations followed through cJSON_Delete', n_cases, 32)


# ---- DBL1: no block is handed to a release function twice ------------------------------------------------------------------

def _path_vars(e):
    return {x['d'] for x in walk(e) if x.get('k') == 'ref' and x.get('dk') in ('local', 'param', 'var', 'global', None) and 'd' in x}


def _always_releases_param(u, fn, null_stores_ok=False):
    """What fn certainly disposes of: [(parameter index, field or None)] such that every path to fn's end passes a release (or a
    reallocate) of that parameter, or of that field of it, and fn never stores to the parameter / the field."""
    out = set()
    if not fn.params:
        return out
    cfg = None
    groups = {}
    sites = list(_direct_release_calls(u, fn))
    for c in fn.calls():
        cn = callee_name(c)
        if ((cn is None and indirect_field(c) == 'reallocate') or cn == 'realloc') and c['args']:
            sites.append((c, strip_casts(c['args'][0]), False))
    for (c, e, _deep) in sites:
        key = None
        if e.get('k') == 'ref' and e.get('dk') == 'param':
            key = (e['d'], None)
        elif e.get('k') == 'mem' and strip_casts(e['b']).get('k') == 'ref' and strip_casts(e['b']).get('dk') == 'param':
            key = (strip_casts(e['b'])['d'], e['f'])
        if key is not None:
            groups.setdefault(key, []).append(c)
    for (d, f), calls in groups.items():
        pi = [i for i, p in enumerate(fn.params) if p['d'] == d]
        if not pi:
            continue
        if any(strip_casts(a['l']).get('k') == 'ref' and strip_casts(a['l']).get('d') == d for a in assignments(fn)):
            continue
        if f is not None and any(strip_casts(a['l']).get('k') == 'mem' and strip_casts(a['l'])['f'] == f and
                                 strip_casts(strip_casts(a['l'])['b']).get('d') == d and
                                 not (null_stores_ok and a['op'] == '=' and is_null_const(a['r'])) for a in assignments(fn)):
            continue
        cfg = cfg or fn.cfg()
        stops = {node_containing(cfg, c).id for c in calls}
        if cfg.exit.id not in cfg.reachable(stop=stops) or not _feasibly_avoids(cfg, fn, stops):
            out.add((pi[0], f))
    return out


def _cond_key(e):
    """(text of the tested value, negated?) with NULL/zero comparisons normalised: x == NULL, !x -> (x, True)"""
    e = strip_casts(e)
    neg = False
    while e.get('k') == 'un' and e['op'] == '!':
        e = strip_casts(e['e'])
        neg = not neg
    if e.get('k') == 'bin' and e['op'] in ('==', '!='):
        for (a, b) in ((e['l'], e['r']), (e['r'], e['l'])):
            if is_null_const(b) or const_val(b) == 0:
                return expr_str(strip_casts(a)), (e['op'] == '==') != neg
    return expr_str(e), neg


def _feasibly_avoids(cfg, fn, stops):
    """Is the end of the function reachable without passing a node of `stops`, on a path whose branch outcomes do not
    contradict each other (same tested value, no store to it in between)?"""
    work = [(cfg.entry.id, frozenset())]
    seen = set()
    steps = 0
    while work:
        nid, facts = work.pop()
        if (nid, facts) in seen:
            continue
        seen.add((nid, facts))
        steps += 1
        if steps > 100000:
            raise AnalysisBroken('DBL1: path search in %s does not finish' % fn.name)
        if nid in stops:
            continue
        if nid == cfg.exit.id:
            return True
        node = cfg.nodes[nid]
        fd = dict(facts)
        changed = set()
        for ev in node_effects(node):
            if ev.kind in ('store', 'incdec') and ev.lhs is not None:
                changed.add(expr_str(strip_casts(ev.lhs)))
            if ev.kind == 'declinit':
                changed.add(ev.lhs.get('n'))
            if ev.kind == 'call':
                changed.add('(')
        for k in list(fd):
            if any(ch == k or (ch != '(' and _mentions(k, ch)) or (ch == '(' and ('(' in k or '->' in k or '[' in k or '*' in k)) for ch in changed):
                del fd[k]
        for (y, label) in cfg.succ[nid]:
            f2 = dict(fd)
            if label is not None and label[0] in ('T', 'F') and node.kind == 'branch':
                k, neg = _cond_key(label[1])
                val = (label[0] == 'T') != neg
                if k in f2 and f2[k] != val:
                    continue
                f2[k] = val
            work.append((y, frozenset(f2.items())))
    return False


def dbl1(units, R, unit_names=('cJSON.c', 'cJSON_Utils.c')):
    """Between two releases of the same access path on one feasible path of a function, the path (or a variable it is built from)
    is assigned.  Releases: the release entry points, the deallocate hook, static helpers that release a field of their argument
    or their argument itself on every path, and a successful reallocate (its first argument is gone once the result is known to
    be non-NULL; unknown counts as gone).  Paths are followed with the truth of every condition they passed, so
    `if (a) free(x); ... if (!a) free(x);` is not a report."""
    n = 0
    nfun = 0
    for un in unit_names:
        u = units[un]
        unconditional = {}
        for g in u.function_list:
            if g.static:
                ps = _always_releases_param(u, g)
                if ps:
                    unconditional[g.name] = ps
        for fn in u.function_list:
            rels = []       # (call, target string, expression, kind)
            for (c, e, _deep) in _direct_release_calls(u, fn):
                rels.append((c, e, 'release'))
            for c in fn.calls():
                cn = callee_name(c)
                if cn in unconditional and cn != fn.name:
                    # a helper counts as a release of what it disposes of on *every* one of its paths; what it releases on some
                    # paths only is not known to be released here (and is examined inside the helper itself)
                    for (pi, f) in unconditional[cn]:
                        if pi < len(c['args']):
                            a = strip_casts(c['args'][pi])
                            if f is None:
                                rels.append((c, a, 'release'))
                            else:
                                syn = {'k': 'mem', 'f': f, 'arrow': True, 'b': c['args'][pi], 'ty': a.get('ty'), 'id': -c['id'] - 1, 'loc': c['loc']}
                                rels.append((c, syn, 'release'))
                if ((cn is None and indirect_field(c) == 'reallocate') or cn == 'realloc') and c['args']:
                    rels.append((c, strip_casts(c['args'][0]), 'realloc'))
            rels = [(c, e, kind) for (c, e, kind) in rels
                    if e.get('k') in ('ref', 'mem', 'idx') or (e.get('k') == 'un' and e['op'] == '*')]
            if not rels:
                continue
            nfun += 1
            cfg = fn.cfg()
            by_target = {}
            for (c, e, kind) in rels:
                by_target.setdefault((expr_str(e), tuple(sorted(_path_vars(e)))), []).append((c, e, kind))
            for (T, _vs), group in by_target.items():
                n += len(group)
                e0 = group[0][1]
                vars_ = _path_vars(e0)
                prefixes = set()
                x = e0
                while True:
                    prefixes.add(expr_str(x))
                    if x.get('k') in ('mem', 'idx'):
                        x = strip_casts(x['b'])
                    elif x.get('k') == 'un' and x['op'] == '*':
                        x = strip_casts(x['e'])
                    else:
                        break
                relnodes = {}
                for (c, e, kind) in group:
                    relnodes.setdefault(node_containing(cfg, c).id, []).append((c, kind))

                def kills(node):
                    for ev in node_effects(node):
                        if ev.kind in ('store', 'incdec') and ev.lhs is not None and expr_str(strip_casts(ev.lhs)) in prefixes:
                            return True
                        if ev.kind == 'declinit' and ev.lhs.get('d') in vars_:
                            return True
                        if ev.kind == 'addr' and ev.lhs is not None and expr_str(strip_casts(ev.lhs)) in prefixes:
                            return True      # &x handed to somebody who may store into it
                    return False
                killers = {m.id for m in cfg.nodes if m.id not in relnodes and kills(m)}
                # cheap filter: is a second release reachable at all?
                cand = False
                for rid in relnodes:
                    reach = cfg.reachable(rid, stop=killers)
                    if any(r2 in reach for r2 in relnodes if r2 != rid) or any(y == rid for x2 in reach for (y, _l) in cfg.succ[x2]) \
                            or len(relnodes[rid]) > 1:
                        cand = True
                witness = None
                if cand:
                    witness = _dbl_search(cfg, fn, T, relnodes, killers, kills)
                for (c, e, kind) in group:
                    bad = witness is not None and witness[1] is c
                    R.ob('DBL1', fn, c, 'no second release of %s without a store to it in between' % T, not bad,
                         ('the block was already released at line %d on the path %s' % (witness[0], witness[2])) if bad else
                         ('no feasible path reaches this release with %s already released' % T if cand else
                          'no other release of %s is reachable without a store to it' % T),
                         key='double:%s:%s' % (fn.name, T))
    R.floor('DBL1', 'release sites examined', n, 40)
    R.note('DBL1: %d release sites in %d functions' % (n, nfun))


def _dbl_search(cfg, fn, T, relnodes, killers, kills):
    """Path search with the truth of passed conditions; returns (line of the first release, second call, path) or None."""
    def cond_key(e):
        e = strip_casts(e)
        neg = False
        while e.get('k') == 'un' and e['op'] == '!':
            e = strip_casts(e['e'])
            neg = not neg
        if e.get('k') == 'bin' and e['op'] in ('==', '!='):
            for (a, b) in ((e['l'], e['r']), (e['r'], e['l'])):
                if is_null_const(b) or const_val(b) == 0:
                    return expr_str(strip_casts(a)), (e['op'] == '==') != neg    # (x == NULL) true <=> x false
        return expr_str(e), neg

    def vars_of(s, node):
        return s

    work = [(cfg.entry.id, frozenset(), None, ())]
    seen = set()
    steps = 0
    while work:
        nid, facts, armed, trail = work.pop()
        key = (nid, facts, armed)
        if key in seen:
            continue
        seen.add(key)
        steps += 1
        if steps > 200000:
            raise AnalysisBroken('DBL1: path search in %s does not finish' % fn.name)
        node = cfg.nodes[nid]
        fd = dict(facts)
        if nid in relnodes:
            for (c, kind) in relnodes[nid]:
                isnull = fd.get(T) is False
                if armed is not None and armed[0] in ('yes', 'maybe') and not isnull:
                    return (armed[1], c, ' -> '.join(str(l) for l in trail[-8:] + (node.line,)))
                if kind == 'release':
                    armed = ('yes', node.line, None)
                else:
                    # reallocate: gone when the result is non-NULL; remember where the result goes
                    dest = None
                    for ev in node_effects(node):
                        if ev.kind == 'store' and ev.rhs is not None and any(x is c for x in walk(ev.rhs)):
                            dest = expr_str(strip_casts(ev.lhs))
                        if ev.kind == 'declinit' and ev.rhs is not None and any(x is c for x in walk(ev.rhs)):
                            dest = ev.lhs.get('n')
                    armed = ('maybe', node.line, dest)
                    if dest is not None:
                        fd.pop(dest, None)
        elif nid in killers:
            armed = None
        # stores invalidate facts about what they change
        changed = set()
        for ev in node_effects(node):
            if ev.kind in ('store', 'incdec') and ev.lhs is not None:
                changed.add(expr_str(strip_casts(ev.lhs)))
            if ev.kind == 'declinit':
                changed.add(ev.lhs.get('n'))
            if ev.kind == 'call':
                changed.add('(')       # anything mentioning a call, and anything reached through pointers
        if changed:
            for k in list(fd):
                if any(ch == k or (ch != '(' and _mentions(k, ch)) or (ch == '(' and ('(' in k or '->' in k or '[' in k or '*' in k)) for ch in changed):
                    if nid in relnodes and k == T:
                        continue
                    del fd[k]
        for (y, label) in cfg.succ[nid]:
            f2 = dict(fd)
            a2 = armed
            if label is not None and label[0] in ('T', 'F') and node.kind == 'branch':
                k, neg = cond_key(label[1])
                val = (label[0] == 'T') != neg
                if k in f2 and f2[k] != val:
                    continue
                f2[k] = val
                if armed is not None and armed[0] == 'maybe' and armed[2] == k:
                    a2 = ('yes', armed[1], None) if val else None
            work.append((y, frozenset(f2.items()), a2, trail + ((node.line,) if node.kind == 'branch' or nid in relnodes else ())))
    return None


def _mentions(cond, name):
    import re
    return re.search(r'(?<![A-Za-z0-9_>.])' + re.escape(name) + r'(?![A-Za-z0-9_])', cond) is not None


def own9(units, R):
    """Clearing an ownership bit is a claim: `X->type &= ~cJSON_StringIsConst` says X owns X->string from here on (cJSON_Delete
    will free it).  On every path through such a store to the function's end, the memory the bit describes is X's own: X is a
    node created in this function, or the field was assigned - on that path - a fresh copy, NULL, or a pointer taken from
    another node under the clear edge of *that* node's bit (ownership handed over), or the bit was already tested clear.
    A path on which the field still holds what it held on entry, a borrowed pointer (cast_away_const) or another node's field
    taken without looking at its bit, is reported.  Path-sensitive (states are followed along the CFG with the kinds of the
    locals involved), so `new_key` being a constant key on one path and a copy on the other is told apart."""
    from .tree import _fresh_sources
    u = units['cJSON.c']
    BIT = {'cJSON_IsReference': 256, 'cJSON_StringIsConst': 512}
    FIELDS = {}
    for f_, fl_ in FLAG_FOR_FIELD.items():
        FIELDS.setdefault(fl_, []).append(f_)
    fresh = _fresh_sources(u) | {'cJSON_Duplicate_rec', 'cJSON_Duplicate', 'cJSON_strdup'}
    n = 0

    def flag_masks(e):
        """(bits surely cleared, bits surely set) among the two ownership bits by the value of e, where a read of a node's
        type word keeps what was there.  Per bit: 'k' kept from the old word, 'c' clear, 's' set, '?' not known."""
        def bits(e):
            e = strip_casts(e)
            v = const_val(e)
            if v is not None:
                return tuple('s' if v & m else 'c' for m in (0x100, 0x200))
            k = e.get('k')
            if k == 'mem' and e['f'] == 'type':
                return ('k', 'k')
            if k == 'bin' and e['op'] in ('&', '|'):
                x, y = bits(e['l']), bits(e['r'])
                out = []
                for p_, q_ in zip(x, y):
                    if e['op'] == '&':
                        r_ = 'c' if 'c' in (p_, q_) else ('s' if (p_, q_) == ('s', 's') else ('?' if '?' in (p_, q_) else 'k'))
                    else:
                        r_ = 's' if 's' in (p_, q_) else ('c' if (p_, q_) == ('c', 'c') else ('?' if '?' in (p_, q_) else 'k'))
                    out.append(r_)
                return tuple(out)
            if k == 'un' and e['op'] == '~':
                return tuple({'s': 'c', 'c': 's'}.get(p_, '?') for p_ in bits(e['e']))
            if k == 'cond':
                x, y = bits(e['t']), bits(e['e'])
                return tuple(p_ if p_ == q_ else '?' for p_, q_ in zip(x, y))
            return ('?', '?')
        e0 = strip_casts(e)
        if const_val(e0) is not None or e0.get('k') not in ('bin', 'cond', 'un'):
            return 0, 0
        bt = bits(e0)
        clr = (0x100 if bt[0] == 'c' else 0) | (0x200 if bt[1] == 'c' else 0)
        st = (0x100 if bt[0] == 's' else 0) | (0x200 if bt[1] == 's' else 0)
        return clr, st

    for fn in u.function_list:
        if fn.body is None:
            continue
        clears = []
        for a in assignments(fn):
            l = strip_casts(a['l'])
            if l.get('k') == 'mem' and l['f'] == 'type' and 'cJSON' in u.ty(strip_casts(l['b'])['ty'])['s']:
                clears.append(a)
        if not clears:
            continue
        # is any bit ever cleared here (directly or through an int local)?
        int_marks = {}
        for a in assignments(fn):
            if is_ref(a['l']) and u.ty(strip_casts(a['l']).get('ty0', strip_casts(a['l'])['ty']))['c'] == 'int' and a['op'] == '=':
                c_, s_ = flag_masks(a['r'])
                if c_ or s_:
                    int_marks.setdefault(strip_casts(a['l'])['d'], []).append((a['id'], c_, s_))
        for d_ in fn.locals():
            if 'init' in d_:
                c_, s_ = flag_masks(d_['init'])
                if c_ or s_:
                    int_marks.setdefault(d_['d'], []).append((d_.get('id', -d_['d']), c_, s_))
        relevant = False
        for a in clears:
            if a['op'] == '&=' and const_val(a['r']) is not None and (~const_val(a['r']) & 0x300):
                relevant = True
            elif a['op'] == '=':
                c_, s_ = flag_masks(a['r'])
                r0 = strip_casts(a['r'])
                if c_ or (r0.get('k') == 'ref' and r0.get('d') in int_marks and any(m[1] for m in int_marks[r0['d']])):
                    relevant = True
        if not relevant:
            continue
        cfg = fn.cfg()
        params = {p['d'] for p in fn.params}

        def base_name(e):
            b = strip_casts(e)
            return expr_str(b) if b.get('k') == 'ref' else None

        def kind_of(e, st):
            e0 = strip_casts(e)
            if is_null_const(e) or e0.get('null'):
                return 'null'
            if e0.get('k') == 'call':
                cn = callee_name(e0)
                if cn in fresh or (cn is None and indirect_field(e0) in ('allocate', 'reallocate')):
                    return 'fresh'
                if cn == 'cast_away_const':
                    return 'borrowed'
                return 'unknown'
            if e0.get('k') == 'ref':
                if e0.get('d') in st['var']:
                    return st['var'][e0['d']]
                return 'borrowed' if e0.get('dk') == 'param' else 'unknown'
            if e0.get('k') == 'mem' and e0['f'] in FLAG_FOR_FIELD:
                Y = base_name(e0['b'])
                if Y is not None and (Y, FLAG_FOR_FIELD[e0['f']]) in st['clear']:
                    return 'owned'
                return 'held'
            if e0.get('k') == 'cond':
                ks = {kind_of(e0['t'], st), kind_of(e0['e'], st)}
                # (Y->type & F) ? shared : copy   keeps the bit with the pointer elsewhere (OWN8); here: unknown unless both fine
                return ks.pop() if len(ks) == 1 else ('fresh' if ks <= {'fresh', 'null', 'owned'} else 'unknown')
            if e0.get('k') == 'str':
                return 'borrowed'
            return 'unknown'

        def freeze(st):
            return (tuple(sorted(st['var'].items(), key=repr)), tuple(sorted(st['fld'].items())), tuple(sorted(st['cleared'])),
                    tuple(sorted(st['clear'])), tuple(sorted(st['imark'].items())), tuple(sorted(st['truth'].items())))

        def thaw(fz):
            return {'var': dict(fz[0]), 'fld': dict(fz[1]), 'cleared': set(fz[2]), 'clear': set(fz[3]), 'imark': dict(fz[4]),
                    'truth': dict(fz[5])}
        st0 = {'var': {}, 'fld': {}, 'cleared': set(), 'clear': set(), 'imark': {}, 'truth': {}}
        assigned_vars = {strip_casts(a_['l'])['d'] for a_ in assignments(fn) if is_ref(a_['l'])}
        seen = {}
        work = [(cfg.entry.id, freeze(st0))]
        bad = {}
        steps = 0
        while work:
            nid, fz = work.pop()
            if fz in seen.setdefault(nid, set()):
                continue
            seen[nid].add(fz)
            steps += 1
            if steps > 40000:
                raise AnalysisBroken('OWN9: %s: too many path states' % fn.name)
            st = thaw(fz)
            node = cfg.nodes[nid]
            if nid == cfg.exit.id or node.kind == 'return':
                for (X, F, sid) in st['cleared']:
                    if (X, F) in st['clear']:
                        continue        # the bit was known to be clear already
                    for f_ in FIELDS.get(F, []):
                        fk = st['fld'].get((X, f_), 'entry')
                        xk = None
                        for d_, k_ in st['var'].items():
                            pass
                        if fk in ('fresh', 'null', 'owned'):
                            continue
                        if st['var'].get('node:' + X) == 'fresh':
                            continue
                        bad.setdefault((sid, X, F, f_, fk), node.line)
                if node.kind == 'return':
                    continue
            # effects
            root = node.expr if node.expr is not None else (node.decl.get('init') if node.kind == 'decl' and node.decl and 'init' in node.decl else None)
            if node.kind == 'decl' and node.decl is not None and root is not None:
                d_ = node.decl
                if u.ty(d_['ty'])['c'] == 'ptr':
                    k_ = kind_of(root, st)
                    st['var'][d_['d']] = k_
                    if 'cJSON' in u.ty(d_['ty'])['s']:
                        st['var']['node:' + d_['n']] = k_
                        st['fld'] = {kk: v for kk, v in st['fld'].items() if kk[0] != d_['n']}
                        st['cleared'] = {c for c in st['cleared'] if c[0] != d_['n']}
                        st['clear'] = {c for c in st['clear'] if c[0] != d_['n']}
                elif u.ty(d_['ty'])['c'] == 'int':
                    c_, s_ = flag_masks(root)
                    st['imark'][d_['d']] = (c_, s_)
            elif root is not None and node.kind != 'branch':
                for ev in node_effects(node):
                    if ev.kind != 'store':
                        continue
                    a = ev.node
                    l = strip_casts(a['l'])
                    if l.get('k') == 'ref':
                        t = u.ty(l.get('ty0', l['ty']))
                        if t['c'] == 'ptr' and a['op'] == '=':
                            k_ = kind_of(a['r'], st)
                            st['var'][l['d']] = k_
                            if 'cJSON' in t['s']:
                                st['var']['node:' + l['n']] = k_
                                # the node variable now designates another node: what was known about its fields is gone
                                st['fld'] = {kk: v for kk, v in st['fld'].items() if kk[0] != l['n']}
                                st['cleared'] = {c for c in st['cleared'] if c[0] != l['n']}
                                st['clear'] = {c for c in st['clear'] if c[0] != l['n']}
                        elif t['c'] == 'int' and a['op'] == '=':
                            st['imark'][l['d']] = flag_masks(a['r'])
                            r0 = strip_casts(a['r'])
                            if r0.get('k') == 'ref' and r0.get('d') in st['imark']:
                                st['imark'][l['d']] = st['imark'][r0['d']]
                    elif l.get('k') == 'mem' and 'cJSON' in u.ty(strip_casts(l['b'])['ty'])['s']:
                        X = base_name(l['b'])
                        if X is None:
                            continue
                        if l['f'] in FLAG_FOR_FIELD and a['op'] == '=':
                            st['fld'][(X, l['f'])] = kind_of(a['r'], st)
                        elif l['f'] == 'type':
                            c_, s_ = 0, 0
                            if a['op'] == '&=' and const_val(a['r']) is not None:
                                c_ = ~const_val(a['r']) & 0x300
                            elif a['op'] == '|=' and const_val(a['r']) is not None:
                                s_ = const_val(a['r']) & 0x300
                            elif a['op'] == '=':
                                c_, s_ = flag_masks(a['r'])
                                r0 = strip_casts(a['r'])
                                if r0.get('k') == 'ref' and r0.get('d') in st['imark']:
                                    c_, s_ = st['imark'][r0['d']]
                            for F, bit in BIT.items():
                                if c_ & bit:
                                    st['cleared'].add((X, F, a['id']))
                                    st['clear'].discard((X, F))
                                if s_ & bit:
                                    st['cleared'] = {c for c in st['cleared'] if not (c[0] == X and c[1] == F)}
                                    st['clear'].discard((X, F))
            for (y, lab) in cfg.succ[nid]:
                s2 = st
                if node.kind == 'branch' and lab is not None and lab[0] in ('T', 'F') and node.expr is not None:
                    e = strip_casts(node.expr)
                    pol = lab[0] == 'T'
                    # the same test of a never-assigned flag parameter taken twice goes the same way twice
                    if e.get('k') == 'ref' and e.get('dk') in ('param', 'local') and e.get('d') not in assigned_vars:
                        known = st['truth'].get(e['d'])
                        if known is not None and known != pol:
                            continue
                        if known is None:
                            s2 = thaw(freeze(st))
                            s2['truth'][e['d']] = pol
                            work.append((y, freeze(s2)))
                            continue
                    pc = cmp_parts(e)
                    if pc is not None and pc[2] == 0 and pc[1] in ('==', '!='):
                        if pc[1] == '==':
                            pol = not pol
                        e = strip_casts(pc[0])
                    if e.get('k') == 'bin' and e['op'] == '&':
                        for (x_, y_) in ((e['l'], e['r']), (e['r'], e['l'])):
                            x0 = strip_casts(x_)
                            m = const_val(y_)
                            if x0.get('k') == 'mem' and x0['f'] == 'type' and m is not None and base_name(x0['b']) is not None:
                                for F, bit in BIT.items():
                                    if m == bit and not pol:
                                        s2 = thaw(freeze(st))
                                        s2['clear'].add((base_name(x0['b']), F))
                work.append((y, freeze(s2)))
        clearing_sites = {c[2] for states in seen.values() for fz in states for c in thaw(fz)['cleared']}
        for sid in sorted(clearing_sites):
            n += 1
            a = next(x for x in clears if x['id'] == sid)
            mine = [(k, v) for k, v in bad.items() if k[0] == sid]
            if not mine:
                R.ob('OWN9', fn, a, 'where %s clears an ownership bit the node owns what the bit describes' % expr_str(a)[:50], True,
                     'on every path through the store the payload is a fresh copy, NULL, handed over under its owner\'s clear bit, '
                     'or the node was created here', key='clear:%s' % expr_str(a)[:50])
                continue
            (sid_, X, F, f_, fk), line = sorted(mine, key=repr)[0]
            why = {'entry': 'still holds what it held when the function was entered',
                   'borrowed': 'was assigned a pointer the library only borrows',
                   'held': 'was assigned another node\'s pointer without looking at that node\'s %s bit' % F,
                   'unknown': 'was assigned a value of unknown ownership'}.get(fk, fk)
            R.ob('OWN9', fn, a, 'where %s clears an ownership bit the node owns what the bit describes' % expr_str(a)[:50], False,
                 'on a path to line %d %s->%s %s, yet %s is cleared: cJSON_Delete would release memory the node does not own'
                 % (line, X, f_, why, F), key='clear:%s' % expr_str(a)[:50])
    R.floor('OWN9', 'stores that clear an ownership bit', n, 3)


# ---- OWN10: nothing is written into memory a node only borrows ------------------------------------------------------------------

def _bit_clear_edge(X, flag, tcache):
    """predicate over CFG edges: on this edge the ownership bit `flag` of node X is known to be clear"""
    bit = {'cJSON_IsReference': 256, 'cJSON_StringIsConst': 512}[flag]

    def is_flag_test(x):
        x = strip_casts(expand_cached(x, tcache))
        if x.get('k') == 'bin' and x['op'] == '&':
            for (a, b) in ((x['l'], x['r']), (x['r'], x['l'])):
                a0 = strip_casts(a)
                if a0.get('k') == 'mem' and a0['f'] == 'type' and expr_str(strip_casts(a0['b'])) == X and \
                        (flag in (strip_casts(b).get('m') or []) or (const_val(b) is not None and const_val(b) == bit)):
                    return True
        return False

    def clear_edge(nn, l):
        if nn.kind != 'branch' or l is None or nn.expr is None:
            return False
        x = strip_casts(nn.expr)
        if is_flag_test(x):
            return l[0] == 'F'
        if x.get('k') == 'un' and x['op'] == '!' and is_flag_test(strip_casts(x['e'])):
            return l[0] == 'T'
        p = cmp_parts(x)
        if p and is_flag_test(p[0]) and p[2] == 0 and p[1] in ('==', '!='):
            return (p[1] == '==') == (l[0] == 'T')
        x = strip_casts(expand_cached(x, tcache))
        p = cmp_parts(x)
        if p and p[1] in ('==', '!=') and p[2] is not None and (p[2] & bit) == 0:
            m0 = strip_casts(p[0])
            if m0.get('k') == 'bin' and m0['op'] == '&':
                for (a, b) in ((m0['l'], m0['r']), (m0['r'], m0['l'])):
                    a0 = strip_casts(a)
                    mv = const_val(b)
                    if a0.get('k') == 'mem' and a0['f'] == 'type' and expr_str(strip_casts(a0['b'])) == X and mv is not None and (mv & bit):
                        return (p[1] == '==') == (l[0] == 'T')
        return False
    return clear_edge


LIBC_WRITERS = {'strcpy': 0, 'strncpy': 0, 'strcat': 0, 'strncat': 0, 'memcpy': 0, 'memmove': 0, 'memset': 0, 'sprintf': 0, 'snprintf': 0,
                '__builtin_strcpy': 0, '__builtin_memcpy': 0, '__builtin_memmove': 0, '__builtin___strcpy_chk': 0, '__builtin___memcpy_chk': 0}


def own10(units, R, floor=1):
    """cJSON.c: bytes are written into X->valuestring / X->string of a node the function was handed (strcpy, memcpy, ... with that
    field as destination, or a store through it) only where the ownership bit that describes the field is known to be clear: a
    cJSON_IsReference node borrows its text from the caller or from another tree (a string literal, the original of an item
    reference), a cJSON_StringIsConst key belongs to the caller - overwriting either changes, or faults on, memory the node does
    not own.  Nodes created in the function itself are exempt."""
    from .tree import _fresh_sources
    u = units['cJSON.c']
    fresh = _fresh_sources(u) | {'cJSON_New_Item'}
    n = 0
    for fn in u.function_list:
        if fn.body is None:
            continue
        sites = []
        # a local that holds the field (char *current = object->valuestring;) stands for it
        held = {}
        ldefs = {}
        for a_ in assignments(fn):
            if is_ref(a_['l']):
                ldefs.setdefault(strip_casts(a_['l'])['d'], []).append(a_['r'] if a_['op'] == '=' else None)
        for d_ in fn.locals():
            if 'init' in d_:
                ldefs.setdefault(d_['d'], []).append(d_['init'])
        for d_, rs_ in ldefs.items():
            rs_ = [r_ for r_ in rs_ if r_ is None or not (is_null_const(r_) or strip_casts(r_).get('null'))]
            if len(rs_) == 1 and rs_[0] is not None:
                r0_ = strip_casts(rs_[0])
                if r0_.get('k') == 'mem' and r0_.get('arrow') and r0_['f'] in ('valuestring', 'string'):
                    held[d_] = r0_

        def field_of(d):
            d = strip_casts(d)
            while d.get('k') == 'bin' and d['op'] in ('+', '-'):
                d = strip_casts(d['l'])
            if d.get('k') == 'mem' and d.get('arrow') and d['f'] in ('valuestring', 'string'):
                return d
            if d.get('k') == 'ref' and d.get('d') in held:
                return held[d['d']]
            return None
        for c in fn.calls():
            cn = callee_name(c)
            if cn in LIBC_WRITERS and c.get('args'):
                d = field_of(c['args'][LIBC_WRITERS[cn]])
                if d is not None:
                    sites.append((c, d))
        for a in assignments(fn):
            l = strip_casts(a['l'])
            b = None
            if l.get('k') == 'idx':
                b = field_of(l['b'])
            elif l.get('k') == 'un' and l['op'] == '*':
                b = field_of(l['e'])
            if b is not None:
                sites.append((a, b))
        if not sites:
            continue
        cfg = fn.cfg()
        tcache = field_cache(u, fn, 'type')
        newly = set()
        for d_ in fn.locals():
            srcs = [d_['init']] if 'init' in d_ else []
            srcs += [a_['r'] for a_ in assignments(fn) if is_ref(a_['l']) and strip_casts(a_['l'])['d'] == d_['d'] and a_['op'] == '=']
            calls_ = [strip_casts(x) for x in srcs if not is_null_const(x) and not strip_casts(x).get('null')]
            if calls_ and all(x.get('k') == 'call' and callee_name(x) in fresh for x in calls_):
                newly.add(d_['d'])
        for (site, m) in sites:
            base = strip_casts(m['b'])
            if 'cJSON' not in u.ty(base.get('ty0', base['ty']))['s']:
                continue
            if base.get('k') == 'ref' and base.get('d') in newly:
                continue
            n += 1
            X = expr_str(base)
            flag = FLAG_FOR_FIELD[m['f']]
            node = node_containing(cfg, site)
            ok = guarded_by(cfg, node.id, _bit_clear_edge(X, flag, tcache))
            R.ob('OWN10', fn, site, 'bytes are written into %s only while %s is clear' % (expr_str(m), flag), ok,
                 'reachable only through the clear edge of a test of %s->type & %s' % (X, flag) if ok else
                 'reachable with the bit set: the node only borrows that memory (a string literal behind cJSON_CreateStringReference, '
                 'the text of another tree), and it is overwritten in place', key='write:%s' % expr_str(m))
    R.floor('OWN10', 'writes into text a node may only borrow', n, floor)
