"""Field states of a node under construction.

For a function F and a local `v` of type cJSON* the analysis follows, along every path of F's CFG, which definition of
each field of *v is in effect: the constructor's memset, a whole-node copy (memcpy / struct assignment), a store
v->f = e, an update v->f op= e, a store made by a helper that receives v, or the summary of the static helper whose
result v was initialised from (followed two levels deep, with the helper's parameters bound to the caller's arguments).
On the edge of a NULL test of v where v is null there is no node and every field is NOCOPY.

The clients (TAB14 for cJSON_Duplicate_rec, REFC for create_reference) judge the definitions that are still in effect
where the node leaves the function (return v) or is released (cJSON_Delete(v)); a definition that is overwritten on
every path before that (memcpy followed by string = NULL) is not judged.
"""
from ..facts import AnalysisBroken, walk, strip_casts, expr_str, is_null_const, const_val, ASSIGN_OPS, callee_name, indirect_field
from .common import cmp_parts


class Def:
    """One definition of a field. kind:
       'uninit'  nothing stored yet (raw allocation)
       'zero'    zeroed: memset(v, 0, sizeof) in a constructor, or an explicit NULL/0 store
       'store'   v->f = r
       'upd'     v->f op= r  (prev: the definitions it updates)
       'whole'   whole-node copy from *src (src: expression)
       'callee'  a helper that receives v stores this field
       'nocopy'  v is NULL here
       'unknown' v was assigned something the analysis does not follow
    `fn` is the function the definition is written in, `bind` maps that function's parameters (decl ids) to the
    argument expressions of the outermost caller (for helper summaries)."""
    __slots__ = ('kind', 'field', 'r', 'op', 'stmt', 'fn', 'bind', 'prev', 'src', 'why', 'ops')

    def __init__(self, kind, field=None, r=None, op=None, stmt=None, fn=None, bind=None, prev=(), src=None, why=''):
        self.kind, self.field, self.r, self.op, self.stmt, self.fn = kind, field, r, op, stmt, fn
        self.bind, self.src, self.why = bind or {}, src, why
        # an update keeps the definitions it updates flattened: base definitions + the set of update statements applied
        base, ops = set(), {}
        for p in prev:
            if p.kind == 'upd':
                base |= set(p.prev)
                ops.update(p.ops)
            else:
                base.add(p)
        if kind == 'upd':
            ops[(fn.name if fn else None, stmt['id'])] = self
        self.prev = tuple(sorted(base, key=lambda d: repr(d.key())))
        self.ops = ops

    def key(self):
        return (self.kind, self.field if self.kind in ('store', 'upd', 'callee') else None, self.stmt['id'] if self.stmt else None,
                self.fn.name if self.fn else None, tuple(repr(p.key()) for p in self.prev), tuple(sorted(map(repr, self.ops))))

    def __hash__(self):
        return hash(self.key())

    def __eq__(self, o):
        return isinstance(o, Def) and self.key() == o.key()

    def line(self):
        return (self.stmt.get('loc') or [0])[0] if self.stmt else 0

    def describe(self):
        ln = self.line()
        at = ' at line %d' % ln if ln else ''
        inn = ' in %s' % self.fn.name if self.fn else ''
        if self.kind == 'store':
            return '%s = %s%s%s' % (self.field, expr_str(strip_casts(self.r))[:40], at, inn)
        if self.kind == 'upd':
            return '%s %s %s%s%s' % (self.field, self.op, expr_str(strip_casts(self.r))[:40], at, inn)
        if self.kind == 'whole':
            return 'whole-node copy from %s%s%s' % (expr_str(self.src)[:30], at, inn)
        if self.kind == 'zero':
            return 'zeroed%s%s' % (at, inn)
        if self.kind == 'callee':
            return 'stored by %s%s' % (self.why, at)
        if self.kind == 'uninit':
            return 'never stored (raw allocation%s)' % inn
        return self.kind + at + inn


NOCOPY = Def('nocopy')


def _value(r):
    """the value of an assignment chain a = b = c is c"""
    r0 = strip_casts(r)
    while r0.get('k') == 'bin' and r0.get('op') == '=':
        r0 = strip_casts(r0['r'])
    return r0


def _is_zero(r):
    r0 = _value(r)
    return is_null_const(r0) or bool(r0.get('null')) or const_val(r0) == 0


class NodeStates:
    MAXDEPTH = 2

    def __init__(self, u, record='cJSON'):
        self.u = u
        self.rec = u.record(record)
        self.fields = [f['n'] for f in self.rec['fields']]
        self.recname = record
        self._summaries = {}

    # -- helpers -------------------------------------------------------------------------------------------------
    def _is_whole_size(self, e):
        e = strip_casts(e)
        if e.get('k') == 'sizeof':
            t = self.u.ty(e['argty']) if 'argty' in e else None
            return t is not None and t.get('c') == 'record' and t.get('s', '').split()[-1] == self.recname
        return False

    def _all(self, d):
        return {f: frozenset([d]) for f in self.fields}

    def _param_stores(self, h, idx, seen=()):
        """fields of *param idx that h (or a helper it passes the parameter on to) may store"""
        if h.body is None or idx >= len(h.params):
            return set()
        pd = h.params[idx]['d']
        out = set()
        for x in h.nodes():
            if x.get('k') == 'bin' and x.get('op') in ASSIGN_OPS:
                l = strip_casts(x['l'])
                if l.get('k') == 'mem' and strip_casts(l['b']).get('k') == 'ref' and strip_casts(l['b']).get('d') == pd:
                    out.add(l['f'])
            elif x.get('k') == 'call' and callee_name(x) in self.u.functions and callee_name(x) not in seen and callee_name(x) != h.name:
                for j, a in enumerate(x.get('args', [])):
                    a0 = strip_casts(a)
                    if a0.get('k') == 'ref' and a0.get('d') == pd:
                        out |= self._param_stores(self.u.functions[callee_name(x)], j, seen + (h.name,))
        return out

    # -- the dataflow --------------------------------------------------------------------------------------------
    def run(self, F, var_d, bind=None, depth=0):
        """-> (cfg, before: {node id: state}, after: {node id: state}); state = {field: frozenset(Def)}"""
        bind = bind or {}
        cfg = F.cfg()
        entry = self._all(Def('uninit', fn=F))
        before = {cfg.entry.id: entry}
        after = {}
        work = [cfg.entry.id]
        while work:
            nid = work.pop()
            node = cfg.nodes[nid]
            st = dict(before[nid])
            st = self._transfer(F, cfg, node, var_d, st, bind, depth)
            after[nid] = st
            for (y, lab) in cfg.succ[nid]:
                out = st
                if node.kind == 'branch' and lab is not None and node.expr is not None:
                    isnull = self._null_edge(node.expr, var_d, lab[0])
                    if isnull is True:
                        out = self._all(NOCOPY)
                    elif isnull is False:
                        out = {f: (frozenset(d for d in ds if d.kind != 'nocopy') or ds) for f, ds in st.items()}
                old = before.get(y)
                if old is None:
                    before[y] = dict(out)
                    work.append(y)
                else:
                    new = {f: old[f] | out[f] for f in self.fields}
                    if any(new[f] != old[f] for f in self.fields):
                        before[y] = new
                        work.append(y)
        return cfg, before, after

    def _null_edge(self, cond, var_d, pol):
        """True: v is NULL on this edge; False: v is non-NULL; None: unrelated"""
        e = strip_casts(cond)
        neg = False
        while e.get('k') == 'un' and e.get('op') == '!':
            neg = not neg
            e = strip_casts(e['e'])
        if e.get('k') == 'ref' and e.get('d') == var_d:
            nonnull_when_true = not neg
        else:
            if e.get('k') != 'bin' or e.get('op') not in ('==', '!='):
                return None
            l, r = strip_casts(e['l']), strip_casts(e['r'])
            other = None
            if l.get('k') == 'ref' and l.get('d') == var_d and (is_null_const(e['r']) or const_val(e['r']) == 0):
                other = r
            elif r.get('k') == 'ref' and r.get('d') == var_d and (is_null_const(e['l']) or const_val(e['l']) == 0):
                other = l
            if other is None:
                return None
            nonnull_when_true = (e['op'] == '!=') != neg
        taken = (pol == 'T')
        return not (nonnull_when_true == taken)

    def _from_call(self, F, r, bind, depth, stmt):
        """state of the node returned by call r (assigned to v)"""
        cn = callee_name(r)
        if cn is None:
            if indirect_field(r) in ('allocate', 'reallocate'):
                return self._all(Def('uninit', fn=F, stmt=stmt))
            return self._all(Def('unknown', fn=F, stmt=stmt, why='result of an indirect call'))
        if cn in ('malloc', 'realloc'):
            return self._all(Def('uninit', fn=F, stmt=stmt))
        if cn == 'calloc':
            return self._all(Def('zero', fn=F, stmt=stmt))
        h = self.u.functions.get(cn)
        if h is None or h.body is None or depth >= self.MAXDEPTH or cn == F.name:
            return self._all(Def('unknown', fn=F, stmt=stmt, why='result of %s' % cn))
        # bind the helper's parameters to the outermost caller's expressions
        hb = {}
        for p, a in zip(h.params, r.get('args', [])):
            a0 = strip_casts(a)
            if a0.get('k') == 'ref' and a0.get('d') in bind:
                hb[p['d']] = bind[a0['d']]
            else:
                hb[p['d']] = a0
        return self.summary(h, hb, depth + 1)

    def summary(self, h, hb, depth):
        """join of the states of the returned local at the returns of h; None results (return NULL) are NOCOPY"""
        rets = [x for x in h.nodes() if x.get('k') == 'return' and 'e' in x]
        vars_ = {strip_casts(x['e'])['d'] for x in rets if strip_casts(x['e']).get('k') == 'ref' and strip_casts(x['e']).get('dk') != 'param'}
        out = {f: frozenset() for f in self.fields}
        if len(vars_) > 1:
            return self._all(Def('unknown', fn=h, why='%s returns more than one local' % h.name))
        vd = next(iter(vars_)) if vars_ else None
        cfg, before, after = self.run(h, vd, hb, depth) if vd is not None else (h.cfg(), {}, {})
        for rr in cfg.returns():
            if rr.expr is None:
                continue
            e = strip_casts(rr.expr)
            if is_null_const(rr.expr) or e.get('null'):
                st = self._all(NOCOPY)
            elif e.get('k') == 'ref' and e.get('d') == vd:
                st = before.get(rr.id)
                if st is None:
                    continue
            elif e.get('k') == 'call':
                st = self._from_call(h, e, hb, depth, rr.stmt)
            else:
                st = self._all(Def('unknown', fn=h, stmt=rr.stmt, why='%s returns %s' % (h.name, expr_str(e)[:30])))
            out = {f: out[f] | st[f] for f in self.fields}
        if not any(out.values()):
            return self._all(Def('unknown', fn=h, why='%s has no value return' % h.name))
        return out

    def _slot_targets(self, F, slot_d, var_d):
        """fields of the node var_d whose address the local slot_d may hold, when every definition of slot_d is the address of a field"""
        key = (F.name, slot_d, var_d)
        cache = self.__dict__.setdefault('_slots', {})
        if key in cache:
            return cache[key]
        from .common import assignments
        defs = [d_['init'] for d_ in F.locals() if d_['d'] == slot_d and 'init' in d_]
        for a_ in assignments(F):
            l_ = strip_casts(a_['l'])
            if l_.get('k') == 'ref' and l_.get('d') == slot_d:
                defs.append(a_['r'] if a_['op'] == '=' else None)
        out = set()
        ok = bool(defs)
        for r_ in defs:
            if r_ is None:
                ok = False
                break
            r0 = strip_casts(r_)
            if is_null_const(r_) or r0.get('null'):
                continue
            if r0.get('k') == 'un' and r0.get('op') == '&' and strip_casts(r0['e']).get('k') == 'mem' and \
                    strip_casts(strip_casts(r0['e'])['b']).get('k') == 'ref':
                m_ = strip_casts(r0['e'])
                if strip_casts(m_['b']).get('d') == var_d:
                    out.add(m_['f'])
            else:
                ok = False
                break
        cache[key] = frozenset(out) if ok else frozenset()
        return cache[key]

    def _transfer(self, F, cfg, node, var_d, st, bind, depth):
        root = node.expr
        if node.kind == 'decl' and node.decl is not None:
            if node.decl.get('d') == var_d:
                if 'init' in node.decl:
                    return self._assign_var(F, node.decl['init'], st, bind, depth, node.stmt or node.decl)
                return self._all(Def('unknown', fn=F, why='uninitialised pointer'))
            root = node.decl.get('init')
        if root is None:
            return st
        # evaluation order: operands before the operation -> post-order over the expression
        events = []

        def post(e):
            if not isinstance(e, dict):
                return
            k = e.get('k')
            if k == 'bin' and e.get('op') in ASSIGN_OPS:
                post(e['r'])
                post(e['l'])
                events.append(e)
                return
            for key in ('b', 'e', 'l', 'r', 'c', 't', 'i', 'fn'):
                if key in e and isinstance(e[key], dict):
                    post(e[key])
            for a in e.get('args', []) or []:
                post(a)
            if k == 'call':
                events.append(e)
        post(root)
        for ev in events:
            if ev.get('k') == 'bin':
                l = strip_casts(ev['l'])
                if l.get('k') == 'ref' and l.get('d') == var_d:
                    if ev['op'] == '=':
                        st = self._assign_var(F, ev['r'], st, bind, depth, ev)
                    else:
                        st = self._all(Def('unknown', fn=F, stmt=ev, why='pointer arithmetic on the node'))
                elif l.get('k') == 'mem' and strip_casts(l['b']).get('k') == 'ref' and strip_casts(l['b']).get('d') == var_d:
                    f = l['f']
                    if f not in st:
                        continue
                    st = dict(st)
                    if ev['op'] == '=':
                        if _is_zero(ev['r']):
                            st[f] = frozenset([Def('zero', field=f, stmt=ev, fn=F, bind=bind)])
                        else:
                            st[f] = frozenset([Def('store', field=f, r=_value(ev['r']), stmt=ev, fn=F, bind=bind)])
                    else:
                        prev = [d for d in st[f] if d.kind != 'nocopy']
                        st[f] = frozenset([Def('upd', field=f, r=ev['r'], op=ev['op'], stmt=ev, fn=F, bind=bind, prev=prev)])
                elif l.get('k') == 'un' and l.get('op') == '*' and strip_casts(l['e']).get('k') == 'ref' and \
                        strip_casts(l['e']).get('d') != var_d and ev['op'] == '=' and self._slot_targets(F, strip_casts(l['e']).get('d'), var_d):
                    # *link = r with link a local that only ever holds addresses of link fields (&v->child, &x->next): where it may
                    # designate a field of v, the store is one more definition of that field next to the ones in effect
                    st = dict(st)
                    for f in self._slot_targets(F, strip_casts(l['e']).get('d'), var_d):
                        if f in st:
                            nd_ = Def('zero', field=f, stmt=ev, fn=F, bind=bind) if _is_zero(ev['r']) else \
                                Def('store', field=f, r=_value(ev['r']), stmt=ev, fn=F, bind=bind)
                            st[f] = frozenset(set(st[f]) | {nd_})
                elif l.get('k') == 'un' and l.get('op') == '*' and strip_casts(l['e']).get('k') == 'ref' and strip_casts(l['e']).get('d') == var_d:
                    # *v = *src
                    r = strip_casts(ev['r'])
                    if r.get('k') == 'un' and r.get('op') == '*':
                        st = self._all(Def('whole', stmt=ev, fn=F, bind=bind, src=self._bound(strip_casts(r['e']), bind)))
                    else:
                        st = self._all(Def('unknown', fn=F, stmt=ev, why='struct assignment'))
            else:
                cn = callee_name(ev)
                args = ev.get('args', []) or []
                a0 = strip_casts(args[0]) if args else {}
                first_is_v = a0.get('k') == 'ref' and a0.get('d') == var_d
                if cn in ('memcpy', 'memmove') and first_is_v and len(args) == 3:
                    if self._is_whole_size(args[2]):
                        st = self._all(Def('whole', stmt=ev, fn=F, bind=bind, src=self._bound(strip_casts(args[1]), bind)))
                    else:
                        st = self._all(Def('unknown', fn=F, stmt=ev, why='partial memcpy over the node'))
                elif cn == 'memset' and first_is_v and len(args) == 3:
                    if self._is_whole_size(args[2]) and const_val(args[1]) == 0:
                        st = self._all(Def('zero', stmt=ev, fn=F, bind=bind))
                    else:
                        st = self._all(Def('unknown', fn=F, stmt=ev, why='memset over the node'))
                elif cn in self.u.functions and cn != F.name:
                    for j, a in enumerate(args):
                        aj = strip_casts(a)
                        if aj.get('k') == 'ref' and aj.get('d') == var_d:
                            fs = self._param_stores(self.u.functions[cn], j)
                            if fs:
                                st = dict(st)
                                for f in fs:
                                    if f in st:
                                        st[f] = frozenset([Def('callee', field=f, stmt=ev, fn=F, bind=bind, why=cn)])
        return st

    def _bound(self, e, bind):
        e = strip_casts(e)
        if e.get('k') == 'ref' and e.get('d') in bind:
            return strip_casts(bind[e['d']])
        return e

    def _assign_var(self, F, r, st, bind, depth, stmt):
        r0 = _value(r)
        if is_null_const(r0) or r0.get('null') or const_val(r0) == 0:
            return self._all(NOCOPY)
        if r0.get('k') == 'call':
            return self._from_call(F, r0, bind, depth, stmt)
        return self._all(Def('unknown', fn=F, stmt=stmt, why='assigned %s' % expr_str(r0)[:30]))


def source_of(d, e, srcs):
    """does expression e (written in d.fn, parameters bound by d.bind) mention one of the outer declarations `srcs`?"""
    for x in walk(e):
        if x.get('k') == 'ref':
            if x.get('d') in srcs:
                return True
            b = d.bind.get(x.get('d'))
            if b is not None and any(y.get('k') == 'ref' and y.get('d') in srcs for y in walk(b)):
                return True
    return False
