"""BND rules: bounds facts for the parse family by forward dataflow (DESIGN.md section 3, BND1 BND2 BND4 BND5).

Abstract state (all facts are invariants of every concrete execution reaching the point):
  buf[B]  = (lo, hi)  bounds on  B.length - B.offset   (bytes readable from the buffer cursor)
  len[B]  = lo        lower bound of B.length
  off[B]  = (lo, hi)  bounds of B.offset when known (local buffers only)
  ptr[p]  = (lo, hi)  bounds on  length - (p - content)   for raw cursors into the same input
  int[v]  = (lo, hi)  interval of integer locals / parameters
  acc     = set of (term, v): "term[v] is readable" for a symbolic index variable v

A read of `cur[k]` needs buf.lo >= k+1 (or an acc fact); `p[k]` needs ptr.lo >= k+1; `arr[i]` on a local
array of S elements needs 0 <= i <= S-1.  Callee requirements ("parse_string needs one readable byte at
entry") are inferred as the least entry assumption under which the callee has no unjustified read, by a
fixpoint over the call graph, and are checked at every call site.
"""
from ..facts import (AnalysisBroken, walk, strip_casts, expr_str, is_null_const, const_val, ASSIGN_OPS, CMP_OPS,
                     callee_name)
from ..dataflow import solve, node_effects, access
from .common import all_functions
from .out import parse_format, conv_max_len

NEG = -(10 ** 9)
POS = 10 ** 9


def _clamp(x):
    return max(NEG, min(POS, x))


def _add(iv, k):
    lo, hi = iv
    return (lo if lo == NEG else _clamp(lo + k), hi if hi == POS else _clamp(hi + k))


TOP = (NEG, POS)


class St:
    __slots__ = ('buf', 'len', 'off', 'ptr', 'int', 'acc', 'rel')

    def __init__(self, buf=None, len_=None, off=None, ptr=None, int_=None, acc=frozenset(), rel=None):
        self.buf = buf or {}
        self.len = len_ or {}
        self.off = off or {}
        self.ptr = ptr or {}
        self.int = int_ or {}
        self.acc = acc
        self.rel = rel or {}      # p -> (q, lo, hi): p == q + k with k in [lo, hi]

    def copy(self):
        return St(dict(self.buf), dict(self.len), dict(self.off), dict(self.ptr), dict(self.int), self.acc, dict(self.rel))

    def __eq__(self, o):
        return (self.buf == o.buf and self.len == o.len and self.off == o.off and self.ptr == o.ptr
                and self.int == o.int and self.acc == o.acc and self.rel == o.rel)

    def __ne__(self, o):
        return not self.__eq__(o)


def _join_iv(a, b):
    return (min(a[0], b[0]), max(a[1], b[1]))


def _join_map(a, b, top=TOP):
    out = {}
    for k in set(a) & set(b):
        v = _join_iv(a[k], b[k])
        if v != top:
            out[k] = v
    return out


def join(a, b):
    ln = {}
    for k in set(a.len) & set(b.len):
        v = min(a.len[k], b.len[k])
        if v > 0:
            ln[k] = v
    rel = {}
    for k in set(a.rel) & set(b.rel):
        if a.rel[k][0] == b.rel[k][0]:
            rel[k] = (a.rel[k][0], min(a.rel[k][1], b.rel[k][1]), max(a.rel[k][2], b.rel[k][2]))
    return St(_join_map(a.buf, b.buf), ln, _join_map(a.off, b.off), _join_map(a.ptr, b.ptr),
              _join_map(a.int, b.int), a.acc & b.acc, rel)


class Site:
    __slots__ = ('node', 'what', 'ok', 'detail', 'rule', 'key')

    def __init__(self, rule, node, what, ok, detail, key):
        self.rule = rule
        self.node = node
        self.what = what
        self.ok = ok
        self.detail = detail
        self.key = key


class Analyzer:
    """One function of the parse family under an entry assumption."""

    def __init__(self, u, fn, assume, reqs, thresholds=None):
        self.u = u
        self.fn = fn
        self.pos_why = {}
        self.assume = assume          # param name -> lower bound of avail at entry
        self.reqs = reqs              # callee name -> {param index: k}
        self.cfg = fn.cfg()
        self.sites = {}
        self.pbuf_rec = _parse_buffer_record(u)
        self.field_alias = {}
        self.arrays = {}              # decl id -> element count for local arrays
        for d in fn.locals():
            t = u.ty(d['ty'])
            if t['c'] == 'array' and 'count' in t:
                self.arrays[d['d']] = (d['n'], t['count'])
        # locals that hold B->content / B->length for the whole function (single definition from the field; only valid
        # for fields the function itself never stores to)
        self.field_alias = {}
        stored_fields = {strip_casts(a['l'])['f'] for a in fn.nodes() if a.get('k') == 'bin' and a['op'] in ASSIGN_OPS
                         and strip_casts(a['l']).get('k') == 'mem'}
        ndefs = {}
        for a in fn.nodes():
            if a.get('k') == 'bin' and a['op'] in ASSIGN_OPS and strip_casts(a['l']).get('k') == 'ref':
                ndefs[strip_casts(a['l'])['d']] = ndefs.get(strip_casts(a['l'])['d'], 0) + 1
            if a.get('k') == 'un' and a['op'] in ('post++', 'post--', 'pre++', 'pre--') and strip_casts(a['e']).get('k') == 'ref':
                ndefs[strip_casts(a['e'])['d']] = ndefs.get(strip_casts(a['e'])['d'], 0) + 1
        for d in fn.locals():
            if 'init' in d and ndefs.get(d['d'], 0) == 0:
                i = strip_casts(d['init'])
                if i.get('k') == 'mem' and i['f'] in ('content', 'length') and i['f'] not in stored_fields:
                    self.field_alias[d['d']] = (None, i['f'], i)
            elif ndefs.get(d['d'], 0) == 1 and ('init' not in d or const_val(d['init']) == 0 or d['init'].get('null') or
                                                 strip_casts(d['init']).get('null')):
                # C89 style: declared with a dummy value, assigned once from the field before any use
                asg = [a for a in fn.nodes() if a.get('k') == 'bin' and a['op'] == '=' and strip_casts(a['l']).get('k') == 'ref' and
                       strip_casts(a['l'])['d'] == d['d']]
                if len(asg) != 1:
                    continue
                i = strip_casts(asg[0]['r'])
                if not (i.get('k') == 'mem' and i['f'] in ('content', 'length') and i['f'] not in stored_fields):
                    continue
                from .common import node_containing as _nc
                try:
                    an = _nc(self.cfg, asg[0])
                except AnalysisBroken:
                    continue
                uses = [x for x in fn.nodes() if x.get('k') == 'ref' and x.get('d') == d['d'] and x is not strip_casts(asg[0]['l'])]
                okd = True
                for x in uses:
                    try:
                        un = _nc(self.cfg, x)
                    except AnalysisBroken:
                        okd = False
                        break
                    if un.id == an.id or not self.cfg.dominates(an.id, un.id):
                        okd = False
                        break
                if okd:
                    self.field_alias[d['d']] = (None, i['f'], i)
        # integer locals that hold a copy of B->offset (size_t offset = buffer->offset; ... buffer->offset = offset;): every
        # plain assignment to them is from that field; ++/--/+= c move the copy like they would move the field
        self.offset_copies = {}
        srcs = {}
        for d in fn.locals():
            if 'init' in d:
                srcs.setdefault(d['d'], []).append(d['init'])
        for a in fn.nodes():
            if a.get('k') == 'bin' and a['op'] == '=' and strip_casts(a['l']).get('k') == 'ref':
                srcs.setdefault(strip_casts(a['l'])['d'], []).append(a['r'])
        for d in fn.locals():
            if u.ty(d['ty'])['c'] != 'int':
                continue
            ss = [x for x in srcs.get(d['d'], []) if const_val(x) != 0]
            if ss and all(strip_casts(x).get('k') == 'mem' and strip_casts(x)['f'] == 'offset' for x in ss):
                bs = {self.buf_key(strip_casts(x)['b']) for x in ss}
                if len(bs) == 1 and None not in bs:
                    self.offset_copies[d['d']] = (bs.pop(), d['n'])
        # integer locals used as an absolute index into B->content (content[i], content + i): their distance to B->length is
        # tracked like the distance of a pointer to the end of the input
        self.abs_index = {}          # decl id -> buffer key
        for x in fn.nodes():
            cands = []
            if x.get('k') == 'idx':
                cands.append((x['b'], x['i']))
            elif x.get('k') == 'bin' and x.get('op') == '+':
                cands += [(x['l'], x['r']), (x['r'], x['l'])]
            for (pb, pi) in cands:
                b0 = strip_casts(pb)
                bkey = None
                if b0.get('k') == 'ref' and b0.get('d') in self.field_alias and self.field_alias[b0['d']][1] == 'content':
                    bkey = '?alias'
                elif b0.get('k') == 'mem' and b0.get('f') == 'content':
                    bkey = '?field'
                if bkey is None:
                    continue
                i0 = strip_casts(pi)
                while i0.get('k') == 'bin' and i0['op'] in ('+', '-') and const_val(i0['r']) is not None:
                    i0 = strip_casts(i0['l'])
                if i0.get('k') == 'ref' and i0.get('dk') == 'local' and u.ty(i0.get('ty0', i0['ty']))['c'] == 'int' and \
                        i0['d'] not in self.offset_copies:
                    self.abs_index[i0['d']] = (b0, i0['n'])
        ths = set()
        for n in fn.nodes():
            v = const_val(n)
            if v is not None and -4096 < v < 4096:
                ths.update((v - 1, v, v + 1))
        self.thresholds = sorted(ths | {0})
        for d, (_b, f, i) in list(self.field_alias.items()):
            b = self.buf_key(i['b'])
            if b is None:
                del self.field_alias[d]
            else:
                self.field_alias[d] = (b, f)
        for d, (b0, n_) in list(self.abs_index.items()):
            b = self.buf_field(b0, 'content')
            if b is None:
                del self.abs_index[d]
            else:
                self.abs_index[d] = (b, n_)

    # ---- recognisers ---------------------------------------------------------------------------
    def is_pbuf_type(self, tid):
        s = self.u.ty(tid)['s'].replace('const', '').replace('*', '').replace('struct', '').strip()
        s = s.split('[')[0].strip()
        return s == self.pbuf_rec

    def buf_key(self, e):
        """Name of the parse buffer an expression designates (pointer to it or the object)."""
        e = strip_casts(e)
        k = e.get('k')
        if k == 'ref' and self.is_pbuf_type(e.get('ty0', e['ty'])):
            return e['n']
        if k == 'un' and e['op'] in ('&', '*'):
            return self.buf_key(e['e'])
        if k == 'call' and callee_name(e) in RETURNS_ARG and e['args']:
            return self.buf_key(e['args'][0])
        return None

    def buf_field(self, e, field):
        """B if e is B->field / B.field on a parse buffer (or a local that was initialised from it and never changes)."""
        e = strip_casts(e)
        if e.get('k') == 'mem' and e['f'] == field:
            return self.buf_key(e['b'])
        if e.get('k') == 'ref' and e.get('d') in self.field_alias and self.field_alias[e['d']][1] == field:
            return self.field_alias[e['d']][0]
        if field == 'offset' and e.get('k') == 'ref' and e.get('d') in getattr(self, 'offset_copies', {}):
            b, n = self.offset_copies[e['d']]
            return '%s#%s' % (b, n)         # a view of buffer b whose cursor is the local copy
        return None

    def ptr_norm(self, e):
        """Pointer expression -> (kind, key, const_offset) with kind in cur/ptr/content/arr; or None."""
        e = strip_casts(e)
        k = e.get('k')
        if k == 'bin' and e['op'] in ('+', '-'):
            cl, cr = const_val(e['l']), const_val(e['r'])
            if cr is not None and self.u.ty(e['l']['ty'])['c'] == 'ptr':
                b = self.ptr_norm(e['l'])
                if b:
                    return (b[0], b[1], b[2] + (cr if e['op'] == '+' else -cr))
                return None
            if cl is not None and e['op'] == '+' and self.u.ty(e['r']['ty'])['c'] == 'ptr':
                b = self.ptr_norm(e['r'])
                if b:
                    return (b[0], b[1], b[2] + cl)
                return None
            if e['op'] == '+':
                bl = self.buf_field(e['l'], 'content')
                br = self.buf_field(e['r'], 'offset')
                if bl and br and bl == br.split('#')[0]:
                    return ('cur', br, 0)
                bl = self.buf_field(e['r'], 'content')
                br = self.buf_field(e['l'], 'offset')
                if bl and br and bl == br.split('#')[0]:
                    return ('cur', br, 0)
            return None
        if k == 'ref' and e.get('d') in self.field_alias and self.field_alias[e['d']][1] == 'content':
            return ('content', self.field_alias[e['d']][0], 0)
        if k == 'ref':
            t = self.u.ty(e.get('ty0', e['ty']))
            if t['c'] == 'ptr':
                return ('ptr', e['n'], 0)
            if t['c'] == 'array' and e['d'] in self.arrays:
                return ('arr', e['d'], 0)
            return None
        b = self.buf_field(e, 'content')
        if b:
            return ('content', b, 0)
        if k == 'un' and e['op'] in ('post++', 'post--'):
            return self.ptr_norm(e['e'])
        return None

    # ---- relation p = q + k between raw cursors (k an interval) -------------------------------------------------
    def rel_of(self, pn, st):
        """For a normalised pointer (ptr, p, c): (root q, lo, hi) with the expression equal to q + [lo, hi]."""
        kind, key, c = pn
        if kind != 'ptr':
            return None
        r = st.rel.get(key)
        if r is None:
            return (key, c, c)
        return (r[0], r[1] + c if r[1] > NEG else NEG, r[2] + c if r[2] < POS else POS)

    # ---- interval evaluation of integer expressions -------------------------------------------------
    def ieval(self, e, st):
        e0 = e
        e = strip_casts(e)
        v = const_val(e0)
        if v is None:
            v = const_val(e)
        if v is not None:
            return (v, v)
        k = e.get('k')
        if k == 'ref':
            iv = st.int.get(e['d'])
            t = self.u.ty(e['ty'])
            if iv is None:
                iv = TOP
            if t['c'] == 'int' and t.get('unsigned'):
                iv = (max(iv[0], 0), iv[1])
            return iv
        if k == 'bin' and e['op'] == '-':
            # B.length - B.offset is what is left of the input
            bl, bo = self.buf_field(e['l'], 'length'), self.buf_field(e['r'], 'offset')
            if bl and bo and bl == bo.split('#')[0] and bo in st.buf:
                return st.buf[bo]
        if k == 'bin' and e['op'] in ('+', '-'):
            a, b = self.ieval(e['l'], st), self.ieval(e['r'], st)
            if e['op'] == '+':
                return (NEG if NEG in (a[0], b[0]) else _clamp(a[0] + b[0]), POS if POS in (a[1], b[1]) else _clamp(a[1] + b[1]))
            return (NEG if a[0] == NEG or b[1] == POS else _clamp(a[0] - b[1]), POS if a[1] == POS or b[0] == NEG else _clamp(a[1] - b[0]))
        if k == 'cond':
            return _join_iv(self.ieval(e['t'], st), self.ieval(e['e'], st))
        if k == 'bin' and e['op'] == '&':
            # x & m with a non-negative constant m lies in [0, m] whatever x is
            for m_ in (const_val(e['l']), const_val(e['r'])):
                if m_ is not None and m_ >= 0:
                    return (0, m_)
        if k == 'bin' and e['op'] == '%' and (const_val(e['r']) or 0) > 0:
            a = self.ieval(e['l'], st)
            if a[0] >= 0:
                return (0, const_val(e['r']) - 1)
        if k == 'bin' and e['op'] == '>>' and const_val(e['r']) is not None and 0 <= const_val(e['r']) < 63:
            a = self.ieval(e['l'], st)
            if a[0] >= 0:
                return (a[0] >> const_val(e['r']), a[1] >> const_val(e['r']) if a[1] < POS else POS)
        b = self.buf_field(e, 'offset')
        if b and b in st.off:
            return st.off[b]
        b = self.buf_field(e, 'length')
        if b:
            return (st.len.get(b, 0), POS)
        t = self.u.ty(e0['ty'])
        if t['c'] == 'int' and t.get('unsigned'):
            return (0, POS)
        return TOP

    # ---- obligations -----------------------------------------------------------------------------------
    def site(self, rule, node, what, ok, detail, key):
        sid = (rule, node['id'], what)
        old = self.sites.get(sid)
        if old is None or (old.ok and not ok):
            self.sites[sid] = Site(rule, node, what, ok, detail, key)

    def avail_of(self, pn, st):
        kind, key, c = pn
        if kind == 'cur':
            iv = st.buf.get(key, TOP)
        elif kind == 'ptr':
            iv = st.ptr.get(key)
            r = st.rel.get(key)
            if r is not None and r[0] in st.ptr and r[2] < POS:
                base = st.ptr[r[0]]
                via = (base[0] - r[2] if base[0] > NEG else NEG, POS)
                iv = via if iv is None else (max(iv[0], via[0]), iv[1])
            if r is not None and r[0].startswith('@cur:') and r[2] < POS and r[0][5:] in st.buf:
                base = st.buf[r[0][5:]]
                via = (base[0] - r[2] if base[0] > NEG else NEG, POS)
                iv = via if iv is None else (max(iv[0], via[0]), iv[1])
            # a counter that runs down in step with the pointer: (('rge', p, c), r) says that r + c bytes are readable at p
            for a_ in st.acc:
                if isinstance(a_[0], tuple) and a_[0][0] == 'rge' and a_[0][1] == key:
                    rlo = st.int.get(a_[1], TOP)[0]
                    if rlo > NEG:
                        via = (rlo + a_[0][2], POS)
                        iv = via if iv is None else (max(iv[0], via[0]), iv[1])
            if iv is None:
                return None
        else:
            return None
        return _add(iv, -c)

    def check_read(self, node, st, record):
        """node is an idx/deref lvalue being read."""
        acc = access(node)
        if acc is None:
            return
        base, idx = acc
        pn = self.ptr_norm(base)
        if pn is None:
            return
        kind, key, c = pn
        if kind == 'arr':
            self.check_array(node, key, c, idx, st, record, 'read')
            return
        if kind == 'content':
            ix = strip_casts(idx) if not isinstance(idx, int) else None
            vb = self.buf_field(ix, 'offset') if ix is not None else None
            if vb and vb.split('#')[0] == key and c == 0:
                kind, key, idx = 'cur', vb, 0       # B->content[copy of B->offset]
                pn = (kind, key, 0)
            else:
                k_ = 0
                i0 = ix
                while i0 is not None and i0.get('k') == 'bin' and i0['op'] in ('+', '-') and const_val(i0['r']) is not None:
                    k_ += const_val(i0['r']) if i0['op'] == '+' else -const_val(i0['r'])
                    i0 = strip_casts(i0['l'])
                if i0 is not None and i0.get('k') == 'ref' and i0.get('d') in self.abs_index and self.abs_index[i0['d']][0] == key and record:
                    av = st.ptr.get(self.idx_key(i0['d']))
                    need = c + k_ + 1
                    ok = av is not None and av[0] >= need and c + k_ >= 0
                    self.site('BND1', node, 'read %s needs %d readable byte(s) at index %s of %s.content' % (expr_str(node)[:50], need, i0['n'], key),
                              ok, 'proved %s.length - %s >= %s' % (key, i0['n'], av[0] if av is not None and av[0] > NEG else 'nothing'),
                              'read:%s.content[%s+%d]' % (key, i0['n'], c + k_))
                return
        if kind == 'ptr' and key not in self.tracked_ptrs:
            return
        if not record:
            return
        rule = 'BND1' if kind == 'cur' else 'BND2'
        av = self.avail_of(pn, st)
        term = '%s%s' % (('%s.cur' % key) if kind == 'cur' else key, ('+%d' % c) if c else '')
        if isinstance(idx, int) and idx + c < 0:
            # a byte in front of the pointer: so many bytes of the input must lie between its start and the pointer
            bh = self.beh_of((kind, key, 0), st)
            ok = bh is not None and bh >= -(idx + c) and av is not None and av[0] >= idx + c + 1
            self.site(rule, node, 'read %s needs %d byte(s) of the input in front of %s' % (expr_str(node)[:50], -(idx + c), term.split('+')[0]), ok,
                      'proved %s byte(s) in front of it' % (bh if bh is not None else 'no'), 'read:%s[%d]' % (term, idx))
        elif isinstance(idx, int):
            need = idx + 1
            ok = av is not None and av[0] >= need and idx + c >= 0
            self.site(rule, node, 'read %s needs %d readable byte(s) at %s' % (expr_str(node)[:50], need, term), ok,
                      'proved avail >= %s' % (av[0] if av and av[0] > NEG else 'nothing'), 'read:%s[%d]' % (term, idx))
        else:
            iv = self.ieval(idx, st)
            ok = False
            why = ''
            ix = strip_casts(idx)
            bkey = key if kind == 'cur' else None
            if kind == 'ptr' and key in st.rel and st.rel[key][0].startswith('@cur:') and st.rel[key][1] == st.rel[key][2] == 0:
                bkey = st.rel[key][0][len('@cur:'):]        # the pointer still equals that buffer's cursor
            below = [a[1] for a in st.acc if isinstance(a[0], tuple) and a[0][0] == 'lt' and ix.get('k') == 'ref' and a[0][1] == ix['d']
                     and (('cnt', bkey, 0), a[1]) in st.acc] if (bkey is not None and c == 0) else []
            if ix.get('k') == 'ref' and ((kind, key, c), ix['d']) in st.acc:
                ok = True
                why = 'guarded: (%s) + %s < length established for this value of %s' % (term, ix['n'], ix['n'])
            elif ix.get('k') == 'ref' and kind == 'ptr' and bkey is not None and c == 0 and (('cur', bkey, 0), ix['d']) in st.acc:
                ok = True
                why = 'guarded: %s is the cursor of %s, and cursor + %s < length is established for this value of %s' % (key, bkey, ix['n'], ix['n'])
            elif below and iv[0] >= 0:
                ok = True
                why = 'index below a count of bytes that was shown to be readable at %s' % term
            elif av is not None and iv[1] < POS and av[0] >= iv[1] + 1 and iv[0] >= 0:
                ok = True
                why = 'index <= %d, avail >= %d' % (iv[1], av[0])
            else:
                why = 'index in [%s,%s], avail >= %s' % (iv[0] if iv[0] > NEG else '-inf', iv[1] if iv[1] < POS else 'inf',
                                                        av[0] if av and av[0] > NEG else 'nothing')
            if not ok and iv[1] < 0 and iv[0] == NEG:
                # a walk back over the input by a growing distance, ended by what the bytes are (the byte that differs is the
                # sentinel): whether it stays inside the input is a fact about the contents, which this analysis does not have
                self.__dict__.setdefault('unmodelled_nodes', set()).add(node.get('id'))
                self.__dict__.setdefault('unmodelled', []).append(
                    '%s: %s reads ever further in front of %s; what stops the walk is the value of a byte, not a bound this analysis '
                    'can compare with' % (self.fn.where(node), expr_str(node)[:50], term))
                return
            self.site(rule, node, 'read %s at a variable index of %s' % (expr_str(node)[:50], term), ok, why,
                      'read:%s[%s]' % (term, expr_str(ix)))

    def check_array(self, node, did, c, idx, st, record, how):
        if not record:
            return
        name, count = self.arrays[did]
        if isinstance(idx, int):
            iv = (idx + c, idx + c)
        else:
            iv = _add(self.ieval(idx, st), c)
        ok = iv[0] >= 0 and iv[1] <= count - 1
        if not ok and not isinstance(idx, int):
            gov = self._value_governed(idx)
            if gov:
                # the index moves in a loop that is ended by what a value has become (a number running out of digits), not by a
                # comparison of the index: how often it turns is a fact about values, which intervals joined at the loop head lose
                self.__dict__.setdefault('unmodelled', []).append(
                    '%s: %s of %s[%d]: the index depends on %s, which is stepped in a loop that no test of it ends; how far it gets is a '
                    'fact about the values the loop consumes' % (self.fn.where(node), how, name, count, gov))
                return
        self.site('BND4', node, '%s of %s[%d] at %s' % (how, name, count, expr_str(node)[:40]), ok,
                  'index in [%s,%s]' % (iv[0] if iv[0] > NEG else '-inf', iv[1] if iv[1] < POS else 'inf'),
                  '%s:%s[%s]' % (how, name, expr_str(strip_casts(idx)) if not isinstance(idx, int) else idx))

    def _value_governed(self, idx, depth=0):
        """name of a local the index depends on that is stepped inside a loop none of whose tests mentions it, else None"""
        cfg = self.cfg
        if not hasattr(self, '_cycles'):
            self._cycles = []
            for h in [n.id for n in cfg.nodes if n.kind == 'nop' and n.name == 'loop-head']:
                self._cycles.append(cfg.reachable(h) & cfg.reachable(h, forward=False))
        for x in walk(idx):
            if x.get('k') != 'ref' or x.get('dk') != 'local':
                continue
            d = x['d']
            for cyc in self._cycles:
                stepped = False
                tested = False
                for nid in cyc:
                    nd = cfg.nodes[nid]
                    for ev in node_effects(nd):
                        if ev.kind in ('incdec', 'store') and strip_casts(ev.lhs).get('k') == 'ref' and strip_casts(ev.lhs).get('d') == d:
                            stepped = True
                    if nd.kind == 'branch' and nd.expr is not None and any(y.get('k') == 'ref' and y.get('d') == d for y in walk(nd.expr)):
                        tested = True
                if stepped and not tested:
                    return x['n']
            if depth < 2:
                defs = [a['r'] for a in self.fn.nodes() if a.get('k') == 'bin' and a.get('op') == '=' and
                        strip_casts(a['l']).get('k') == 'ref' and strip_casts(a['l']).get('d') == d]
                defs += [dd['init'] for dd in self.fn.locals() if dd['d'] == d and 'init' in dd]
                for r in defs:
                    g = self._value_governed(r, depth + 1)
                    if g:
                        return g
        return None

    # ---- transfer -------------------------------------------------------------------------------------------
    def idx_key(self, did):
        b, n = self.abs_index[did]
        return 'idx:%s:%s' % (b, n)

    def kill_var(self, st, did):
        if did in self.abs_index:
            st.ptr.pop(self.idx_key(did), None)
        st.int.pop(did, None)
        st.acc = frozenset(a for a in st.acc if a[1] != did and not (isinstance(a[0], tuple) and a[0][0] == 'lt' and a[0][1] == did))

    def kill_term(self, st, kind, key):
        st.acc = frozenset(a for a in st.acc if not ((a[0][0] == kind or (kind == 'cur' and a[0][0] == 'cnt') or
                                                      (kind == 'ptr' and a[0][0] == 'rge')) and a[0][1] == key))

    def assign_int(self, st, ref, iv, rhs=None):
        old_iv = st.int.get(ref['d'], TOP)
        old_counts = [a[0][1] for a in st.acc if isinstance(a[0], tuple) and a[0][0] == 'cnt' and a[0][2] == 0 and a[1] == ref['d']]
        self.kill_var(st, ref['d'])
        if iv != TOP:
            st.int[ref['d']] = iv
        if iv == (0, 0):
            self.zero_count(st, ref['d'])
        self.const_count(st, ref['d'], iv)
        # a count of readable bytes replaced by something that is not larger is still a count of readable bytes
        # (if (limit > 63) { limit = 63; })
        if old_counts and iv[1] < POS and old_iv[0] > NEG and iv[1] <= old_iv[0] and iv[0] >= 0:
            for B in old_counts:
                st.acc = st.acc | {(('cnt', B, 0), ref['d'])}
        if rhs is not None and strip_casts(rhs).get('k') == 'ref' and strip_casts(rhs).get('d') != ref['d']:
            # a copy of a count of readable bytes is one (length = i;)
            sd = strip_casts(rhs)['d']
            for a_ in list(st.acc):
                if isinstance(a_[0], tuple) and a_[0][0] == 'cnt' and a_[1] == sd:
                    st.acc = st.acc | {(a_[0], ref['d'])}
        if rhs is not None and ref['d'] in self.abs_index:
            r = strip_casts(rhs)
            c = 0
            if r.get('k') == 'bin' and r['op'] in ('+', '-') and const_val(r['r']) is not None:
                c, r = (const_val(r['r']) if r['op'] == '+' else -const_val(r['r'])), strip_casts(r['l'])
            bo = self.buf_field(r, 'offset')
            if bo and bo.split('#')[0] == self.abs_index[ref['d']][0] and bo in st.buf:
                st.ptr[self.idx_key(ref['d'])] = _add(st.buf[bo], -c)      # as far from the end as the cursor, minus c
        if rhs is not None:
            r = strip_casts(rhs)
            # v = B.length - B.offset [- c]: exactly (or less than) what is left of the input
            c = 0
            if r.get('k') == 'bin' and r['op'] == '-' and const_val(r['r']) is not None and const_val(r['r']) >= 0:
                c, r = const_val(r['r']), strip_casts(r['l'])
            if r.get('k') == 'bin' and r['op'] == '-':
                bl, bo = self.buf_field(r['l'], 'length'), self.buf_field(r['r'], 'offset')
                if bl and bo and bl == bo.split('#')[0]:
                    av = st.buf.get(bo, TOP)
                    if av[0] >= c:        # no wrap: offset + c <= length on this path
                        st.acc = st.acc | {(('cnt', bo, 0), ref['d'])}
                        # ... and exactly what is readable at every pointer that stands at the cursor right now
                        for pk, rl in st.rel.items():
                            if rl[0] == '@cur:' + bo and rl[1] == rl[2] == 0 and pk in self.tracked_ptrs:
                                st.acc = st.acc | {(('rge', pk, c), ref['d'])}

    def const_count(self, st, did, iv):
        """a counter set to a constant no larger than what is readable at a pointer (remaining = 4 with four bytes at digit): from here
        on it runs in step with that pointer if both are stepped together"""
        if iv[0] == iv[1] and 1 <= iv[0] < 4096:
            for pk in list(self.tracked_ptrs):
                av = st.ptr.get(pk)
                if av is not None and av[0] >= iv[0]:
                    st.acc = st.acc | {(('rge', pk, 0), did)}

    def zero_count(self, st, did):
        # zero bytes are readable at every cursor that is not behind its end
        for B, av in st.buf.items():
            if av[0] >= 0:
                st.acc = st.acc | {(('cnt', B, 0), did)}

    def transfer(self, node, st, record=False):
        st = st.copy()
        if record:
            self.check_published(node, st)
        for ev in node_effects(node):
            k = ev.kind
            if k == 'load':
                self.check_read(ev.node, st, record)
            elif k == 'store':
                self.do_store(ev, st, record)
            elif k == 'incdec':
                self.do_incdec(ev, st)
            elif k == 'call':
                self.do_call(ev.node, st, record)
            elif k == 'declinit':
                d = ev.lhs
                t = self.u.ty(d['ty'])
                if ev.rhs is None:
                    continue
                if t['c'] == 'ptr':
                    self.assign_ptr(st, d['n'], ev.rhs)
                elif t['c'] == 'int':
                    self.kill_var(st, d['d'])
                    iv = self.ieval(ev.rhs, st)
                    if iv != TOP:
                        st.int[d['d']] = iv
                    if iv == (0, 0):
                        self.zero_count(st, d['d'])
                    self.const_count(st, d['d'], iv)
                    if d['d'] in self.offset_copies:
                        b, n = self.offset_copies[d['d']]
                        view = '%s#%s' % (b, n)
                        src = self.buf_field(ev.rhs, 'offset')
                        st.buf.pop(view, None)
                        st.off.pop(view, None)
                        if src and src in st.buf:
                            st.buf[view] = st.buf[src]
                        if src and src in st.off:
                            st.off[view] = st.off[src]
                elif t['c'] == 'record' and self.is_pbuf_type(d['ty']):
                    init = strip_casts(ev.rhs)
                    if init.get('k') == 'initlist' and all(const_val(i) == 0 or i.get('k') == 'initlist' or i.get('null')
                                                           for i in init['inits']):
                        st.off[d['n']] = (0, 0)
                        st.len.pop(d['n'], None)
                        st.buf[d['n']] = (0, 0)
                        # "length == 0 implies offset == 0" holds from here until one of the two is stored to without the other
                        # side of the implication being known
                        st.acc = st.acc | {('zinv', d['n'])}
            elif k == 'addr':
                tgt = ev.lhs
                if tgt.get('k') == 'ref':
                    t = self.u.ty(tgt.get('ty0', tgt['ty']))
                    if t['c'] == 'int':
                        pass   # killed at the call that receives the address
        self.settle_counters(st)
        return st

    def settle_counters(self, st):
        """what the lockstep counters say about their pointers, written into the pointers' own bounds (facts that differ between
        two branches are dropped where the branches meet; the bounds are joined)"""
        for a_ in st.acc:
            if isinstance(a_[0], tuple) and a_[0][0] == 'rge':
                rlo = st.int.get(a_[1], TOP)[0]
                if rlo > NEG:
                    old = st.ptr.get(a_[0][1])
                    lo = rlo + a_[0][2]
                    st.ptr[a_[0][1]] = (lo, POS) if old is None else (max(old[0], lo), old[1])

    # ---- bytes behind a pointer: 'beh:<p>' in st.ptr holds (k, POS) when at least k bytes of the input lie in front of p ----
    def beh_get(self, st, name):
        v = st.ptr.get('beh:' + name)
        return v[0] if v is not None and v[0] > NEG else None

    def beh_set(self, st, name, k):
        if k is None or k < 0:
            st.ptr.pop('beh:' + name, None)
        else:
            st.ptr['beh:' + name] = (k, POS)

    def beh_of(self, pn, st):
        """lower bound of the number of input bytes in front of a normalised pointer, or None"""
        if pn is None:
            return None
        kind, key, c = pn
        if kind == 'content':
            k = c
        elif kind == 'cur':
            off = st.off.get(key)
            k = (off[0] if off is not None and off[0] > NEG else 0) + c
        elif kind == 'ptr':
            b = self.beh_get(st, key)
            if b is None:
                return None
            k = b + c
        else:
            return None
        return k if k >= 0 else None

    def scan_call(self, r0, st):
        """memchr(p, c, n) with n no larger than what is readable at p: the normalised p, else None"""
        if r0.get('k') != 'call' or callee_name(r0) not in ('memchr', '__builtin_memchr') or len(r0['args']) != 3:
            return None
        pn = self.ptr_norm(r0['args'][0])
        if pn is None or pn[0] not in ('ptr', 'cur'):
            return None
        n = strip_casts(r0['args'][2])
        if n.get('k') == 'bin' and n['op'] == '-' and self.side(n['l'], st)[0] == 'end' and self.ptr_norm(n['r']) == pn:
            return pn                   # everything up to the end of the input
        av = self.avail_of(pn, st)
        iv = self.ieval(n, st)
        if av is not None and av[0] > NEG and iv[1] < POS and iv[1] <= av[0]:
            return pn
        return None

    def assign_ptr(self, st, name, rhs):
        r0 = strip_casts(rhs)
        scanned = self.scan_call(r0, st)
        beh = self.beh_of(scanned if scanned is not None else self.ptr_norm(rhs), st)
        root = self.rel_of(scanned, st) if scanned is not None else None
        self._assign_ptr(st, name, rhs)
        if scanned is not None:
            # NULL, or the position of a byte of the input at or behind p: one byte is readable there
            self.tracked_ptrs.add(name)
            st.ptr[name] = (1, POS)
            if root is not None and root[0] != name:
                st.rel[name] = (root[0], root[1], POS)
        self.beh_set(st, name, beh)

    def _assign_ptr(self, st, name, rhs):
        st.ptr.pop(name, None)
        st.ptr.pop('beh:' + name, None)
        self.kill_term(st, 'ptr', name)
        r0 = strip_casts(rhs)
        if r0.get('k') == 'call' and callee_name(r0) in self.reqs.get('@ret', {}):
            # a position in the input returned by a family function (NULL or that many readable bytes)
            st.rel.pop(name, None)
            for k in [k for k, v in st.rel.items() if v[0] == name]:
                del st.rel[k]
            self.tracked_ptrs.add(name)
            st.ptr[name] = (self.reqs['@ret'][callee_name(r0)], POS)
            return
        pn = self.ptr_norm(rhs)
        st.rel.pop(name, None)
        for k in [k for k, v in st.rel.items() if v[0] == name]:
            del st.rel[k]
        if pn is None and r0.get('k') == 'bin' and r0['op'] == '+':
            # p = B->content + i for an absolute index i: p is as far from the end as i is
            for (x_, y_) in ((r0['l'], r0['r']), (r0['r'], r0['l'])):
                bc = self.buf_field(x_, 'content')
                i0 = strip_casts(y_)
                if bc and i0.get('k') == 'ref' and i0.get('d') in self.abs_index and self.abs_index[i0['d']][0] == bc:
                    av = st.ptr.get(self.idx_key(i0['d']))
                    self.tracked_ptrs.add(name)
                    if av is not None and av != TOP:
                        st.ptr[name] = av
                    return
        if pn is not None and pn[0] == 'ptr' and pn[1] != name:
            r = self.rel_of(pn, st)
            if r is not None and r[0] != name:
                st.rel[name] = r
        if pn is not None and pn[0] == 'cur':
            # p = buffer_at_offset(B) + c: p stays c bytes from B's cursor until B->offset is stored to, so what is learned
            # about B later (can_read) also holds for p
            st.rel[name] = ('@cur:' + pn[1], pn[2], pn[2])
        if pn is None:
            return
        av = self.avail_of(pn, st)
        if pn[0] in ('cur', 'ptr') and av is not None:
            if pn[0] == 'cur' or pn[1] in self.tracked_ptrs:
                self.tracked_ptrs.add(name)
                if av != TOP:
                    st.ptr[name] = av

    def do_store(self, ev, st, record):
        a = ev.node
        op = a['op']
        lhs = ev.lhs
        b = self.buf_field(lhs, 'offset')
        if b:
            if ('zinv', b.split('#')[0]) in st.acc and st.len.get(b.split('#')[0], 0) < 1 and not (op == '=' and const_val(a['r']) == 0):
                st.acc = st.acc - {('zinv', b.split('#')[0])}
            self.kill_term(st, 'cur', b)
            # pointers held relative to B's cursor: the cursor moves, they do not
            cdelta = const_val(a['r']) if op in ('+=', '-=') else None
            for k in [k for k, v in st.rel.items() if v[0] == '@cur:' + b]:
                if cdelta is None:
                    del st.rel[k]
                else:
                    d = cdelta if op == '+=' else -cdelta
                    v = st.rel[k]
                    st.rel[k] = (v[0], v[1] - d if v[1] > NEG else NEG, v[2] - d if v[2] < POS else POS)
            if op == '=':
                r = strip_casts(a['r'])
                c = const_val(a['r'])
                if c is not None:
                    st.off[b] = (c, c)
                    st.buf[b] = (st.len.get(b, 0) - c if st.len.get(b, 0) - c > NEG else NEG, POS)
                    if st.buf[b] == TOP:
                        st.buf.pop(b)
                    return
                st.off.pop(b, None)
                # a view takes over the state of its buffer (size_t offset = buffer->offset) and gives it back
                # (buffer->offset = offset)
                src = self.buf_field(r, 'offset')
                if src and src.split('#')[0] == b.split('#')[0] and src != b:
                    if src in st.buf:
                        st.buf[b] = st.buf[src]
                    else:
                        st.buf.pop(b, None)
                    if src in st.off:
                        st.off[b] = st.off[src]
                    return
                # offset = (size_t)(p - B->content)
                if r.get('k') == 'bin' and r['op'] == '-' and self.buf_field(r['r'], 'content') == b:
                    pn = self.ptr_norm(r['l'])
                    av = self.avail_of(pn, st) if pn else None
                    if av is not None and av != TOP:
                        st.buf[b] = av
                        return
                st.buf.pop(b, None)
                return
            c = const_val(a['r'])
            if op in ('+=', '-=') and c is not None:
                d = c if op == '+=' else -c
                if b in st.buf:
                    st.buf[b] = _add(st.buf[b], -d)
                if b in st.off:
                    st.off[b] = _add(st.off[b], d)
            else:
                st.buf.pop(b, None)
                st.off.pop(b, None)
            return
        b = self.buf_field(lhs, 'length') if strip_casts(lhs).get('k') != 'ref' else None     # the one assignment that makes a local an
        if b:                                                                                  # alias of the field is not a store to it
            if ('zinv', b) in st.acc and not (op == '=' and self.ieval(a['r'], st)[0] >= 1):
                st.acc = st.acc - {('zinv', b)}
            if op == '=':
                iv = self.ieval(a['r'], st)
                st.len.pop(b, None)
                if iv[0] > 0:
                    st.len[b] = iv[0]
                off = st.off.get(b)
                if off is not None and off[1] < POS:
                    lo = iv[0] - off[1] if iv[0] > NEG else NEG
                    hi = iv[1] - off[0] if iv[1] < POS else POS
                    st.buf[b] = (lo, hi)
                else:
                    st.buf.pop(b, None)
            else:
                st.len.pop(b, None)
                st.buf.pop(b, None)
            return
        b = self.buf_field(lhs, 'content') if strip_casts(lhs).get('k') != 'ref' else None
        if b:
            return
        l = strip_casts(lhs)
        poskey = None
        if l.get('k') == 'mem' and l['f'] == 'position':
            poskey = expr_str(l)
        elif l.get('k') == 'ref' and l.get('dk') == 'local' and self.u.ty(l.get('ty0', l['ty']))['c'] == 'int':
            # a scalar local that carries a failure position (size_t position = buffer->offset; ... X.position = position)
            tracked = any(f[0] in ('posin', 'posoff', 'poswhy') and f[1] == l['n'] for f in st.acc)
            if tracked or (op == '=' and (self.position_value(a['r'], st, probe=True)[0] is not None or self._mentions_position(a['r'], st))):
                poskey = l['n']
        if poskey is not None:
            # BND5: what is known about a failure position when it is stored; the verdict is given where it is published
            key = poskey
            st.acc = frozenset(f for f in st.acc if not (f[0] in ('posin', 'posoff', 'poswhy') and f[1] == key))
            if op == '=':
                kind, why = self.position_value(a['r'], st, probe=(l.get('k') != 'mem'))
                if kind == 'in':
                    st.acc = st.acc | {('posin', key)}
                elif kind is not None:
                    st.acc = st.acc | {('posoff', key, kind)}
                self.pos_why[key + '@%d' % a['id']] = why
                st.acc = st.acc | {('poswhy', key, a['id'])}
        if l.get('k') == 'ref':
            t = self.u.ty(l.get('ty0', l['ty']))
            if t['c'] == 'ptr':
                if op == '=':
                    self.assign_ptr(st, l['n'], a['r'])
                else:
                    self.kill_term(st, 'ptr', l['n'])
                    c = const_val(a['r'])
                    if c is not None and op in ('+=', '-=') and l['n'] in st.rel:
                        r = st.rel[l['n']]
                        d = c if op == '+=' else -c
                        st.rel[l['n']] = (r[0], r[1] + d if r[1] > NEG else NEG, r[2] + d if r[2] < POS else POS)
                    else:
                        st.rel.pop(l['n'], None)
                    for k in [k for k, v in st.rel.items() if v[0] == l['n']]:
                        del st.rel[k]
                    if c is not None and l['n'] in st.ptr and op in ('+=', '-='):
                        st.ptr[l['n']] = _add(st.ptr[l['n']], -(c if op == '+=' else -c))
                    else:
                        st.ptr.pop(l['n'], None)
                    b_ = self.beh_get(st, l['n'])
                    if b_ is not None and op in ('+=', '-='):
                        iv_ = self.ieval(a['r'], st) if c is None else (c, c)
                        d_ = iv_[0] if op == '+=' else (-iv_[1] if iv_[1] < POS else NEG)
                        self.beh_set(st, l['n'], b_ + d_ if d_ > NEG else None)
                    else:
                        self.beh_set(st, l['n'], None)
            elif t['c'] == 'int':
                if op == '=':
                    iv = self.ieval(a['r'], st)
                    self.assign_int(st, l, iv, a['r'])
                    if l['d'] in self.offset_copies:
                        # the copy takes over what is known about the buffer (offset = buffer->offset;)
                        b_, n_ = self.offset_copies[l['d']]
                        view = '%s#%s' % (b_, n_)
                        src = self.buf_field(a['r'], 'offset')
                        st.buf.pop(view, None)
                        st.off.pop(view, None)
                        if src and src in st.buf:
                            st.buf[view] = st.buf[src]
                        if src and src in st.off:
                            st.off[view] = st.off[src]
                else:
                    old = self.ieval(l, st)
                    r = self.ieval(a['r'], st)
                    cst = const_val(a['r'])
                    moved = None
                    if l['d'] in self.abs_index and self.idx_key(l['d']) in st.ptr and cst is not None and op in ('+=', '-='):
                        moved = _add(st.ptr[self.idx_key(l['d'])], -(cst if op == '+=' else -cst))
                    self.kill_var(st, l['d'])
                    if moved is not None:
                        st.ptr[self.idx_key(l['d'])] = moved
                    if op == '+=':
                        nv = (NEG if NEG in (old[0], r[0]) else _clamp(old[0] + r[0]), POS if POS in (old[1], r[1]) else _clamp(old[1] + r[1]))
                        if nv != TOP:
                            st.int[l['d']] = nv
            elif t['c'] == 'record' and self.is_pbuf_type(l.get('ty0', l['ty'])):
                st.buf.pop(l['n'], None)
                st.len.pop(l['n'], None)
                st.off.pop(l['n'], None)
            return
        acc = access(lhs)
        if acc is not None:
            pn = self.ptr_norm(acc[0])
            if pn and pn[0] == 'arr':
                self.check_array(a, pn[1], pn[2], acc[1], st, record, 'store')
            elif pn and pn[0] in ('cur', 'content') and record:
                self.site('EFF7', a, 'store through the input buffer: %s' % expr_str(a)[:60], False,
                          'the parser must never write to its input', 'inputstore:' + expr_str(lhs))
            elif pn and pn[0] == 'ptr' and pn[1] in self.tracked_ptrs and record:
                self.site('EFF7', a, 'store through input cursor %s: %s' % (pn[1], expr_str(a)[:60]), False,
                          'the parser must never write to its input', 'inputstore:' + expr_str(lhs))

    def do_incdec(self, ev, st):
        tgt = ev.lhs
        b = self.buf_field(tgt, 'offset')
        if b:
            self.kill_term(st, 'cur', b)
            if b in st.buf:
                st.buf[b] = _add(st.buf[b], -ev.delta)
            if b in st.off:
                st.off[b] = _add(st.off[b], ev.delta)
            return
        t = strip_casts(tgt)
        if t.get('k') == 'ref':
            ty = self.u.ty(t.get('ty0', t['ty']))
            if ty['c'] == 'ptr':
                shifted = [((a_[0][0], a_[0][1], a_[0][2] - ev.delta), a_[1]) for a_ in st.acc
                           if isinstance(a_[0], tuple) and a_[0][0] == 'rge' and a_[0][1] == t['n']]
                self.kill_term(st, 'ptr', t['n'])
                st.acc = st.acc | frozenset(shifted)
                if t['n'] in st.rel:
                    r = st.rel[t['n']]
                    st.rel[t['n']] = (r[0], r[1] + ev.delta if r[1] > NEG else NEG, r[2] + ev.delta if r[2] < POS else POS)
                for k in [k for k, v in st.rel.items() if v[0] == t['n']]:
                    del st.rel[k]
                if t['n'] in st.ptr:
                    st.ptr[t['n']] = _add(st.ptr[t['n']], -ev.delta)
                b_ = self.beh_get(st, t['n'])
                if b_ is not None:
                    self.beh_set(st, t['n'], b_ + ev.delta)
            elif ty['c'] == 'int':
                old = st.int.get(t['d'])
                moved = _add(st.ptr[self.idx_key(t['d'])], -ev.delta) if (t['d'] in self.abs_index and self.idx_key(t['d']) in st.ptr) else None
                # offset + v < length and then v++: offset + v <= length, v bytes are readable at the cursor
                counted = [a[0][1] for a in st.acc if isinstance(a[0], tuple) and a[0][0] == 'cur' and a[0][2] == 0 and a[1] == t['d']] \
                    if ev.delta == 1 else []
                shifted = [((a_[0][0], a_[0][1], a_[0][2] - ev.delta), a_[1]) for a_ in st.acc
                           if isinstance(a_[0], tuple) and a_[0][0] == 'rge' and a_[1] == t['d']]
                self.kill_var(st, t['d'])
                st.acc = st.acc | frozenset(shifted)
                for B in counted:
                    st.acc = st.acc | {(('cnt', B, 0), t['d'])}
                if old is not None:
                    st.int[t['d']] = _add(old, ev.delta)
                elif ty.get('unsigned') and ev.delta > 0:
                    st.int[t['d']] = (1, POS)
                if moved is not None:
                    st.ptr[self.idx_key(t['d'])] = moved
            return
        # depth counters etc.: nothing tracked

    def _bounded_by_end_param(self, callee, i):
        """does the callee compare its i-th parameter (a pointer into the input) with another pointer parameter (p < end,
        end - p < n)?"""
        if callee.body is None or i >= len(callee.params):
            return False
        pd = callee.params[i]['d']
        others = {q['d'] for j, q in enumerate(callee.params) if j != i and self.u.ty(q['ty'])['c'] == 'ptr' and 'char' in self.u.ty(q['ty'])['s']}
        if not others:
            return False
        for x in callee.nodes():
            if x.get('k') == 'bin' and x.get('op') in CMP_OPS:
                ds = {y.get('d') for y in walk(x) if y.get('k') == 'ref'}
                if pd in ds and ds & others:
                    return True
        return False

    def do_call(self, call, st, record):
        cn = callee_name(call)
        args = call['args']
        # requirements of internal callees
        req = self.reqs.get(cn, {})
        if cn in self.u.functions:
            callee = self.u.functions[cn]
            for i, a in enumerate(args):
                if i >= len(callee.params):
                    break
                need = req.get(i)
                b = self.buf_key(a) if self.is_pbuf_type(callee.params[i]['ty']) else None
                if b is not None:
                    if need is not None and need > 0 and record:
                        av = st.buf.get(b, TOP)
                        ok = av[0] >= need
                        self.site('BND1', call, 'call %s needs %d readable byte(s) at %s.cur' % (cn, need, b), ok,
                                  'proved avail >= %s' % (av[0] if av[0] > NEG else 'nothing'), 'call:%s:%s' % (cn, b))
                    continue
                if need is not None and need > 0 and record:
                    pn = self.ptr_norm(a)
                    av = self.avail_of(pn, st) if pn else None
                    ok = av is not None and av[0] >= need
                    if not ok and self._bounded_by_end_param(callee, i):
                        # the callee reads as far as an end pointer handed in allows (it compares the two): what it needs at the
                        # cursor is a relation between two arguments, which requirements per parameter do not express
                        self.__dict__.setdefault('unmodelled', []).append(
                            '%s: %s reads at %s as far as the end pointer it is given allows; a bound handed in as a second pointer is '
                            'not followed by this analysis' % (self.fn.where(call), cn, expr_str(strip_casts(a))[:30]))
                        continue
                    self.site('BND2', call, 'call %s needs %d readable byte(s) at %s' % (cn, need, expr_str(strip_casts(a))[:40]), ok,
                              'proved avail >= %s' % (av[0] if av is not None and av[0] > NEG else 'nothing'),
                              'call:%s:%s' % (cn, expr_str(strip_casts(a))[:40]))
        # libc readers of the input
        if cn in ('strncmp', 'memcmp') and len(args) == 3:
            n = const_val(args[2])
            for j in (0, 1):
                pn = self.ptr_norm(args[j])
                other = strip_casts(args[1 - j])
                if pn and pn[0] in ('cur', 'ptr') and (pn[0] == 'cur' or pn[1] in self.tracked_ptrs) and record:
                    av = self.avail_of(pn, st)
                    need = n
                    if cn == 'strncmp' and other.get('k') == 'str' and n is not None:
                        need = min(n, len(other['bytes']) + 1)
                    ok = need is not None and av is not None and av[0] >= need
                    nv = strip_casts(args[2])
                    if need is None and nv.get('k') == 'ref' and pn[0] == 'cur' and pn[2] == 0 and (('cnt', pn[1], 0), nv['d']) in st.acc:
                        ok = True
                        need = nv['n']
                    elif need is None and nv.get('k') == 'ref' and pn[0] == 'cur' and pn[2] == 0:
                        # a count defined once as <checked count> - k, k >= 0: fewer bytes than were shown to be readable
                        base = self._count_minus(nv['d'])
                        if base is not None and (('cnt', pn[1], 0), base[0]) in st.acc:
                            ok = True
                            need = '%s (= %s - %d)' % (nv['n'], base[2], base[1])
                    if need is None and not ok and nv.get('k') not in ('ref',):
                        # a number of bytes read out of a record (a table entry's length): whether the guard in front asked for the
                        # same number is a relation between two reads of memory, which this analysis does not keep
                        self.__dict__.setdefault('unmodelled', []).append(
                            '%s: %s compares %s bytes of the input, a number read from %s; that the guard in front asked for the same '
                            'number is not followed by this analysis' % (self.fn.where(call), cn, expr_str(nv)[:30], expr_str(nv)[:30]))
                        continue
                    self.site('BND1' if pn[0] == 'cur' else 'BND2', call,
                              '%s reads %s byte(s) of the input at %s' % (cn, need, expr_str(strip_casts(args[j]))[:40]), ok,
                              'proved avail >= %s' % (av[0] if av is not None and av[0] > NEG else 'nothing'),
                              'libc:%s:%s' % (cn, need))
        elif cn in ('strlen', 'strcmp', 'strcpy', 'strcat', 'strchr', 'strrchr', 'strtod', 'sscanf', 'memcpy', 'strstr'):
            for j, a in enumerate(args):
                pn = self.ptr_norm(a)
                if pn and (pn[0] == 'cur' or (pn[0] == 'ptr' and pn[1] in self.tracked_ptrs)) and record:
                    if cn == 'memcpy' and j == 1 and const_val(args[2]) is not None:
                        av = self.avail_of(pn, st)
                        ok = av is not None and av[0] >= const_val(args[2])
                        self.site('BND1', call, 'memcpy reads %d bytes of the input' % const_val(args[2]), ok, '', 'libc:memcpy')
                    elif cn == 'memcpy' and j == 1:
                        av = self.avail_of(pn, st)
                        iv = self.ieval(args[2], st)
                        if av is not None and iv[1] < POS and av[0] >= iv[1]:
                            self.site('BND1', call, 'memcpy reads at most %d bytes of the input' % iv[1], True, '', 'libc:memcpy')
                        else:
                            self.__dict__.setdefault('unmodelled', []).append(
                                '%s: memcpy reads %s bytes of the input, a number this analysis cannot relate to what is readable there'
                                % (self.fn.where(call), expr_str(strip_casts(args[2]))[:30]))
                    elif cn == 'memcpy':
                        pass        # the destination
                    else:
                        self.site('BND1', call, '%s scans the length-delimited input for a terminator' % cn, False,
                                  'the input need not be zero-terminated', 'libc:%s' % cn)
        if cn == 'sprintf' and args:
            pn = self.ptr_norm(args[0])
            if pn and pn[0] == 'arr' and record:
                name, count = self.arrays[pn[1]]
                fmt = strip_casts(args[1]) if len(args) > 1 else None
                total = None
                if fmt is not None and fmt.get('k') == 'str':
                    total = 0
                    ai = 2
                    for piece in parse_format(fmt['bytes']):
                        if piece[0] == 'lit':
                            total += piece[1]
                        else:
                            arg = args[ai] if ai < len(args) else None
                            ai += 1
                            m = conv_max_len(piece, self.u, arg)
                            if m is None:
                                total = None
                                break
                            total += m
                ok = total is not None and total + 1 + pn[2] <= count
                self.site('BND4', call, 'sprintf into %s[%d]: %s' % (name, count, expr_str(fmt)[:30] if fmt else '?'), ok,
                          'at most %s bytes incl. terminator' % (total + 1 if total is not None else 'unbounded'),
                          'sprintf:%s:%s' % (name, expr_str(fmt)[:30] if fmt else '?'))
        # effects on the state
        post = POSTCONDITIONS.get(cn) or (self.reqs.get('@post') or {}).get(cn)
        for i, a in enumerate(args):
            a0 = strip_casts(a)
            b = self.buf_key(a0)
            if b is not None and self.u.ty(a['ty'])['c'] == 'ptr' and not self.u.ty(a['ty']).get('pointee_const'):
                if ('zinv', b) in st.acc and st.len.get(b, 0) < 1:
                    st.acc = st.acc - {('zinv', b)}
                old = st.buf.get(b, TOP)
                st.buf.pop(b, None)
                st.off.pop(b, None)
                self.kill_term(st, 'cur', b)
                if post and post.get('param') == i and old[0] >= post['pre']:
                    st.buf[b] = (post['post'], POS)
                continue
            if a0.get('k') == 'un' and a0['op'] == '&':
                tgt = strip_casts(a0['e'])
                if tgt.get('k') == 'ref':
                    ty = self.u.ty(tgt.get('ty0', tgt['ty']))
                    if ty['c'] == 'ptr':
                        st.ptr.pop(tgt['n'], None)
                        st.ptr.pop('beh:' + tgt['n'], None)
                        self.kill_term(st, 'ptr', tgt['n'])
                    elif ty['c'] == 'int':
                        self.kill_var(st, tgt['d'])
        # nested call used as a buffer argument: buffer_skip_whitespace(skip_utf8_bom(&buffer)) already handled
        # because inner calls are separate events evaluated first

    # ---- edge refinement ------------------------------------------------------------------------------
    def refine(self, node, label, st):
        if label[0] in ('T', 'F'):
            out = self.refine_cond(label[1], label[0] == 'T', st)
            if out is not None:
                self.settle_counters(out)
            return out
        return st

    def _meet(self, iv, lo=None, hi=None):
        l, h = iv
        if lo is not None:
            l = max(l, lo)
        if hi is not None:
            h = min(h, hi)
        return (l, h)

    def refine_cond(self, e, truth, st):
        e = strip_casts(e)
        k = e.get('k')
        st = st.copy()
        if k == 'ref':
            # truthiness of an integer / pointer variable
            t = self.u.ty(e['ty'])
            if t['c'] == 'int':
                iv = self.ieval(e, st)
                if truth:
                    if iv == (0, 0):
                        return None
                    if iv[0] == 0:
                        st.int[e['d']] = (1, iv[1])
                else:
                    if iv[0] > 0 or iv[1] < 0:
                        return None
                    st.int[e['d']] = (0, 0)
            return st
        if k != 'bin' or e['op'] not in CMP_OPS:
            return st
        # a comparison with (c ? x : y): it holds with c and x, or with !c and y
        for side_ in ('l', 'r'):
            x_ = strip_casts(e[side_])
            if x_.get('k') == 'cond':
                outs = []
                for (ct, sub) in ((True, x_['t']), (False, x_['e'])):
                    s_ = self.refine_cond(x_['c'], ct, st)
                    if s_ is None:
                        continue
                    e2 = dict(e)
                    e2[side_] = sub
                    lv, rv = const_val(e2['l']), const_val(e2['r'])
                    if lv is not None and rv is not None:
                        holds = {'<': lv < rv, '<=': lv <= rv, '>': lv > rv, '>=': lv >= rv, '==': lv == rv, '!=': lv != rv}[e['op']]
                        if holds != truth:
                            continue
                    else:
                        s_ = self.refine_cond(e2, truth, s_)
                        if s_ is None:
                            continue
                    outs.append(s_)
                if not outs:
                    return None
                out_ = outs[0]
                for s_ in outs[1:]:
                    out_ = join(out_, s_)
                return out_
        # the buffer pointer itself: once it was found non-NULL (and it is never assigned) it stays so; can_access re-tests it
        if e['op'] in ('==', '!=') and (is_null_const(e['l']) or is_null_const(e['r'])):
            other = strip_casts(e['l'] if is_null_const(e['r']) else e['r'])
            if other.get('k') == 'ref' and other.get('dk') == 'param' and self.is_pbuf_type(other.get('ty0', other['ty'])):
                nonnull = (e['op'] == '!=') == truth
                if nonnull:
                    st.acc = st.acc | {('nn', other['n'])}
                elif ('nn', other['n']) in st.acc:
                    return None
                return st
        op = e['op']
        if not truth:
            op = {'<': '>=', '>=': '<', '>': '<=', '<=': '>', '==': '!=', '!=': '=='}[op]
        L, Rr = strip_casts(e['l']), strip_casts(e['r'])
        # normalise to L op R with op in <, <=, ==, != (swap for >, >=)
        if op in ('>', '>='):
            L, Rr = Rr, L
            op = '<' if op == '>' else '<='
        if op == '<' and L.get('k') == 'mem' and L.get('f') == 'position' and self.buf_field(Rr, 'length'):
            # a stored failure position that is the offset of B and is now known to be below B.length lies inside B
            key = expr_str(L)
            if ('posoff', key, self.buf_field(Rr, 'length')) in st.acc:
                st.acc = frozenset(f for f in st.acc if not (f[0] == 'posoff' and f[1] == key)) | {('posin', key)}
        out = self.refine_rel(L, op, Rr, st)
        if out is not None:
            # positions that were stored as B.offset become positions inside B (or 0) once this edge settles it
            for f in [f for f in out.acc if f[0] == 'posoff']:
                B = f[2]
                inside = out.buf.get(B, TOP)[0] >= 1
                empty = False
                # B.length <= 0 (that is: == 0, it is unsigned) together with "length == 0 implies offset == 0"
                bl_l, bl_r = self.buf_field(L, 'length'), self.buf_field(Rr, 'length')
                if ('zinv', B) in out.acc:
                    if op == '<=' and bl_l == B and const_val(Rr) == 0:
                        empty = True
                    if op == '==' and ((bl_l == B and const_val(Rr) == 0) or (bl_r == B and const_val(L) == 0)):
                        empty = True
                if inside or empty:
                    out.acc = frozenset(g for g in out.acc if g is not f) | {('posin', f[1])}
                    self.pos_why[f[1] + '@refined'] = '%s.offset, which this edge shows to be %s' % (
                        B, 'below %s.length' % B if inside else '0: the buffer is still as it was initialised')
        return out

    def side(self, x, st):
        """Classify one side of a comparison."""
        x = strip_casts(x)
        b = self.buf_field(x, 'length')
        if b:
            return ('len', b)
        b = self.buf_field(x, 'offset')
        if b:
            return ('off', b, 0, None)
        if x.get('k') == 'bin' and x['op'] == '+':
            for (p, q) in ((x['l'], x['r']), (x['r'], x['l'])):
                b = self.buf_field(p, 'offset')
                if b:
                    c = const_val(q)
                    if c is not None:
                        return ('off', b, c, None)
                    qq = strip_casts(q)
                    if qq.get('k') == 'ref':
                        return ('off', b, None, qq)
            # (p - B->content) + k: the index of the byte k behind p
            for (p, q) in ((x['l'], x['r']), (x['r'], x['l'])):
                c = const_val(q)
                p0 = strip_casts(p)
                if c is not None and p0.get('k') == 'bin' and p0['op'] == '-':
                    sp = self.side(p0, st)
                    if sp[0] == 'pdiff':
                        return ('pdiff', (sp[1][0], sp[1][1], sp[1][2] + c), sp[2])
        if x.get('k') == 'bin' and x['op'] == '-':
            # pointer difference
            pr = self.ptr_norm(x['r'])
            pl = self.ptr_norm(x['l'])
            if pl and pr and pr[0] == 'content' and pl[0] in ('ptr', 'cur'):
                return ('pdiff', pl, pr[1])
            if pl and pr and pl[0] in ('ptr', 'cur') and pr[0] in ('ptr', 'cur'):
                return ('pp', pl, pr)
        v = const_val(x)
        if v is not None:
            return ('const', v)
        eb0 = self.end_expression(x)
        if eb0:
            return ('end', eb0)
        if x.get('k') == 'ref':
            t = self.u.ty(x.get('ty0', x['ty']))
            if t['c'] == 'int':
                return ('int', x)
            if t['c'] == 'ptr':
                eb = self.end_pointer(x)
                if eb:
                    return ('end', eb)
                pn = self.ptr_norm(x)
                if pn:
                    return ('p', pn)
        pn = self.ptr_norm(x)
        if pn and pn[0] in ('ptr', 'cur'):
            return ('p', pn)
        return ('other', x)

    def end_expression(self, x):
        """B when x is B->content + B->length (the position behind the last byte of B)"""
        x = strip_casts(x)
        if x.get('k') == 'bin' and x['op'] == '+':
            for (p_, q_) in ((x['l'], x['r']), (x['r'], x['l'])):
                bc, bl = self.buf_field(p_, 'content'), self.buf_field(q_, 'length')
                if bc and bl and bc == bl:
                    return bc
        return None

    def end_pointer(self, x):
        """B when x is a local pointer whose every definition is B->content + B->length and B's length/content are not stored to
        in this function (const unsigned char *end = buffer->content + buffer->length)"""
        x = strip_casts(x)
        if x.get('k') != 'ref' or x.get('dk') != 'local':
            return None
        cache = self.__dict__.setdefault('_end_ptrs', {})
        if x['d'] in cache:
            return cache[x['d']]
        defs = [d_['init'] for d_ in self.fn.locals() if d_['d'] == x['d'] and 'init' in d_]
        for a_ in self.fn.nodes():
            if a_.get('k') == 'bin' and a_.get('op') in ASSIGN_OPS and strip_casts(a_['l']).get('k') == 'ref' and strip_casts(a_['l'])['d'] == x['d']:
                defs.append(a_['r'] if a_['op'] == '=' else None)
            if a_.get('k') == 'un' and a_.get('op') in ('pre++', 'pre--', 'post++', 'post--', '&') and \
                    strip_casts(a_['e']).get('k') == 'ref' and strip_casts(a_['e'])['d'] == x['d']:
                defs.append(None)
        defs = [d_ for d_ in defs if d_ is None or not is_null_const(d_)]
        bs = {self.end_expression(d_) if d_ is not None else None for d_ in defs}
        out = None
        if defs and len(bs) == 1 and None not in bs:
            B = next(iter(bs))
            stored = any(a_.get('k') == 'bin' and a_.get('op') in ASSIGN_OPS and
                         (self.buf_field(a_['l'], 'length') == B or self.buf_field(a_['l'], 'content') == B) for a_ in self.fn.nodes())
            if not stored:
                out = B
        cache[x['d']] = out
        return out

    def set_avail(self, st, pn, lo=None, hi=None):
        kind, key, c = pn
        if kind == 'cur':
            iv = st.buf.get(key, TOP)
        else:
            iv = st.ptr.get(key, TOP)
        iv2 = self._meet(iv, None if lo is None else lo + c, None if hi is None else hi + c)
        if iv2[0] > iv2[1]:
            return False
        if kind == 'cur':
            st.buf[key] = iv2
        else:
            st.ptr[key] = iv2
            self.tracked_ptrs.add(key)
        return True

    def _pos_key(self, r):
        r = strip_casts(r)
        if r.get('k') == 'mem' and r.get('f') == 'position':
            return expr_str(r)
        if r.get('k') == 'ref' and r.get('dk') == 'local':
            return r['n']
        return None

    def _mentions_position(self, r0, st):
        k = self._pos_key(r0)
        return k is not None and any(f[0] in ('posin', 'posoff', 'poswhy') and f[1] == k for f in st.acc)

    def position_value(self, r0, st, probe=False):
        """('in', why) when the value is shown to be 0 or inside buffer B; (B, why) when it is B.offset without such a proof;
        (None, why) otherwise"""
        r = strip_casts(r0)
        c = const_val(r0)
        if c is not None:
            return ('in' if c == 0 else None), 'constant %d' % c
        k0 = self._pos_key(r)
        if k0 is not None and self._mentions_position(r, st):
            # a copy of a position that is already followed
            if ('posin', k0) in st.acc:
                return 'in', 'copy of %s' % k0
            for f in st.acc:
                if f[0] == 'posoff' and f[1] == k0:
                    return f[2], 'copy of %s, not shown to be smaller than %s.length' % (k0, f[2])
            return None, 'copy of %s' % k0
        bo = self.buf_field(r, 'offset')
        if bo:
            av = st.buf.get(bo, TOP)
            if av[0] >= 1:
                return 'in', '%s.offset with a readable byte there' % bo
            return bo, '%s.offset, not shown to be smaller than %s.length' % (bo, bo)
        if r.get('k') == 'bin' and r['op'] == '-' and self.buf_field(r['l'], 'length') and const_val(r['r']) is not None:
            bl = self.buf_field(r['l'], 'length')
            cc = const_val(r['r'])
            if cc >= 1 and st.len.get(bl, 0) >= cc:
                return 'in', '%s.length - %d with length >= %d' % (bl, cc, cc)
            return None, '%s.length - %d without length >= %d' % (bl, cc, cc)
        if r.get('k') == 'bin' and r['op'] == '-' and self.u.ty(strip_casts(r['l']).get('ty0', strip_casts(r['l']).get('ty')))['c'] == 'ptr':
            if probe:
                return None, 'a difference of pointers'
            # a position formed as the distance between two pointers: this analysis follows positions that are kept as indices
            self.__dict__.setdefault('unmodelled', []).append(
                '%s: the failure position is formed as the difference of pointers %s; BND5 follows positions kept as indices, where a '
                'pointer was advanced to is not related to the buffer here' % (self.fn.where(r), expr_str(r)[:50]))
            return 'in', 'not judged (a difference of pointers)'
        if r.get('k') == 'cond':
            out = []
            for truth, arm in ((True, r['t']), (False, r['e'])):
                s2 = self.refine_cond(r['c'], truth, st)
                if s2 is None:
                    continue
                out.append(self.position_value(arm, s2))
            if out and all(k == 'in' for (k, _w) in out):
                return 'in', ' / '.join(w for (_k, w) in out)
            return None, ' / '.join(w for (_k, w) in out)
        return None, 'not one of: 0, B.offset with a readable byte proven, B.length - c with length >= c proven'

    def check_published(self, node, st):
        """BND5: a failure position is read (to form the parse end) or copied out with its record only when it lies inside the buffer"""
        root = node.expr
        if root is None or node.kind == 'branch':
            return
        stored = set()
        for x in walk(root):
            if x.get('k') == 'bin' and x.get('op') in ASSIGN_OPS:
                stored.add(strip_casts(x['l']).get('id'))
        # plain copies (v = position; X.position = position with X a local record) only hand the value on
        copied = set()
        for x in walk(root):
            if x.get('k') == 'bin' and x.get('op') == '=':
                l_ = strip_casts(x['l'])
                r_ = strip_casts(x['r'])
                base_ = l_
                while base_.get('k') == 'mem' and not base_.get('arrow'):
                    base_ = strip_casts(base_['b'])
                if base_.get('k') == 'ref' and base_.get('dk') == 'local' and (l_.get('k') == 'ref' or l_.get('f') == 'position'):
                    copied.add(r_.get('id'))
        for x in walk(root):
            x0 = x
            keys = []
            if x0.get('k') == 'mem' and x0.get('f') == 'position' and x0.get('id') not in stored and x0.get('id') not in copied:
                keys.append(expr_str(x0))
            elif x0.get('k') == 'ref' and x0.get('dk') == 'local' and x0.get('id') not in stored and x0.get('id') not in copied and \
                    any(f[0] == 'poswhy' and f[1] == x0['n'] for f in st.acc):
                keys.append(x0['n'])
            elif x0.get('k') == 'bin' and x0.get('op') == '=' and strip_casts(x0['r']).get('k') == 'ref' and \
                    self.u.ty(strip_casts(x0['r']).get('ty0', strip_casts(x0['r'])['ty']))['c'] == 'record':
                rn = strip_casts(x0['r'])['n']
                keys += [f[1] for f in st.acc if f[0] in ('posin', 'posoff', 'poswhy') and f[1] == rn + '.position']
                keys = sorted(set(keys))
            for key in keys:
                ok = ('posin', key) in st.acc
                whys = sorted(self.pos_why.get(key + '@%d' % f[2], '') for f in st.acc if f[0] == 'poswhy' and f[1] == key)
                self.site('BND5', x0, 'published failure position %s lies inside the buffer' % key, ok,
                          ('; '.join(w for w in whys if w) or 'shown on every path to this point') if ok else
                          ('here it can be %s' % ('; '.join(w for w in whys if w) or 'a value stored on only some of the paths')),
                          'position:%s:%d' % (key, node.line))

    def _count_minus(self, d):
        """(decl of v, k, name of v) when the local d has the single definition v - k with a constant k >= 0, v is never
        reassigned, and v cannot be smaller than k (k == 0, or v is a parameter that every call site gives a constant >= k):
        d then asks for fewer bytes than v, which was shown to be readable."""
        fn = self.fn
        defs = [x['init'] for x in fn.locals() if x['d'] == d and 'init' in x]
        asg = [a for a in fn.nodes() if a.get('k') == 'bin' and a.get('op') in ASSIGN_OPS and strip_casts(a['l']).get('k') == 'ref' and
               strip_casts(a['l'])['d'] == d]
        if len(defs) + len(asg) != 1:
            return None
        r = strip_casts(defs[0] if defs else asg[0]['r'])
        if asg and asg[0]['op'] != '=':
            return None
        if r.get('k') == 'bin' and r['op'] == '-':
            k = const_val(r['r'])
            v = strip_casts(r['l'])
            if k is not None and k >= 0 and v.get('k') == 'ref' and v.get('dk') in ('param', 'local'):
                stores = [a for a in fn.nodes() if a.get('k') == 'bin' and a.get('op') in ASSIGN_OPS and strip_casts(a['l']).get('k') == 'ref' and
                          strip_casts(a['l'])['d'] == v['d']]
                if stores:
                    return None
                if k == 0:
                    return (v['d'], k, v['n'])
                if v.get('dk') == 'param':
                    pi = [i for i, p in enumerate(fn.params) if p['d'] == v['d']]
                    sites = [c for g in self.u.function_list for c in g.calls() if callee_name(c) == fn.name]
                    if pi and sites and all(pi[0] < len(c['args']) and const_val(c['args'][pi[0]]) is not None and
                                            const_val(c['args'][pi[0]]) >= k for c in sites):
                        return (v['d'], k, v['n'])
        return None

    def refine_rel(self, L, op, Rr, st):
        # S op (B.length - B.offset): what is left of the input, compared with S - the same as (B.offset + S) op B.length
        # (the difference is only formed where offset <= length is known: under the test that guards it)
        for (x_, y_, flip) in ((L, Rr, False), (Rr, L, True)):
            y0 = strip_casts(y_)
            if y0.get('k') == 'bin' and y0['op'] == '-' and self.buf_field(y0['l'], 'length') and \
                    self.buf_field(y0['r'], 'offset') == self.buf_field(y0['l'], 'length'):
                B_ = self.buf_field(y0['l'], 'length')
                if st.buf.get(B_, TOP)[0] >= 0:
                    summ = {'k': 'bin', 'op': '+', 'l': y0['r'], 'r': x_, 'ty': y0.get('ty'), 'id': None}
                    if 'ty0' in y0:
                        summ['ty0'] = y0['ty0']
                    return self.refine_rel(summ, op, y0['l'], st) if not flip else self.refine_rel(y0['l'], op, summ, st)
        a, b = self.side(L, st), self.side(Rr, st)
        # absolute index against the length of its buffer: i + c < B.length etc.
        for (x_, y_, flip) in ((L, Rr, False), (Rr, L, True)):
            bl = self.buf_field(y_, 'length')
            if not bl:
                continue
            k_ = 0
            i0 = strip_casts(x_)
            while i0.get('k') == 'bin' and i0['op'] in ('+', '-') and const_val(i0['r']) is not None:
                k_ += const_val(i0['r']) if i0['op'] == '+' else -const_val(i0['r'])
                i0 = strip_casts(i0['l'])
            if i0.get('k') == 'ref' and i0.get('d') in self.abs_index and self.abs_index[i0['d']][0] == bl:
                key_ = self.idx_key(i0['d'])
                iv = st.ptr.get(key_, TOP)
                # D = B.length - i ; the condition is  i + k op length  (or  length op i + k  when flipped)
                if not flip:
                    if op == '<':
                        iv = self._meet(iv, lo=k_ + 1)
                    elif op == '<=':
                        iv = self._meet(iv, lo=k_)
                    elif op == '==':
                        iv = self._meet(iv, lo=k_, hi=k_)
                else:
                    if op == '<':        # length < i + k
                        iv = self._meet(iv, hi=k_ - 1)
                    elif op == '<=':     # length <= i + k
                        iv = self._meet(iv, hi=k_)
                    elif op == '==':
                        iv = self._meet(iv, lo=k_, hi=k_)
                if iv[0] > iv[1]:
                    return None
                if iv != TOP:
                    st.ptr[key_] = iv
                return st
        if a[0] == 'int' and b[0] == 'int' and op == '<' and a[1].get('d') != b[1].get('d'):
            st.acc = st.acc | {(('lt', a[1]['d']), b[1]['d'])}
        # a view B#v shares B's length
        if a[0] == 'off' and b[0] == 'len' and a[1].split('#')[0] == b[1]:
            b = ('len', a[1])
        if a[0] == 'len' and b[0] == 'off' and b[1].split('#')[0] == a[1]:
            a = ('len', b[1])
        # (offset + k) ? length
        if a[0] == 'off' and b[0] == 'len' and a[1] == b[1]:
            B = a[1]
            kk, var = a[2], a[3]
            if var is not None:
                if op == '<=':
                    # offset + v <= length: v bytes are readable at the cursor (can_read(buffer, v))
                    st.acc = st.acc | {(('cnt', B, 0), var['d'])}
                if op == '<':
                    st.acc = st.acc | {(('cur', B, 0), var['d']), (('cnt', B, 0), var['d'])}
                    iv = self.ieval(var, st)
                    if iv[0] > NEG and not self.set_avail(st, ('cur', B, 0), lo=iv[0] + 1):
                        return None
                return st
            if op == '<':
                ok = self.set_avail(st, ('cur', B, 0), lo=kk + 1)
            elif op == '<=':
                ok = self.set_avail(st, ('cur', B, 0), lo=kk)
            elif op == '==':
                ok = self.set_avail(st, ('cur', B, 0), lo=kk, hi=kk)
            else:  # !=
                iv = st.buf.get(B, TOP)
                ok = True
                if iv == (kk, kk):
                    return None
                if iv[0] == kk:
                    ok = self.set_avail(st, ('cur', B, 0), lo=kk + 1)
                elif iv[1] == kk:
                    ok = self.set_avail(st, ('cur', B, 0), hi=kk - 1)
            return st if ok else None
        if a[0] == 'len' and b[0] == 'off' and a[1] == b[1] and b[3] is not None and b[2] is None and op in ('<', '<='):
            # length <= offset + v: what is left of the input is at most the largest value v can have
            iv = self.ieval(b[3], st)
            if iv[1] < POS:
                if not self.set_avail(st, ('cur', a[1], 0), hi=iv[1] - (1 if op == '<' else 0)):
                    return None
            return st
        if a[0] == 'len' and b[0] == 'off' and a[1] == b[1] and b[3] is None:
            B, kk = a[1], b[2]
            if op == '<':     # length < offset + k
                ok = self.set_avail(st, ('cur', B, 0), hi=kk - 1)
            elif op == '<=':  # length <= offset + k
                ok = self.set_avail(st, ('cur', B, 0), hi=kk)
            elif op == '==':
                ok = self.set_avail(st, ('cur', B, 0), lo=kk, hi=kk)
            else:
                return self.refine_rel(Rr, '!=', L, st) if False else st
            return st if ok else None
        # (p + c - content) ? length
        if a[0] == 'pdiff' and b[0] == 'len' and a[2] == b[1]:
            pn = a[1]
            if op == '<':
                ok = self.set_avail(st, pn, lo=1)
            elif op == '<=':
                ok = self.set_avail(st, pn, lo=0)
            else:
                return st
            return st if ok else None
        if a[0] == 'len' and b[0] == 'pdiff' and a[1] == b[2]:
            pn = b[1]
            if op == '<=':    # length <= p - content
                ok = self.set_avail(st, pn, hi=0)
            elif op == '<':
                ok = self.set_avail(st, pn, hi=-1)
            else:
                return st
            return st if ok else None
        # p ? end   (end = B->content + B->length): how many bytes are left at p
        if a[0] == 'p' and b[0] == 'end':
            pn = a[1]
            if op == '<':
                ok = self.set_avail(st, pn, lo=1)
            elif op == '<=':
                ok = self.set_avail(st, pn, lo=0)
            elif op == '==':
                ok = self.set_avail(st, pn, lo=0, hi=0)
            else:
                iv = self.avail_of(pn, st) or TOP
                ok = True
                if iv[0] == 0:
                    ok = self.set_avail(st, pn, lo=1)      # not at the end, and not behind it either
            return st if ok else None
        if a[0] == 'end' and b[0] == 'p':
            pn = b[1]
            if op == '<':       # end < p
                ok = self.set_avail(st, pn, hi=-1)
            elif op == '<=':    # end <= p
                ok = self.set_avail(st, pn, hi=0)
            elif op == '==':
                ok = self.set_avail(st, pn, lo=0, hi=0)
            else:
                iv = self.avail_of(pn, st) or TOP
                ok = True
                if iv[0] == 0:
                    ok = self.set_avail(st, pn, lo=1)
            return st if ok else None
        # p ? q
        if a[0] == 'p' and b[0] == 'p':
            ra, rb = self.rel_of(a[1], st), self.rel_of(b[1], st)
            if ra is not None and rb is not None and ra[0] == rb[0] and a[1][2] == 0 and a[1][1] in st.rel or \
                    (ra is not None and rb is not None and ra[0] == rb[0] and a[1][2] == 0 and ra[0] == b[1][1]):
                # both sides are offsets from the same root: compare the offsets
                name = a[1][1]
                if name in st.rel and rb[1] == rb[2]:
                    root, lo, hi = st.rel[name]
                    cst = rb[1]
                    if op == '<':
                        hi = min(hi, cst - 1)
                    elif op == '<=':
                        hi = min(hi, cst)
                    elif op == '==':
                        lo, hi = max(lo, cst), min(hi, cst)
                    elif op == '!=':
                        if lo == hi == cst:
                            return None
                        if hi == cst:
                            hi = cst - 1
                        elif lo == cst:
                            lo = cst + 1
                    if lo > hi:
                        return None
                    st.rel[name] = (root, lo, hi)
                    return st
            aq = self.avail_of(b[1], st)
            ap = self.avail_of(a[1], st)
            # a < b: b lies at least one byte further into the input than a does
            ba = self.beh_of(a[1], st)
            if ba is not None and op in ('<', '<=', '==') and b[1][0] == 'ptr':
                want = ba + (1 if op == '<' else 0) - b[1][2]
                if want >= 0 and (self.beh_get(st, b[1][1]) or 0) <= want:
                    self.beh_set(st, b[1][1], want)
            if op == '<' and aq is not None and aq[0] > NEG:
                if not self.set_avail(st, a[1], lo=aq[0] + 1):
                    return None
            elif op == '<=' and aq is not None and aq[0] > NEG:
                if not self.set_avail(st, a[1], lo=aq[0]):
                    return None
            return st
        # (q - p) ? c   and   c ? (q - p)
        if a[0] == 'pp' and b[0] == 'const':
            q, p, c = a[1], a[2], b[1]
            aq = self.avail_of(q, st)
            if aq is None or aq[0] == NEG:
                return st
            # q - p < c  => nothing useful ; q - p <= c => nothing
            return st
        if a[0] == 'const' and b[0] == 'pp':
            c, q, p = a[1], b[1], b[2]
            aq = self.avail_of(q, st)
            if aq is None or aq[0] == NEG:
                return st
            # c <= q - p  =>  avail(p) >= avail(q) + c ;  c < q - p => + c + 1
            if op == '<=':
                if not self.set_avail(st, p, lo=aq[0] + c):
                    return None
            elif op == '<':
                if not self.set_avail(st, p, lo=aq[0] + c + 1):
                    return None
            return st
        # integer forms
        if a[0] == 'int' or b[0] == 'int':
            return self.refine_int(a, op, b, st)
        # length ? const
        if a[0] == 'const' and b[0] == 'len' and op in ('<', '<='):
            st.len[b[1]] = max(st.len.get(b[1], 0), a[1] + (1 if op == '<' else 0))
            return st
        if a[0] == 'len' and b[0] == 'const':
            if op == '!=' and b[1] == 0:
                st.len[a[1]] = max(st.len.get(a[1], 0), 1)
            return st
        return st

    def refine_int(self, a, op, b, st):
        def iv_of(s):
            if s[0] == 'int':
                return self.ieval(s[1], st)
            if s[0] == 'const':
                return (s[1], s[1])
            if s[0] == 'other':
                return self.ieval(s[1], st)
            if s[0] == 'len':
                return (st.len.get(s[1], 0), POS)
            return None
        ia, ib = iv_of(a), iv_of(b)
        if ia is None or ib is None:
            return st

        def setv(s, iv):
            if iv[0] > iv[1]:
                return False
            if s[0] == 'int':
                st.int[s[1]['d']] = iv
            return True
        if op == '<':
            if not setv(a, self._meet(ia, hi=ib[1] - 1 if ib[1] < POS else None)):
                return None
            if not setv(b, self._meet(ib, lo=ia[0] + 1 if ia[0] > NEG else None)):
                return None
        elif op == '<=':
            if not setv(a, self._meet(ia, hi=ib[1] if ib[1] < POS else None)):
                return None
            if not setv(b, self._meet(ib, lo=ia[0] if ia[0] > NEG else None)):
                return None
        elif op == '==':
            m = self._meet(ia, lo=ib[0] if ib[0] > NEG else None, hi=ib[1] if ib[1] < POS else None)
            if not setv(a, m) or not setv(b, m):
                return None
        elif op == '!=':
            if ia[0] == ia[1] == ib[0] == ib[1]:
                return None
            if ib[0] == ib[1]:
                if ia[0] == ib[0]:
                    if not setv(a, (ia[0] + 1, ia[1])):
                        return None
                elif ia[1] == ib[0]:
                    if not setv(a, (ia[0], ia[1] - 1)):
                        return None
            if ia[0] == ia[1]:
                if ib[0] == ia[0]:
                    if not setv(b, (ib[0] + 1, ib[1])):
                        return None
                elif ib[1] == ia[0]:
                    if not setv(b, (ib[0], ib[1] - 1)):
                        return None
        return st

    # ---- widening -------------------------------------------------------------------------------------------
    def widen(self, old, new, visits):
        if visits < 3:
            return new

        def w_iv(o, n):
            lo, hi = n
            if n[0] < o[0]:
                cands = [t for t in self.thresholds if t <= n[0]]
                lo = max(cands) if cands else NEG
            if n[1] > o[1]:
                cands = [t for t in self.thresholds if t >= n[1]]
                hi = min(cands) if cands else POS
            return (lo, hi)

        def w_map(o, n):
            out = {}
            for k in n:
                if k in o:
                    v = w_iv(o[k], n[k])
                    if v != TOP:
                        out[k] = v
            return out
        rel = {}
        for k, v in new.rel.items():
            if k in old.rel and old.rel[k][0] == v[0]:
                iv = w_iv((old.rel[k][1], old.rel[k][2]), (v[1], v[2]))
                rel[k] = (v[0], iv[0], iv[1])
        return St(w_map(old.buf, new.buf), new.len, w_map(old.off, new.off), w_map(old.ptr, new.ptr),
                  w_map(old.int, new.int), new.acc, rel)

    # ---- driver ----------------------------------------------------------------------------------------------
    def run(self):
        self.tracked_ptrs = set()
        init = St()
        for p in self.fn.params:
            t = self.u.ty(p['ty'])
            if p['n'] in self.assume:
                k = self.assume[p['n']]
                if self.is_pbuf_type(p['ty']):
                    init.buf[p['n']] = (k, POS)
                elif t['c'] == 'ptr':
                    init.ptr[p['n']] = (k, POS)
                    self.tracked_ptrs.add(p['n'])
        states = solve(self.cfg, init, lambda n, s: self.transfer(n, s), self.refine, join, widen=self.widen)
        self.sites = {}
        for n in self.cfg.nodes:
            if n.id in states:
                self.transfer(n, states[n.id], record=True)
        self.states = states
        return list(self.sites.values())


def _parse_buffer_record(u):
    for r in u.records.values():
        names = {f['n'] for f in r['fields']}
        if {'content', 'length', 'offset'} <= names:
            return r['name']
    raise AnalysisBroken('BND: no record with content/length/offset fields (parse_buffer) found')


# functions that return their parse_buffer argument (or NULL); verified by _check_returns_arg
RETURNS_ARG = {'buffer_skip_whitespace', 'skip_utf8_bom'}
# verified postcondition: if avail >= pre at the call then avail >= post afterwards
POSTCONDITIONS = {'buffer_skip_whitespace': {'param': 0, 'pre': 1, 'post': 1}}

# entry points: which parameter carries the readable length, per the API contract
PUBLIC_ENTRY = 'cJSON_ParseWithLengthOpts'


def parse_family(u):
    """Functions that take a parse_buffer pointer or are reached from those with an input cursor."""
    rec = _parse_buffer_record(u)
    fam = []
    for fn in u.function_list:
        if any(rec in u.ty(p['ty'])['s'] for p in fn.params):
            fam.append(fn)
        elif any(rec in u.ty(d['ty'])['s'] for d in fn.locals()):
            fam.append(fn)
    names = {f.name for f in fam}
    # callees that receive raw input cursors (const unsigned char *)
    changed = True
    while changed:
        changed = False
        for fn in list(fam):
            for c in fn.calls():
                cn = callee_name(c)
                if cn in u.functions and cn not in names:
                    callee = u.functions[cn]
                    if any(u.ty(p['ty'])['s'] == 'const unsigned char *const' or u.ty(p['ty'])['s'] == 'const unsigned char *'
                           for p in callee.params):
                        fam.append(callee)
                        names.add(cn)
                        changed = True
    return fam


def _cursor_params(u, fn, rec):
    out = []
    for i, p in enumerate(fn.params):
        s = u.ty(p['ty'])['s']
        if rec in s and '*' in s:
            out.append((i, p['n'], 'buf'))
        elif s.replace(' ', '') in ('constunsignedchar*const', 'constunsignedchar*'):
            out.append((i, p['n'], 'ptr'))
    return out


def infer_requirements(u, fam, kmax=8):
    """Least entry assumptions (per cursor parameter) under which each family function has no unjustified read,
    as a fixpoint over the call graph (requirements only grow)."""
    rec = _parse_buffer_record(u)
    reqs = {fn.name: {} for fn in fam}
    for _round in range(12):
        changed = False
        for fn in fam:
            cps = _cursor_params(u, fn, rec)
            if not cps or fn.name == PUBLIC_ENTRY:
                continue
            cur = {name: reqs[fn.name].get(i, 0) for (i, name, _k) in cps}

            def bad(assume):
                sites = Analyzer(u, fn, assume, reqs).run()
                return [s for s in sites if not s.ok and s.rule in ('BND1', 'BND2')]
            # raise all together until clean (or kmax)
            k = max(cur.values()) if cur else 0
            assume = dict(cur)
            best = (len(bad(assume)), dict(assume))
            while best[0] and k < kmax:
                k += 1
                assume = {n: max(v, k) for n, v in assume.items()}
                nb = len(bad(assume))
                if nb < best[0]:
                    best = (nb, dict(assume))
            # when no entry assumption makes every read provable, keep the least one that leaves the fewest unjustified
            # reads: they are then reported where they are instead of as an impossible demand on every caller
            assume = best[1]
            residual = best[0]
            # lower each individually
            for (i, name, _kk) in cps:
                while assume[name] > cur[name]:
                    trial = dict(assume)
                    trial[name] = assume[name] - 1
                    if len(bad(trial)) > residual:
                        break
                    assume = trial
            new = {i: assume[name] for (i, name, kd) in cps if assume[name] > 0 or kd == 'ptr'}
            if new != reqs[fn.name]:
                reqs[fn.name] = new
                changed = True
        if not changed:
            break
    # pointers into the input handed back by family functions: how many bytes are readable at the returned position (on the
    # returns that are not NULL), computed with the entry assumptions inferred above
    rets = {}
    for _round in range(3):
        reqs['@ret'] = dict(rets)
        new = {}
        for fn in fam:
            t = u.ty(fn.ret)
            if not (t['c'] == 'ptr' and 'char' in t['s'] and t['s'].count('*') == 1):
                continue
            cps = _cursor_params(u, fn, rec)
            assume = {name: reqs[fn.name].get(i, 0) for (i, name, _k) in cps}
            an = Analyzer(u, fn, assume, reqs)
            an.run()
            worst = None
            for r in an.cfg.returns():
                if r.expr is None or is_null_const(r.expr):
                    continue
                st = an.states.get(r.id)
                if st is None:
                    continue
                pn = an.ptr_norm(r.expr)
                av = an.avail_of(pn, st) if pn else None
                lo = av[0] if av is not None else NEG
                worst = lo if worst is None else min(worst, lo)
            if worst is not None and worst > NEG:
                new[fn.name] = worst
        if new == rets:
            break
        rets = new
    reqs['@ret'] = dict(rets)
    return reqs


def _check_returns_arg(u, R):
    for name in sorted(RETURNS_ARG):
        if name not in u.functions:
            raise AnalysisBroken('BND: summary function %s vanished' % name)
        fn = u.functions[name]
        p0 = fn.params[0]['d']
        ok = True
        for r in fn.nodes():
            if r.get('k') == 'return':
                e = strip_casts(r['e']) if 'e' in r else None
                if e is None or not (is_null_const(r['e']) or (e.get('k') == 'ref' and e['d'] == p0)):
                    ok = False
        R.ob('BND1', fn, None, 'summary: %s returns its buffer argument or NULL' % name, ok,
             'every return statement returns the parameter or NULL' if ok else 'a return statement returns something else',
             key='summary-returns-arg')


def _postcondition_holds(u, fn, post, reqs):
    pname = fn.params[post['param']]['n']
    an = Analyzer(u, fn, {pname: post['pre']}, reqs)
    an.run()
    ok = True
    worst = POS
    for r in an.cfg.returns():
        st = an.states.get(r.id)
        if st is None:
            continue
        st2 = an.transfer(r, st)
        lo = st2.buf.get(pname, TOP)[0]
        worst = min(worst, lo)
        if lo < post['post']:
            ok = False
    return ok, worst


def _derive_postconditions(u, fam, reqs):
    """Other functions that return their buffer argument and keep a readable byte when entered with one (skip_utf8_bom): the
    same statement as the named postcondition, proved here on every run and used only when proved."""
    rec = _parse_buffer_record(u)
    out = {}
    for fn in fam:
        if fn.name in POSTCONDITIONS or fn.name not in RETURNS_ARG or fn.name == PUBLIC_ENTRY:
            continue
        cps = [c for c in _cursor_params(u, fn, rec) if c[2] == 'buf']
        if len(cps) != 1 or cps[0][0] != 0:
            continue
        post = {'param': 0, 'pre': 1, 'post': 1}
        try:
            ok, _w = _postcondition_holds(u, fn, post, reqs)
        except AnalysisBroken:
            ok = False
        if ok:
            out[fn.name] = post
    return out


def _check_postconditions(u, reqs, R):
    for name, post in POSTCONDITIONS.items():
        fn = u.fn(name)
        ok, worst = _postcondition_holds(u, fn, post, reqs)
        R.ob('BND1', fn, None, 'summary: %s keeps at least %d readable byte(s) when entered with %d' % (name, post['post'], post['pre']),
             ok, 'at every return avail >= %s' % (worst if worst > NEG else 'nothing'), key='summary-post')


def bnd_parse(units, R):
    """BND1/BND2/BND4 + EFF7 over the parse family of cJSON.c."""
    u = units['cJSON.c']
    fam = parse_family(u)
    reqs = infer_requirements(u, fam)
    rec = _parse_buffer_record(u)
    _check_returns_arg(u, R)
    _check_postconditions(u, reqs, R)
    reqs['@post'] = _derive_postconditions(u, fam, reqs)
    nreads = 0
    unmodelled = []
    for fn in fam:
        cps = _cursor_params(u, fn, rec)
        assume = {name: reqs[fn.name].get(i, 0) for (i, name, _k) in cps}
        an = Analyzer(u, fn, assume, reqs)
        sites = an.run()
        unmodelled += an.__dict__.get('unmodelled', [])
        for s in sites:
            if s.rule in ('BND1', 'BND2'):
                nreads += 1
            R.ob(s.rule, fn, s.node, s.what, s.ok, s.detail, key=s.key)
        # nothing read from the input may escape the analysis: a load through a pointer that was derived from the input
        # (B->content, the cursor, another such pointer) but for which no obligation was generated means the analysis does
        # not follow that pointer - say so instead of passing
        judged = {s.node.get('id') for s in sites} | an.__dict__.get('unmodelled_nodes', set())
        derived = set()
        changed = True
        while changed:
            changed = False
            cand = [(d['d'], d.get('init')) for d in fn.locals() if 'init' in d]
            cand += [(strip_casts(a['l'])['d'], a['r']) for a in fn.nodes() if a.get('k') == 'bin' and a['op'] in ASSIGN_OPS and
                     strip_casts(a['l']).get('k') == 'ref']
            for (dd, rhs) in cand:
                if dd in derived or rhs is None:
                    continue
                decl = [x for x in list(fn.locals()) + list(fn.params) if x['d'] == dd]
                if not decl or u.ty(decl[0]['ty'])['c'] != 'ptr' or 'char' not in u.ty(decl[0]['ty'])['s']:
                    continue
                if any((x.get('k') == 'mem' and x['f'] == 'content' and an.buf_key(x['b'])) or
                       (x.get('k') == 'ref' and x.get('d') in derived) for x in walk(rhs)):
                    derived.add(dd)
                    changed = True
        for nd in an.cfg.nodes:
            for ev in node_effects(nd):
                if ev.kind != 'load':
                    continue
                acc = access(ev.node)
                if acc is None:
                    continue
                b = strip_casts(acc[0])
                while b.get('k') == 'bin' and b['op'] in ('+', '-'):
                    b = strip_casts(b['l'])
                if b.get('k') == 'un' and b['op'] in ('post++', 'post--', 'pre++', 'pre--'):
                    b = strip_casts(b['e'])
                if b.get('k') == 'ref' and b.get('d') in derived and ev.node.get('id') not in judged and nd.id in an.states:
                    raise AnalysisBroken('BND: %s reads the input through %s, a pointer the bounds analysis does not follow' % (
                        fn.where(ev.node), b['n']))
        for (i, name, kind) in cps:
            k = reqs[fn.name].get(i, 0)
            R.note('BND: %s assumes %d readable byte(s) at %s on entry (checked at every call site)' % (fn.name, k, name))
    R.floor('BND1', 'functions in the parse family', len(fam), 9)
    R.floor('BND1', 'input reads and call-site requirements', nreads, 35)
    if unmodelled:
        raise AnalysisBroken('BND: ' + unmodelled[0])
    return reqs


def bnd4_all(units, R, skip=()):
    """BND4 for every function of cJSON.c that has a local array but is not in the parse family."""
    u = units['cJSON.c']
    fam = {f.name for f in parse_family(u)}
    n = 0
    for fn in u.function_list:
        if fn.name in fam:
            continue
        if not any(u.ty(d['ty'])['c'] == 'array' for d in fn.locals()):
            continue
        an = Analyzer(u, fn, {}, {})
        for s in an.run():
            if s.rule == 'BND4':
                n += 1
                R.ob(s.rule, fn, s.node, s.what, s.ok, s.detail, key=s.key)
    R.floor('BND4', 'local-array accesses outside the parse family', n, 4)
