"""EFF rules: effects and who-may-call (DESIGN.md section 3, EFF1-EFF7)."""
import re

from ..facts import (AnalysisBroken, walk, children, strip_casts, expr_str, is_null_const, ASSIGN_OPS,
                     callee_name, indirect_field, call_graph, qname, resolve)

# libc classification -------------------------------------------------------------------------
ALLOCATORS = {
    'malloc', 'calloc', 'realloc', 'free', 'strdup', 'strndup', 'aligned_alloc', 'posix_memalign',
    'memalign', 'valloc', 'pvalloc', 'reallocarray', 'asprintf', 'vasprintf', 'getline', 'getdelim',
    'fopen', 'fdopen', 'freopen', 'fclose', 'tmpfile', 'open_memstream', 'fmemopen', 'opendir',
    'closedir', 'realpath', 'getcwd', 'get_current_dir_name', 'wcsdup', 'scandir', 'tempnam',
    'alloca', '__builtin_alloca', 'mmap', 'munmap', 'brk', 'sbrk', 'setvbuf', 'setbuf',
}
HIDDEN_STATE = {
    'strtok', 'rand', 'srand', 'random', 'srandom', 'drand48', 'lrand48', 'localtime', 'gmtime',
    'asctime', 'ctime', 'strerror', 'setlocale', 'tmpnam', 'getenv', 'setenv', 'putenv', 'unsetenv',
    'strsignal', 'getpwnam', 'getpwuid', 'gethostbyname', 'inet_ntoa', 'ttyname', 'ctermid', 'cuserid',
    'ecvt', 'fcvt', 'gcvt', 'l64a', 'basename', 'dirname', 'readdir', 'getlogin', 'crypt', 'mblen',
    'mbtowc', 'wctomb', 'mbrlen', 'mbrtowc', 'wcrtomb', 'mbsrtowcs', 'wcsrtombs', 'atexit', 'exit',
    'abort', 'signal', 'raise', 'system', 'printf', 'puts', 'putchar', 'fprintf', 'fputs', 'fputc',
    'scanf', 'getchar', 'gets', 'fgets', 'fread', 'fwrite', 'perror', 'time', 'clock', 'longjmp',
    'setjmp', 'nl_langinfo', 'lgamma', 'lgammaf', 'lgammal', 'gamma',
}
PURE_LIBC = {
    'strlen', 'strcmp', 'strncmp', 'strcpy', 'strncpy', 'strcat', 'strncat', 'strchr', 'strrchr', 'strstr',
    'strspn', 'strcspn', 'strpbrk', 'strcoll', 'strxfrm', 'strnlen', 'strcasecmp', 'strncasecmp',
    'memcpy', 'memmove', 'memset', 'memcmp', 'memchr',
    'strtod', 'strtof', 'strtold', 'strtol', 'strtoul', 'strtoll', 'strtoull', 'atoi', 'atol', 'atof',
    'sprintf', 'snprintf', 'vsprintf', 'vsnprintf', 'sscanf', 'vsscanf',
    'tolower', 'toupper', 'isdigit', 'isalpha', 'isalnum', 'isspace', 'isxdigit', 'isupper', 'islower',
    'isprint', 'ispunct', 'iscntrl', 'isgraph',
    'fabs', 'fabsf', 'floor', 'ceil', 'sqrt', 'pow', 'fmod', 'log', 'log10', 'exp', 'frexp', 'ldexp',
    'modf', 'trunc', 'round', 'fmin', 'fmax', 'isnan', 'isinf', 'copysign', 'nan',
    'abs', 'labs', 'llabs', 'div', 'ldiv', 'qsort', 'bsearch',
    '__errno_location',        # errno is thread-local (C11 7.5, POSIX): reading or clearing it shares nothing between threads
    '__builtin_fabs', '__builtin_expect', '__builtin_memcpy', '__builtin_memset', '__builtin_strlen',
    '__builtin_isnan', '__builtin_isinf', '__builtin_isinf_sign', '__builtin_nan', '__builtin_inf',
    '__builtin_huge_val', '__builtin_strcmp', '__builtin_strcpy', '__builtin_object_size',
    '__builtin___memcpy_chk', '__builtin___strcpy_chk', '__builtin___sprintf_chk', '__isoc99_sscanf',
}
LOCALE_READ = {'localeconv', '__ctype_b_loc', '__ctype_tolower_loc', '__ctype_toupper_loc'}   # glibc's expansion of <ctype.h>: thread-local locale tables
DEFAULT_ALLOC = {'malloc', 'free', 'realloc'}


def _hooks_record(units):
    """The internal hooks record: a record of cJSON.c all of whose fields are function pointers and of
    which a mutable global exists."""
    u = units['cJSON.c']
    cands = []
    for g in u.globals:
        t = u.ty(g['ty'])
        if t['c'] != 'record':
            continue
        name = t['s'].replace('struct ', '')
        rec = u.records.get(name)
        if rec and rec['fields'] and all(u.ty(f['ty']).get('fnptr') for f in rec['fields']):
            cands.append((g, rec))
    return cands


def _is_hooks_type(u, tid, recname):
    s = u.ty(tid)['s']
    return re.sub(r'\b(const|struct)\b', '', s).replace('*', '').strip() == recname


def _base_object(e):
    """Root of an lvalue/member chain, e.g. global_hooks.allocate -> ref global_hooks."""
    e = strip_casts(e)
    while True:
        k = e.get('k')
        if k == 'mem':
            e = strip_casts(e['b'])
        elif k == 'idx':
            e = strip_casts(e['b'])
        elif k == 'un' and e['op'] in ('*', '&'):
            e = strip_casts(e['e'])
        else:
            return e


def _staging_tables(u, fn, gname, recname):
    """Locals of the hooks record type that a function fills member by member and then copies whole into the global table
    (`global_hooks = selected;`), and uses for nothing else: the new table under construction.  Its contents are EFF3's
    business (the installer's paths are simulated with both objects)."""
    out = set()
    for d in fn.locals():
        if not (_is_hooks_type(u, d['ty'], recname) and u.ty(d['ty'])['c'] == 'record'):
            continue
        copied = False
        other = False
        par = fn.parents()
        for x in fn.nodes():
            if x.get('k') != 'ref' or x.get('d') != d['d']:
                continue
            p = par.get(x['id'])
            while p is not None and p.get('k') == 'cast':
                p = par.get(p['id'])
            if p is None:
                other = True
            elif p.get('k') == 'mem' and strip_casts(p['b']) is x:
                # member access: a store target or a comparison operand
                q = par.get(p['id'])
                while q is not None and q.get('k') == 'cast':
                    q = par.get(q['id'])
                if q is not None and q.get('k') == 'bin' and (q['op'] in ASSIGN_OPS and strip_casts(q['l']) is p or q['op'] in ('==', '!=')):
                    continue
                other = True
            elif p.get('k') == 'bin' and p['op'] == '=' and strip_casts(p['r']) is x:
                l = strip_casts(p['l'])
                if l.get('k') == 'ref' and l['n'] == gname and l.get('dk') == 'global':
                    copied = True
                else:
                    other = True
            else:
                other = True
        if copied and not other:
            out.add(d['n'])
    return out


def eff1(units, R):
    """C-library allocator referenced only as a stored/compared default of the hooks table."""
    hooks = _hooks_record(units)
    if len(hooks) == 0:
        raise AnalysisBroken('EFF1: no global allocator-hooks table found in cJSON.c')
    hook_globals = {g['n'] for (g, _r) in hooks}
    for (g, rec) in hooks[1:]:
        R.ob('EFF1', None, None, 'second static hooks table %s' % g['n'], False,
             'more than one mutable global of an all-function-pointer record type', key='second-table:' + g['n'],
             file=units['cJSON.c'].file, line=g['loc'][0])
    nrefs = 0
    # global initialisers
    for uname, u in units.items():
        for g in u.globals:
            if 'init' not in g:
                continue
            for x in walk(g['init']):
                if x.get('k') == 'ref' and x.get('dk') == 'fn' and x['n'] in ALLOCATORS:
                    nrefs += 1
                    ok = g['n'] in hook_globals and uname == 'cJSON.c'
                    if not ok and uname == 'cJSON.c' and (g.get('const') or u.ty(g['ty']).get('const')) and \
                            _is_hooks_type(u, g['ty'], hooks[0][1]['name']) and x['n'] in DEFAULT_ALLOC:
                        ok = True       # a constant table of the defaults, of the hooks type itself (static const internal_hooks default_hooks)
                    R.ob('EFF1', None, None, 'initialiser of %s references %s' % (g['n'], x['n']), ok,
                         'default entry of the hooks table' if ok else 'allocator referenced outside the hooks table',
                         key='init:%s:%s' % (g['n'], x['n']), file=u.file, line=x['loc'][0])
    for uname, u in units.items():
        for fn in u.function_list:
            par = fn.parents()
            for x in fn.nodes():
                if not (x.get('k') == 'ref' and x.get('dk') == 'fn' and x['n'] in ALLOCATORS):
                    continue
                nrefs += 1
                # climb through casts
                p = par.get(x['id'])
                child = x
                # climb through casts and through the arms of ?: (the default selected when the caller gave none)
                while p is not None and (p.get('k') == 'cast' or (p.get('k') == 'cond' and p['c'] is not child)):
                    child = p
                    p = par.get(p['id'])
                ok = False
                why = 'allocator %s used directly' % x['n']
                if uname == 'cJSON.c' and p is not None and p.get('k') == 'bin':
                    if p['op'] == '=' and p['r'] is child:
                        b = _base_object(p['l'])
                        if b.get('k') == 'ref' and b['n'] in hook_globals and b.get('dk') == 'global' \
                                and x['n'] in DEFAULT_ALLOC:
                            ok = True
                            why = 'stored as default into %s' % expr_str(p['l'])
                        elif b.get('k') == 'ref' and b.get('dk') == 'local' and x['n'] in DEFAULT_ALLOC and \
                                b['n'] in _staging_tables(u, fn, hooks[0][0]['n'], hooks[0][1]['name']):
                            ok = True
                            why = 'stored as default into %s, the table under construction that is then installed as a whole' % expr_str(p['l'])
                    elif p['op'] in ('==', '!='):
                        ok = True
                        why = 'compared only: %s' % expr_str(p)
                if uname == 'cJSON.c' and p is not None and p.get('k') == 'initlist' and x['n'] in DEFAULT_ALLOC:
                    # internal_hooks new_hooks = { malloc, free, realloc };  - the table under construction, installed as a whole
                    stg = _staging_tables(u, fn, hooks[0][0]['n'], hooks[0][1]['name'])
                    for d_ in fn.locals():
                        if 'init' in d_ and strip_casts(d_['init']) is p and d_['n'] in stg:
                            ok = True
                            why = 'default in the initialiser of %s, the table under construction that is then installed as a whole' % d_['n']
                if p is not None and p.get('k') == 'call' and p['fn'] is child:
                    why = 'direct call %s' % expr_str(p)[:80]
                R.ob('EFF1', fn, x, 'reference to %s' % x['n'], ok, why,
                     key='ref:%s:%s' % (x['n'], 'call' if 'direct call' in why else 'use'))
    R.floor('EFF1', 'references to the C allocator (hooks-table defaults)', nrefs, 3)

    # call census: every call is internal, classified libc, or through a hooks field
    ncalls = 0
    hook_fields = set()
    for (_g, rec) in hooks[:1]:
        hook_fields = {f['n'] for f in rec['fields']}
    internal = set()
    for u in units.values():
        internal.update(u.functions.keys())
    for uname, u in units.items():
        for fn in u.function_list:
            for c in fn.calls():
                ncalls += 1
                cn = callee_name(c)
                if cn is None:
                    f = indirect_field(c)
                    tg = c.get('targets')
                    if tg and all(t in internal for t in tg):
                        R.ob('EFF1', fn, c, 'indirect call %s' % expr_str(c['fn']), True,
                             'dispatch through a constant table whose entries are the library functions %s' % ', '.join(tg),
                             key='indirect:%s' % expr_str(c['fn']))
                        continue
                    ok = f in hook_fields and uname == 'cJSON.c'
                    R.ob('EFF1', fn, c, 'indirect call %s' % expr_str(c['fn']), ok,
                         'through hooks field %s' % f if ok else 'indirect call not through the hooks table',
                         key='indirect:%s' % expr_str(c['fn']))
                    continue
                if cn in internal:
                    continue
                if cn in ALLOCATORS:
                    continue  # already reported as a reference above
                if cn in PURE_LIBC or cn in LOCALE_READ or cn in HIDDEN_STATE:
                    continue  # HIDDEN_STATE is EFF5's business
                raise AnalysisBroken('EFF1: %s calls unclassified external function %s; classify it in '
                                     'cjsa/rules/eff.py before a verdict can be given' % (fn.where(c), cn))
    R.floor('EFF1', 'call sites classified', ncalls, 300)
    R.note('EFF1: %d allocator references, %d call sites classified' % (nrefs, ncalls))


def eff1_ir(ir, R):
    """Independent reading of the same fact on LLVM IR."""
    n = 0
    for uname, text in ir.items():
        cur = None
        lines = text.split('\n')
        for ln, line in enumerate(lines, 1):
            m = re.match(r'define .*@([\w.]+)\(', line)
            if m:
                cur = m.group(1)
                continue
            if line.startswith('}'):
                cur = None
                continue
            if cur is None:
                m = re.match(r'@([\w.]+) = .*', line)
                if m:
                    for a in re.findall(r'@(\w+)', line)[1:]:
                        if a in ALLOCATORS:
                            n += 1
                            ok = uname == 'cJSON.c' and 'internal_hooks' in line
                            R.ob('EFF1-IR', uname, None, 'IR global %s references @%s' % (m.group(1), a), ok,
                                 'hooks-table initialiser' if ok else 'allocator in a global initialiser',
                                 key='irglobal:%s:%s' % (m.group(1), a), file=uname, line=0)
                continue
            for a in re.findall(r'@(\w+)', line):
                if a not in ALLOCATORS:
                    continue
                n += 1
                s = line.strip()
                if re.search(r'\bcall\b.*@%s\(' % re.escape(a), s):
                    R.ob('EFF1-IR', cur, None, 'IR call of @%s' % a, False, 'in function %s' % cur,
                         key='ircall:%s' % a, file=uname, line=0)
                elif s.startswith('store ') and 'internal_hooks' in s and uname == 'cJSON.c':
                    R.ob('EFF1-IR', cur, None, 'IR store of @%s into the hooks table' % a, True,
                         'store to %struct.internal_hooks member', key='irstore:%s' % a, file=uname, line=0)
                elif s.startswith('store ') and uname == 'cJSON.c' and re.search(r', [^,]*\* (%[\w.]+), align', s):
                    # store through a pointer register: fine when that register is a member address of a hooks table
                    reg = re.search(r', [^,]*\* (%[\w.]+), align', s).group(1)
                    start = ln - 1
                    while start > 0 and not lines[start].startswith('define '):
                        start -= 1
                    defn = [l2 for l2 in lines[start:ln] if l2.strip().startswith(reg + ' = ')]
                    ok = bool(defn) and 'getelementptr' in defn[-1] and 'internal_hooks' in defn[-1]
                    R.ob('EFF1-IR', cur, None, 'IR store of @%s into a hooks table' % a, ok,
                         'store to a member of a %%struct.internal_hooks object (%s)' % reg if ok else s[:100],
                         key='irstore:%s' % a, file=uname, line=0)
                elif ' icmp ' in s:
                    R.ob('EFF1-IR', cur, None, 'IR comparison with @%s' % a, True, 'icmp only',
                         key='ircmp:%s' % a, file=uname, line=0)
                elif re.match(r'(%[\w.]+) = (phi|select) ', s) and uname == 'cJSON.c':
                    # a default selected by ?: - every use of the selected value must be a store into the hooks table
                    res = re.match(r'(%[\w.]+) = ', s).group(1)
                    uses = []
                    for l2 in lines[ln:]:
                        if l2.startswith('}'):
                            break
                        if re.search(re.escape(res) + r'\b', l2) and not l2.strip().startswith(res + ' ='):
                            uses.append(l2.strip())
                    ok = bool(uses) and all(u2.startswith('store ') and 'internal_hooks' in u2 for u2 in uses)
                    R.ob('EFF1-IR', cur, None, 'IR selection of @%s as a default' % a, ok,
                         'the selected value is only stored into the hooks table' if ok else 'selected value used by: %s' % (uses[:1] or ['nothing']),
                         key='irselect:%s' % a, file=uname, line=0)
                else:
                    R.ob('EFF1-IR', cur, None, 'IR use of @%s' % a, False, s[:100], key='iruse:%s' % a,
                         file=uname, line=0)
    R.floor('EFF1-IR', 'IR references to the C allocator', n, 3)


def eff2(units, R):
    """Every hooks value is (a copy of) the one global table; every allocator call goes through one."""
    hooks = _hooks_record(units)
    if not hooks:
        raise AnalysisBroken('EFF2: hooks table not found')
    g0, rec = hooks[0]
    gname = g0['n']
    recname = rec['name']
    u = units['cJSON.c']
    fields = {f['n'] for f in rec['fields']}
    ncalls = 0
    nstores = 0
    nargs = 0

    def hooks_value_ok(fn, e):
        """e denotes the global table, a parameter of hooks type, or a hooks member of a local
        parse/print buffer (which is checked to be a copy)."""
        e = strip_casts(e)
        k = e.get('k')
        if k == 'ref':
            if e['n'] == gname and e.get('dk') == 'global':
                return 'the global table'
            if e.get('dk') == 'param' and _is_hooks_type(u, e['ty'], recname):
                return 'hooks parameter %s' % e['n']
            return None
        if k == 'un' and e['op'] in ('*', '&'):
            return hooks_value_ok(fn, e['e'])
        if k == 'mem' and _is_hooks_type(u, e['ty'], recname):
            return 'embedded copy %s' % expr_str(e)
        return None

    for fn in u.function_list:
        for c in fn.calls():
            if callee_name(c) is None:
                f = indirect_field(c)
                if f not in fields:
                    continue
                ncalls += 1
                callee = strip_casts(c['fn'])
                if callee.get('k') == 'un':
                    callee = strip_casts(callee['e'])
                why = hooks_value_ok(fn, callee['b'])
                R.ob('EFF2', fn, c, 'hook call %s' % expr_str(c['fn']), why is not None,
                     why or 'base object is not a tracked hooks value', key='hookcall:' + expr_str(c['fn']))
            # arguments of hooks type
            for a in c['args']:
                ta = u.ty(a['ty'])
                if ta['c'] == 'ptr' and _is_hooks_type(u, a['ty'], recname):
                    nargs += 1
                    why = hooks_value_ok(fn, a)
                    R.ob('EFF2', fn, a, 'hooks argument %s' % expr_str(a), why is not None,
                         why or 'argument is not derived from the global table', key='hookarg:' + expr_str(a))
        # stores to hooks-typed lvalues and their members
        for x in fn.nodes():
            if x.get('k') == 'bin' and x['op'] in ASSIGN_OPS:
                lhs = strip_casts(x['l'])
                staging = _staging_tables(u, fn, gname, recname)
                if _is_hooks_type(u, lhs['ty'], recname) and u.ty(lhs['ty'])['c'] == 'record':
                    nstores += 1
                    why = hooks_value_ok(fn, x['r'])
                    r0 = strip_casts(x['r'])
                    if why is None and r0.get('k') == 'ref' and r0.get('dk') == 'local' and r0['n'] in staging and \
                            lhs.get('k') == 'ref' and lhs['n'] == gname:
                        why = 'the table assembled in %s (contents checked by EFF3)' % r0['n']
                    R.ob('EFF2', fn, x, 'hooks copy %s' % expr_str(x), why is not None,
                         ('copied from ' + why) if why else 'right-hand side is not the global table',
                         key='hookcopy:' + expr_str(x))
                elif lhs.get('k') == 'mem' and lhs['f'] in fields and \
                        _is_hooks_type(u, strip_casts(lhs['b'])['ty'], recname):
                    b = _base_object(lhs)
                    isglobal = b.get('k') == 'ref' and b['n'] == gname and b.get('dk') == 'global' \
                        and strip_casts(lhs['b']) is b
                    if not isglobal:
                        nstores += 1
                        okm = b.get('k') == 'ref' and b.get('dk') == 'local' and b['n'] in staging
                        R.ob('EFF2', fn, x, 'store to member of a hooks copy: %s' % expr_str(x), okm,
                             'member of the table under construction that is installed as a whole' if okm else
                             'only the global table may be assigned member-wise', key='hookmember:' + expr_str(x['l']))
            if x.get('k') == 'decl':
                for d in x['decls']:
                    if _is_hooks_type(u, d['ty'], recname) and u.ty(d['ty'])['c'] == 'record':
                        nstores += 1
                        ok = 'init' in d and hooks_value_ok(fn, d['init']) is not None
                        stg = d['n'] in _staging_tables(u, fn, gname, recname)
                        ok = ok or stg
                        R.ob('EFF2', fn, x, 'local hooks object %s' % d['n'], ok,
                             ('the table under construction, installed as a whole' if stg else 'initialised from the global table') if ok
                             else 'local hooks table not copied from the global one',
                             key='hooklocal:' + d['n'])
    # embedded hooks members of local aggregates must be assigned before a callee can use them:
    # for each function that declares a local record containing a hooks member, a whole-record copy
    # from the global table must exist on every path to each call that receives the aggregate.
    holders = [r for r in u.records.values()
               if any(_is_hooks_type(u, f['ty'], recname) and u.ty(f['ty'])['c'] == 'record' for f in r['fields'])]
    nholders = 0
    for fn in u.function_list:
        cfg = None
        for d in fn.locals():
            t = u.ty(d['ty'])
            base = t['s'].replace('struct ', '')
            base = re.sub(r'\[\d+\]', '', base).strip()
            if base not in [h['name'] for h in holders]:
                continue
            nholders += 1
            cfg = cfg or fn.cfg()
            hm = [f['n'] for f in u.records[base]['fields'] if _is_hooks_type(u, f['ty'], recname)][0]
            # nodes that copy the table in
            copies = []
            uses = []
            for n in cfg.nodes:
                if n.expr is None:
                    continue
                for x in walk(n.expr):
                    if x.get('k') == 'bin' and x['op'] == '=':
                        l = strip_casts(x['l'])
                        if l.get('k') == 'mem' and l['f'] == hm:
                            b = _base_object(l)
                            if b.get('k') == 'ref' and b['n'] == d['n'] and hooks_value_ok(fn, x['r']):
                                copies.append(n.id)
                    if x.get('k') == 'call':
                        for a in x['args']:
                            b = _base_object(a)
                            if b.get('k') == 'ref' and b['n'] == d['n'] and b.get('dk') == 'local' \
                                    and callee_name(x) in u.functions:
                                uses.append((n, x))
            def reaches_member(h, idx, seen=()):
                """can h (or a function it hands the parameter on to) touch member hm of *param idx?"""
                if h.body is None or idx >= len(h.params) or h.name in seen:
                    return h.body is None
                pd_ = h.params[idx]['d']
                for y in h.nodes():
                    if y.get('k') == 'mem' and y['f'] == hm:
                        b_ = _base_object(y)
                        if b_.get('k') == 'ref' and b_.get('d') == pd_:
                            return True
                    if y.get('k') == 'call':
                        for j_, a_ in enumerate(y.get('args', [])):
                            b_ = _base_object(a_)
                            if b_.get('k') == 'ref' and b_.get('d') == pd_:
                                g_ = u.functions.get(callee_name(y))
                                if g_ is None or reaches_member(g_, j_, seen + (h.name,)):
                                    return True
                    # the parameter copied into something else: give up (assume it can)
                    if y.get('k') == 'bin' and y.get('op') == '=' and strip_casts(y['r']).get('k') == 'ref' and strip_casts(y['r']).get('d') == pd_:
                        return True
                return False
            live = []
            for (n, x) in uses:
                h = u.functions[callee_name(x)]
                idxs = [j_ for j_, a_ in enumerate(x['args']) if _base_object(a_).get('k') == 'ref' and _base_object(a_).get('n') == d['n']]
                if any(reaches_member(h, j_) for j_ in idxs):
                    live.append((n, x))
            uses = live
            for (n, x) in uses:
                ok = any(cfg.dominates(c, n.id) for c in copies)
                R.ob('EFF2', fn, x, '%s.%s set from the table before %s' % (d['n'], hm, expr_str(x)[:50]), ok,
                     'dominated by the copy' if ok else 'aggregate reaches a callee without a hooks copy',
                     key='holder:%s:%s' % (d['n'], callee_name(x)))
    # public wrappers used by Utils
    for wname, field in (('cJSON_malloc', 'allocate'), ('cJSON_free', 'deallocate')):
        fn = u.fn(wname)
        hits = [c for c in fn.calls() if callee_name(c) is None and indirect_field(c) == field]
        ok = False
        why = 'no call of %s.%s' % (gname, field)
        for c in hits:
            callee = strip_casts(c['fn'])
            b = strip_casts(callee['b']) if callee.get('k') == 'mem' else None
            arg = strip_casts(c['args'][0]) if c['args'] else None
            if b is not None and b.get('k') == 'ref' and b['n'] == gname and arg is not None and \
                    arg.get('k') == 'ref' and arg.get('dk') == 'param':
                ok = True
                why = 'forwards its argument to %s.%s' % (gname, field)
        if wname == 'cJSON_malloc' and ok:
            rets = [n for n in fn.nodes() if n.get('k') == 'return']
            ok = len(rets) == 1 and 'e' in rets[0] and strip_casts(rets[0]['e']).get('k') == 'call'
            if not ok:
                why = 'does not return the hook result directly'
        R.ob('EFF2', fn, None, '%s forwards to the installed hook' % wname, ok, why, key='wrapper:' + wname)
    # Utils: no indirect calls at all, allocation only through the public wrappers
    uu = units['cJSON_Utils.c']
    nu = 0
    for fn in uu.function_list:
        for c in fn.calls():
            if callee_name(c) is None:
                nu += 1
                if c.get('targets'):
                    R.ob('EFF2', fn, c, 'indirect call in Utils: %s' % expr_str(c['fn']), True,
                         'reaches only %s (constant table of library functions)' % ', '.join(c['targets']), key='utils-indirect:' + expr_str(c['fn']))
                    continue
                R.ob('EFF2', fn, c, 'indirect call in Utils: %s' % expr_str(c['fn']), False,
                     'Utils must allocate through cJSON_malloc/cJSON_free', key='utils-indirect:' + expr_str(c['fn']))
    R.floor('EFF2', 'hook call sites', ncalls, 12)
    R.floor('EFF2', 'hooks-typed arguments', nargs, 20)
    R.floor('EFF2', 'local aggregates embedding a hooks copy', nholders, 4)
    R.note('EFF2: %d hook calls, %d hooks arguments, %d copies/stores, %d holders' % (ncalls, nargs, nstores, nholders))


def _enumerate_paths(cfg, limit=4096):
    """All entry->exit paths of an acyclic CFG as lists of (node, label_taken)."""
    out = []
    stack = [(cfg.entry.id, [])]
    while stack:
        nid, path = stack.pop()
        if any(p[0] == nid for p in path):
            raise AnalysisBroken('%s: loop in a function that must be acyclic for path enumeration' % cfg.fn.name)
        if nid == cfg.exit.id:
            out.append(path + [(nid, None)])
            if len(out) > limit:
                raise AnalysisBroken('%s: too many paths' % cfg.fn.name)
            continue
        for (y, l) in cfg.succ[nid]:
            stack.append((y, path + [(nid, l)]))
    return out


def eff3(units, R):
    """reallocate only called under a non-NULL test; installation logic of the table."""
    hooks = _hooks_record(units)
    g0, rec = hooks[0]
    gname = g0['n']
    u = units['cJSON.c']
    # which field is the reallocating one: the one whose default is realloc
    init = g0.get('init')
    fieldnames = [f['n'] for f in rec['fields']]
    defaults = {}
    if init and init.get('k') == 'initlist':
        for f, e in zip(fieldnames, init['inits']):
            e = strip_casts(e)
            if e.get('k') == 'ref':
                defaults[f] = e['n']
    if sorted(defaults.values()) != ['free', 'malloc', 'realloc']:
        raise AnalysisBroken('EFF3: defaults of %s are %s, expected malloc/free/realloc' % (gname, defaults))
    fld = {v: k for k, v in defaults.items()}   # 'malloc' -> 'allocate'
    re_f = fld['realloc']
    ncalls = 0
    for fn in u.function_list:
        cfg = None
        for c in fn.calls():
            if callee_name(c) is None and indirect_field(c) == re_f:
                ncalls += 1
                cfg = cfg or fn.cfg()
                node = cfg.node_of_expr(c['id'])
                callee = strip_casts(c['fn'])
                want = expr_str(callee)
                ok = False
                why = 'no dominating test %s != NULL' % want
                for n in cfg.nodes:
                    if n.kind != 'branch':
                        continue
                    e = strip_casts(n.expr)
                    pol = None
                    if e.get('k') == 'bin' and e['op'] in ('!=', '==') and \
                            (is_null_const(e['r']) or is_null_const(e['l'])):
                        other = e['l'] if is_null_const(e['r']) else e['r']
                        if expr_str(other) == want:
                            pol = 'T' if e['op'] == '!=' else 'F'
                    elif expr_str(e) == want:
                        pol = 'T'
                    if pol is None:
                        continue
                    # the edge with polarity pol must dominate the call: every path to the call
                    # passes through n and leaves it by that edge
                    tgt = [y for (y, l) in cfg.succ[n.id] if l and l[0] == pol]
                    oth = [y for (y, l) in cfg.succ[n.id] if l and l[0] != pol]
                    if not cfg.dominates(n.id, node.id):
                        continue
                    reach_other = set()
                    for o in oth:
                        reach_other |= cfg.reachable(o, stop={n.id}) | {o}
                    if node.id not in reach_other or all(t == o for t in tgt for o in oth):
                        ok = True
                        why = 'dominated by %s at line %d' % (expr_str(e), n.line)
                        break
                R.ob('EFF3', fn, c, 'reallocate call %s guarded by non-NULL test' % want, ok, why,
                     key='realloc-guard:' + want)
    R.floor('EFF3', 'reallocate call sites', ncalls, 1)

    # installation: simulate every path of each function that assigns members of the global table
    writers = []
    for fn in u.function_list:
        for x in fn.nodes():
            if x.get('k') == 'bin' and x['op'] in ASSIGN_OPS:
                l = strip_casts(x['l'])
                if l.get('k') == 'mem' and l['f'] in fieldnames:
                    b = strip_casts(l['b'])
                    if b.get('k') == 'ref' and b['n'] == gname and b.get('dk') == 'global':
                        if fn not in writers:
                            writers.append(fn)
                if l.get('k') == 'ref' and l['n'] == gname and l.get('dk') == 'global' and fn not in writers:
                    writers.append(fn)       # the whole table is assigned (from a table assembled locally)
    R.floor('EFF3', 'functions installing hooks', len(writers), 1)
    # constant tables of the hooks type whose entries are libc functions (static const internal_hooks default_hooks = {...})
    consts = {}
    for g in u.globals:
        if g['n'] != gname and 'init' in g and (g.get('const') or u.ty(g['ty']).get('const')) and _is_hooks_type(u, g['ty'], rec['name']):
            ini = strip_casts(g['init'])
            if ini.get('k') == 'initlist' and len(ini['inits']) == len(fieldnames) and \
                    all(strip_casts(x).get('k') == 'ref' and strip_casts(x).get('dk') == 'fn' for x in ini['inits']):
                consts[g['n']] = {f: ('libc', strip_casts(x)['n']) for f, x in zip(fieldnames, ini['inits'])}
    for fn in writers:
        cfg = fn.cfg()
        paths = _enumerate_paths(cfg)
        hp = [p for p in fn.params if u.ty(p['ty'])['c'] == 'ptr']
        npaths = 0
        staging = _staging_tables(u, fn, gname, rec['name'])
        for path in paths:
            npaths += 1
            st = {f: ('entry', None) for f in fieldnames}  # abstract value of each member of the global table
            side = {name: {f: ('entry', None) for f in fieldnames} for name in staging}   # tables under construction
            facts = []   # (expr_str, 'nonnull'|'null')
            feasible = True
            for (nid, label) in path:
                n = cfg.nodes[nid]
                if n.kind == 'decl' and n.decl is not None and n.decl.get('n') in side and 'init' in n.decl:
                    # internal_hooks selected = { malloc, free, realloc };   /   = default_hooks;
                    ini = strip_casts(n.decl['init'])
                    if ini.get('k') == 'initlist' and len(ini['inits']) == len(fieldnames):
                        for f_, x_ in zip(fieldnames, ini['inits']):
                            x0 = strip_casts(x_)
                            side[n.decl['n']][f_] = ('libc', x0['n']) if (x0.get('k') == 'ref' and x0.get('dk') == 'fn') else \
                                (('null', None) if is_null_const(x_) else ('user', expr_str(x0), False))
                    elif ini.get('k') == 'ref' and ini.get('n') in consts:
                        side[n.decl['n']] = dict(consts[ini['n']])
                    elif ini.get('k') == 'ref' and ini.get('n') == gname:
                        side[n.decl['n']] = dict(st)
                    continue
                if n.kind == 'stmt' and n.expr.get('k') == 'bin' and n.expr['op'] == '=':
                    l = strip_casts(n.expr['l'])
                    if l.get('k') == 'ref' and l['n'] == gname and strip_casts(n.expr['r']).get('n') in side:
                        st = dict(side[strip_casts(n.expr['r'])['n']])     # global_hooks = selected;
                        continue
                    if l.get('k') == 'ref' and strip_casts(n.expr['r']).get('n') in consts and (l['n'] == gname or l['n'] in side):
                        if l['n'] == gname:
                            st = dict(consts[strip_casts(n.expr['r'])['n']])          # global_hooks = default_hooks;
                        else:
                            side[l['n']] = dict(consts[strip_casts(n.expr['r'])['n']])
                        continue
                    tgt = None
                    if l.get('k') == 'mem' and l['f'] in fieldnames and strip_casts(l['b']).get('n') == gname:
                        tgt = st
                    elif l.get('k') == 'mem' and l['f'] in fieldnames and strip_casts(l['b']).get('n') in side:
                        tgt = side[strip_casts(l['b'])['n']]
                    if tgt is not None:
                        r = strip_casts(n.expr['r'])
                        # `x != NULL ? x : default`: the arm this path selected (its condition was a branch on the way)
                        while r.get('k') == 'cond':
                            c = strip_casts(r['c'])
                            pol = True
                            while c.get('k') == 'un' and c['op'] == '!':
                                pol = not pol
                                c = strip_casts(c['e'])
                            if c.get('k') == 'bin' and c['op'] in ('==', '!=') and (is_null_const(c['l']) or is_null_const(c['r'])):
                                other = c['l'] if is_null_const(c['r']) else c['r']
                                if c['op'] == '==':
                                    pol = not pol
                                c = strip_casts(other)
                            s0 = expr_str(c)
                            if (s0, 'nonnull') in facts:
                                r = strip_casts(r['t'] if pol else r['e'])
                            elif (s0, 'null') in facts:
                                r = strip_casts(r['e'] if pol else r['t'])
                            else:
                                break
                        if r.get('k') == 'ref' and r.get('dk') == 'fn':
                            tgt[l['f']] = ('libc', r['n'])
                        elif is_null_const(n.expr['r']):
                            tgt[l['f']] = ('null', None)
                        else:
                            s = expr_str(r)
                            nonnull = (s, 'nonnull') in facts
                            tgt[l['f']] = ('user', s, nonnull)
                if n.kind == 'branch' and label:
                    e = strip_casts(n.expr)
                    pol = label[0] == 'T'
                    if e.get('k') == 'bin' and e['op'] in ('==', '!='):
                        eq = (e['op'] == '==') == pol
                        lhs, rhs = strip_casts(e['l']), strip_casts(e['r'])
                        if is_null_const(rhs) or is_null_const(lhs):
                            other = lhs if is_null_const(rhs) else rhs
                            fact = (expr_str(other), 'null' if eq else 'nonnull')
                            if (fact[0], 'nonnull' if eq else 'null') in facts and strip_casts(other).get('k') in ('ref', 'mem') and \
                                    not (strip_casts(other).get('k') == 'mem' and strip_casts(other)['f'] in fieldnames):
                                # the same caller-supplied value tested both ways on one path: not a path
                                feasible = False
                                break
                            facts.append(fact)
                        else:
                            # member of the table compared with a libc function
                            m, f = (lhs, rhs) if lhs.get('k') == 'mem' else (rhs, lhs)
                            # a member of a constant default table stands for the libc function it holds
                            for (x_, y_) in ((lhs, rhs), (rhs, lhs)):
                                if y_.get('k') == 'mem' and strip_casts(y_['b']).get('n') in consts and y_['f'] in fieldnames and \
                                        x_.get('k') == 'mem' and strip_casts(x_['b']).get('n') not in consts:
                                    m = x_
                                    f = {'k': 'ref', 'dk': 'fn', 'n': consts[strip_casts(y_['b'])['n']][y_['f']][1]}
                            if m.get('k') == 'mem' and m['f'] in fieldnames and f.get('k') == 'ref' and f.get('dk') == 'fn':
                                obj = side.get(strip_casts(m['b']).get('n'), st) if strip_casts(m['b']).get('n') != gname else st
                                cur = obj[m['f']]
                                if cur[0] == 'libc':
                                    if (cur[1] == f['n']) != eq:
                                        feasible = False
                                        break
                                elif eq:
                                    # a user function equal to the libc one *is* the libc one
                                    obj[m['f']] = ('libc', f['n'])
            if not feasible:
                continue
            ra = st[re_f]
            desc = ', '.join('%s=%s' % (f, st[f][0] + (':' + str(st[f][1]) if st[f][1] else '')) for f in fieldnames)
            pathdesc = cfg.describe_path([p[0] for p in path])
            if ra[0] == 'entry':
                continue   # this path does not touch the table
            ok = True
            why = desc
            if ra[0] not in ('null', 'libc') or (ra[0] == 'libc' and ra[1] != 'realloc'):
                ok = False
                why = 'reallocate can be a user value: ' + desc
            if ra[0] == 'libc':
                if st[fld['malloc']] != ('libc', 'malloc') or st[fld['free']] != ('libc', 'free'):
                    ok = False
                    why = 'realloc installed while allocate/deallocate are not both the libc defaults: ' + desc
            for f in (fld['malloc'], fld['free']):
                v = st[f]
                if v[0] == 'null' or v[0] == 'entry':
                    ok = False
                    why = '%s left %s: %s' % (f, v[0], desc)
                if v[0] == 'user' and not v[2]:
                    ok = False
                    why = '%s takes a user value not tested non-NULL: %s' % (f, desc)
            # NULL argument / NULL member restore the defaults
            for p in hp:
                if (p['n'], 'null') in facts:
                    if any(st[fld[d]] != ('libc', d) for d in ('malloc', 'free')):
                        ok = False
                        why = 'NULL %s does not restore the default allocate/deallocate: %s' % (p['n'], desc)
            for (s, v) in facts:
                if v == 'null' and s.endswith('malloc_fn') and st[fld['malloc']] != ('libc', 'malloc'):
                    ok = False
                    why = 'NULL malloc_fn does not restore malloc: ' + desc
                if v == 'null' and s.endswith('free_fn') and st[fld['free']] != ('libc', 'free'):
                    ok = False
                    why = 'NULL free_fn does not restore free: ' + desc
            R.ob('EFF3', fn, None, 'hooks installation path %s' % ' '.join(pathdesc), ok, why,
                 key='install:' + ' '.join(pathdesc), witness=pathdesc)
        R.floor('EFF3', 'installation paths of %s' % fn.name, npaths, 3)


def _lhs_root(e):
    return _base_object(e)


def _writes_in(fn, u, non_const_param_of):
    """Yield (node, root_ref, how) for every store whose lvalue is rooted at a variable with static
    storage: assignments, ++/--, and passing the object (or its address / an array of it) to a callee
    parameter that is a pointer to non-const."""
    for x in fn.nodes():
        k = x.get('k')
        if k == 'bin' and x['op'] in ASSIGN_OPS:
            r = _lhs_root(x['l'])
            if r.get('k') == 'ref' and r.get('dk') in ('global', 'slocal'):
                # a store through a pointer *loaded from* a global is not a write to the global itself
                l = strip_casts(x['l'])
                if _is_direct_lvalue(l):
                    yield (x, r, 'assignment ' + expr_str(x)[:70])
        elif k == 'un' and x['op'] in ('post++', 'post--', 'pre++', 'pre--'):
            r = _lhs_root(x['e'])
            if r.get('k') == 'ref' and r.get('dk') in ('global', 'slocal') and _is_direct_lvalue(strip_casts(x['e'])):
                yield (x, r, expr_str(x))
        elif k == 'call':
            cn = callee_name(x)
            for i, a in enumerate(x['args']):
                a0 = strip_casts(a)
                r = _lhs_root(a0)
                if not (r.get('k') == 'ref' and r.get('dk') in ('global', 'slocal')):
                    continue
                ta = u.ty(a['ty'])
                if ta['c'] != 'ptr':
                    continue
                # address of the object or decayed array of it
                direct = (a0.get('k') == 'un' and a0['op'] == '&' and _is_direct_lvalue(strip_casts(a0['e']))) or \
                         (u.ty(a0.get('ty0', a0['ty']))['c'] == 'array' and _is_direct_lvalue(a0))
                if not direct:
                    continue
                if non_const_param_of(cn, i, ta):
                    yield (x, r, 'address passed to %s (non-const parameter %d)' % (cn or 'indirect callee', i))


def _is_direct_lvalue(l):
    """lvalue designates (part of) the named object itself: no pointer dereference on the way."""
    while True:
        k = l.get('k')
        if k == 'ref':
            return True
        if k == 'mem':
            if l['arrow']:
                return False
            l = strip_casts(l['b'])
        elif k == 'idx':
            b = strip_casts(l['b'])
            # indexing an array object is direct, indexing a pointer is not
            l = b
            if b.get('k') == 'ref':
                return True   # caller checks the type via root dk; arrays only reach here directly
        else:
            return False


# documented exceptions (README "Thread Safety", cJSON.h comments): object -> who may write / read it
STATIC_POLICY = {
    # name: (unit, writers allowed, readers allowed (None = anyone), reason)
    'global_error': ('cJSON.c', {'cJSON_ParseWithLengthOpts'}, {'cJSON_GetErrorPtr'},
                     'documented: cJSON_GetErrorPtr is not thread safe; the parser only stores into it, so no per-call '
                     'result depends on what another thread left there'),
    'global_hooks': ('cJSON.c', {'cJSON_InitHooks'}, None, 'documented: cJSON_InitHooks before threads start'),
    'version': ('cJSON.c', {'cJSON_Version'}, {'cJSON_Version'},
                'formats the same constant text on every call; not reachable from any other API function'),
}
PARSE_ENTRY = {'cJSON_Parse', 'cJSON_ParseWithOpts', 'cJSON_ParseWithLength', 'cJSON_ParseWithLengthOpts'}


def _private_closure(u, names):
    """`names` plus the static functions of u that only they (transitively) call and whose address is never taken: code of a
    documented writer / accessor that was moved into a helper of its own is still that function's code."""
    out = set(names)
    callers = {}
    taken = set()
    for f in u.function_list:
        if f.body is None:
            continue
        callee_ids = set()
        for c in f.calls():
            cn = callee_name(c)
            if cn in u.functions:
                callers.setdefault(cn, set()).add(f.name)
                callee_ids.add(strip_casts(c['fn']).get('id'))
        for x in f.nodes():
            if x.get('k') == 'ref' and x.get('dk') == 'fn' and x.get('id') not in callee_ids:
                taken.add(x.get('n'))
    for g in u.globals:
        if 'init' in g:
            for x in walk(g['init']):
                if x.get('k') == 'ref' and x.get('dk') == 'fn':
                    taken.add(x.get('n'))
    changed = True
    while changed:
        changed = False
        for f in u.function_list:
            if f.name in out or not f.static or f.name in taken or not callers.get(f.name):
                continue
            if callers[f.name] <= out:
                out.add(f.name)
                changed = True
    return out


def eff4(units, R):
    """Census of static-storage objects, their writers, and the transitive write set of the API."""
    all_units = list(units.values())
    protos = {}
    for u in all_units:
        for fn in u.function_list:
            protos[fn.name] = [u.ty(p['ty']) for p in fn.params]
        for d in u.fdecls:
            protos.setdefault(d['name'], [u.ty(p['ty']) for p in d['params']])

    def non_const_param_of(cn, i, argty):
        if cn is None:
            return True
        ps = protos.get(cn)
        if ps is None or i >= len(ps):
            # no prototype in the exported units (a libc function) or a variadic position: the argument's type after the implicit
            # conversion to the parameter type decides - strchr(const char *, int) cannot write, sprintf(char *, ...) can
            return not argty.get('pointee_const', False)
        t = ps[i]
        return t['c'] == 'ptr' and not t.get('pointee_const', False)

    objects = []   # (unit, name, decl, const, where)
    for uname, u in units.items():
        for g in u.globals:
            if g.get('extern') and 'init' not in g:
                continue
            objects.append((uname, g['n'], g, bool(g['const']), None))
        for (fn, d) in u.static_locals():
            objects.append((uname, d['n'], d, bool(u.ty(d['ty'])['const']), fn))
    R.floor('EFF4', 'static-storage objects found', len(objects), 3)

    writers = {}   # (unit,name) -> {fn name: [how]}
    readers = {}
    for uname, u in units.items():
        for fn in u.function_list:
            written_nodes = set()
            for (x, r, how) in _writes_in(fn, u, non_const_param_of):
                writers.setdefault((uname, r['n']), {}).setdefault(fn.name, []).append((x, how))
            # a reference that is (the root of) the left-hand side of a plain assignment is a write, not a read
            lhs_roots = set()
            for x in fn.nodes():
                if x.get('k') == 'bin' and x['op'] == '=':
                    r0 = _lhs_root(x['l'])
                    if r0.get('k') == 'ref' and _is_direct_lvalue(strip_casts(x['l'])):
                        lhs_roots.add(r0['id'])
            for x in fn.nodes():
                if x.get('k') == 'ref' and x.get('dk') in ('global', 'slocal') and x['id'] not in lhs_roots:
                    readers.setdefault((uname, x['n']), set()).add(fn.name)

    for (uname, name, d, const, lfn) in objects:
        u = units[uname]
        w = writers.get((uname, name), {})
        where = lfn.name if lfn else '(file scope)'
        if const:
            R.ob('EFF4', lfn, None, 'static object %s is const' % name, not w,
                 'const-qualified, no write site' if not w else 'const object written in %s' % sorted(w),
                 key='static:%s' % name, file=u.file, line=d['loc'][0])
            continue
        pol = STATIC_POLICY.get(name)
        if pol is None or pol[0] != uname:
            if not w:
                R.ob('EFF4', lfn, None, 'mutable static object %s (never written)' % name, True,
                     'no store, no non-const escape: effectively constant', key='static:%s' % name,
                     file=u.file, line=d['loc'][0])
            else:
                fnn = sorted(w)[0]
                R.ob('EFF4', lfn, None, 'undocumented mutable static object %s in %s' % (name, where), False,
                     'written by %s: shared between threads without synchronisation' % sorted(w),
                     key='static:%s' % name, file=u.file, line=d['loc'][0])
            continue
        allowed_w, allowed_r, reason = _private_closure(u, pol[1]), (_private_closure(u, pol[2]) if pol[2] is not None else None), pol[3]
        R.ob('EFF4', lfn, None, 'documented mutable static %s' % name, True, reason, key='static:%s' % name,
             file=u.file, line=d['loc'][0])
        for fnn, hows in sorted(w.items()):
            for (x, how) in hows:
                R.ob('EFF4', u.functions[fnn], x, 'write to %s' % name, fnn in allowed_w,
                     how if fnn in allowed_w else 'writer outside the documented set %s: %s' % (sorted(allowed_w), how),
                     key='write:%s:%s' % (name, how[:40]))
        if allowed_r is not None:
            for fnn in sorted(readers.get((uname, name), ())):
                R.ob('EFF4', u.functions[fnn], None, 'access to %s' % name, fnn in allowed_r,
                     'documented accessor' if fnn in allowed_r else
                     'reads %s (a value another thread may have written) outside %s' % (name, sorted(allowed_r)),
                     key='access:%s' % name)
            # the accessors are for the application: a library function that calls one computes its own result from a value
            # another thread may have stored
            for fn2 in u.function_list:
                if fn2.name in allowed_r or fn2.body is None:
                    continue
                for c in fn2.calls():
                    if callee_name(c) in allowed_r:
                        R.ob('EFF4', fn2, c, 'no library function consults the accessor of %s' % name, False,
                             '%s calls %s: what it goes on to compute depends on what another thread last stored in %s' % (
                                 fn2.name, callee_name(c), name), key='accessor-call:%s:%s' % (name, fn2.name))

    # transitive: which public functions can reach a writer of each documented object
    g = call_graph(all_units)

    def reach(start):
        seen = {start}
        work = [start]
        while work:
            x = work.pop()
            for y in g.get(x, ()):
                if y not in seen:
                    seen.add(y)
                    work.append(y)
        return seen
    publics = []
    for u in all_units:
        for fn in u.function_list:
            if fn.external:
                publics.append((u, fn))
    R.floor('EFF4', 'public functions', len(publics), 90)
    writer_fns = {}
    for (uname, name), w in writers.items():
        for fnn in w:
            writer_fns.setdefault(fnn, set()).add(name)
    nclean = 0
    for (u, fn) in publics:
        r = reach(qname(u, fn))
        wset = set()
        for f in r:
            base = f.split('::')[-1]
            wset |= writer_fns.get(base, set())
        if not wset:
            nclean += 1
            continue
        ok = True
        why = ''
        for name in sorted(wset):
            if name == 'global_error':
                good = fn.name in PARSE_ENTRY
            elif name in STATIC_POLICY:
                good = fn.name in STATIC_POLICY[name][1]
            else:
                good = False
            if not good:
                ok = False
            why += '%s ' % name
        R.ob('EFF4', fn, None, 'transitive static write set of %s = {%s}' % (fn.name, why.strip()), ok,
             'documented exception' if ok else 'API function reaches a writer of shared static state',
             key='wset:%s' % fn.name)
    R.note('EFF4: %d public functions, %d with empty transitive write set over statics' % (len(publics), nclean))


def eff4_ir(ir, units, R):
    """IR cross-check: the set of non-constant internal globals equals the AST census of mutable
    statics; stores to @globals happen only in the documented writer functions."""
    ast_mut = set()
    for uname, u in units.items():
        for g in u.globals:
            if not g['const'] and not (g.get('extern') and 'init' not in g):
                ast_mut.add((uname, g['n']))
        for (fn, d) in u.static_locals():
            if not u.ty(d['ty'])['const']:
                ast_mut.add((uname, '%s.%s' % (fn.name, d['n'])))
    ir_mut = set()
    for uname, text in ir.items():
        for line in text.split('\n'):
            m = re.match(r'@([\w.]+) = (?:internal |dso_local |common |hidden |weak |external )*global ', line)
            if m and not m.group(1).startswith('.str'):
                ir_mut.add((uname, m.group(1)))
    R.ob('EFF4-IR', None, None, 'mutable globals in IR == AST census', ir_mut == ast_mut,
         'IR %s / AST %s' % (sorted(ir_mut), sorted(ast_mut)), key='ir-census', file='cJSON.c', line=0)
    nst = 0
    for uname, text in ir.items():
        cur = None
        for line in text.split('\n'):
            m = re.match(r'define .*@([\w.]+)\(', line)
            if m:
                cur = m.group(1)
                continue
            if line.startswith('}'):
                cur = None
            if cur and re.match(r'\s*store ', line):
                # destination operand is the last pointer operand
                dest = line.split(',')[1] if ',' in line else ''
                rest = ','.join(line.split(',')[1:])
                for gname in re.findall(r'@([\w.]+)', rest):
                    if (uname, gname) in ir_mut:
                        nst += 1
                        base = gname.split('.')[-1]
                        pol = STATIC_POLICY.get(base)
                        ok = pol is not None and cur in _private_closure(units[uname], pol[1])
                        R.ob('EFF4-IR', cur, None, 'IR store into @%s' % gname, ok,
                             'in documented writer %s' % cur if ok else 'store outside the documented writers',
                             key='irstore:%s:%s' % (gname, cur), file=uname, line=0)
            if cur and re.search(r'call .*@llvm\.memcpy', line):
                m2 = re.search(r'\(i8\*[^@,]*(?:bitcast \([^@]*)?@([\w.]+)', line)
                if m2 and (uname, m2.group(1)) in ir_mut:
                    nst += 1
                    gname = m2.group(1)
                    pol = STATIC_POLICY.get(gname.split('.')[-1])
                    ok = pol is not None and cur in _private_closure(units[uname], pol[1])
                    R.ob('EFF4-IR', cur, None, 'IR memcpy into @%s' % gname, ok, 'in %s' % cur,
                         key='irmemcpy:%s:%s' % (gname, cur), file=uname, line=0)
    R.floor('EFF4-IR', 'IR stores into mutable globals', nst, 2)


def eff5(units, R):
    """No call of a libc function with hidden shared state."""
    n = 0
    nloc = 0
    for uname, u in units.items():
        for fn in u.function_list:
            for c in fn.calls():
                cn = callee_name(c)
                n += 1
                if cn in HIDDEN_STATE:
                    R.ob('EFF5', fn, c, 'call of %s' % cn, False,
                         'libc function with hidden static state / process-global effect', key='hidden:' + cn)
                if cn in LOCALE_READ:
                    nloc += 1
                    # result may only be read within this function: must not be stored in a static
                    R.ob('EFF5', fn, c, 'call of %s' % cn, True,
                         'reads the current locale: covered by the documented condition "locale is not changed"',
                         key='locale:' + cn)
            # function references that are not calls (address taken) of hidden-state functions
            for x in fn.nodes():
                if x.get('k') == 'ref' and x.get('dk') == 'fn' and x['n'] in HIDDEN_STATE:
                    par = fn.parents().get(x['id'])
                    if not (par is not None and par.get('k') == 'call' and strip_casts(par['fn']) is x):
                        R.ob('EFF5', fn, x, 'address of %s taken' % x['n'], False, 'hidden-state function referenced',
                             key='hiddenref:' + x['n'])
    R.floor('EFF5', 'call sites inspected', n, 300)
    R.ob('EFF5', None, None, 'call sites inspected for hidden-state libc functions', True, '%d call sites' % n,
         key='census', file='cJSON.c', line=0)
