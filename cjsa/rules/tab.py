"""TAB rules: tables, exhaustiveness, sibling agreement (DESIGN.md section 3)."""
from ..facts import (AnalysisBroken, walk, children, strip_casts, expr_str, is_null_const, const_val, ASSIGN_OPS,
                     CMP_OPS, callee_name, qname)
from .common import (assignments, is_ref, is_mem, region_without_edges, guarded_by, cmp_parts, node_containing,
                     param_index, all_functions, find_function, enclosing_stmt)

FLAG = 'case_sensitive'
FOLD_LIBC = {'tolower', 'toupper', 'strcasecmp', 'strncasecmp', 'stricmp', '_stricmp', 'strcoll'}


# ---- TAB8 range-check consistency ------------------------------------------------------------------

def _bound_kind(op):
    if op in ('>=', '>'):
        return 'lo'
    if op in ('<=', '<'):
        return 'hi'
    return None


def _flatten(e, op):
    e = strip_casts(e)
    if e.get('k') == 'bin' and e['op'] == op:
        return _flatten(e['l'], op) + _flatten(e['r'], op)
    return [e]


def tab8(units, R):
    """In `E1 >= lo && E2 <= hi` (or the negated `E1 < lo || E2 > hi`) with constant bounds, where E1 and
    E2 are element reads of one base pointer (or two integer variables), E1 and E2 are the same element."""
    n = 0
    for u, fn in all_functions(units):
        for x in fn.nodes():
            if x.get('k') != 'bin' or x['op'] not in ('&&', '||'):
                continue
            par = fn.parents().get(x['id'])
            if par is not None and par.get('k') == 'bin' and par['op'] == x['op']:
                continue   # handled at the top of the chain
            parts = [cmp_parts(p) for p in _flatten(x, x['op'])]
            parts = [p for p in parts if p is not None and _bound_kind(p[1])]
            # pair each lower bound with the next upper bound (inside form for &&, outside form for ||)
            for i in range(len(parts) - 1):
                a, b = parts[i], parts[i + 1]
                ka, kb = _bound_kind(a[1]), _bound_kind(b[1])
                if x['op'] == '&&':
                    pair = (ka == 'lo' and kb == 'hi' and a[2] <= b[2])
                else:
                    pair = (ka == 'hi' and kb == 'lo' and a[2] <= b[2])
                if not pair:
                    continue
                ea, eb = a[0], b[0]
                same_kind = False
                if ea.get('k') == 'idx' and eb.get('k') == 'idx':
                    same_kind = expr_str(ea['b']) == expr_str(eb['b'])
                elif ea.get('k') == 'un' and ea['op'] == '*' and eb.get('k') in ('idx', 'un'):
                    same_kind = True
                elif ea.get('k') == 'ref' and eb.get('k') == 'ref':
                    same_kind = u.ty(ea)['c'] == 'int' and u.ty(eb)['c'] == 'int'
                elif ea.get('k') == 'mem' and eb.get('k') == 'mem':
                    same_kind = True
                if not same_kind:
                    continue
                n += 1
                ok = expr_str(ea) == expr_str(eb)
                R.ob('TAB8', fn, x, 'range test [%s, %s] bounds one element' % (a[2], b[2]), ok,
                     'both sides test %s' % expr_str(ea) if ok else
                     'lower bound tests %s but upper bound tests %s' % (expr_str(ea), expr_str(eb)),
                     key='range:%s..%s:%s' % (a[2], b[2], expr_str(ea)))
    R.floor('TAB8', 'range tests', n, 8)


# ---- TAB9 JSON-pointer escape tables ---------------------------------------------------------------

RFC6901 = {ord('0'): ord('~'), ord('1'): ord('/')}   # escape digit -> decoded byte


def _char_eq(e):
    """`X == 'c'` -> (X, c) ; `X != 'c'` -> (X, c, negated)"""
    p = cmp_parts(e)
    if p is None or p[1] not in ('==', '!='):
        return None
    return (p[0], p[2], p[1] == '!=')


def _one(cands, what, fn):
    if len(cands) != 1:
        raise AnalysisBroken('TAB9: %s: cannot identify %s (candidates %s)' % (fn.name, what, sorted(cands, key=repr)))
    return next(iter(cands))


def _rfc6901_encoding(b):
    inv = {v: k for k, v in RFC6901.items()}       # byte -> escape digit
    return [ord('~'), inv[b]] if b in inv else [b]


def _segments_for(segs, cursor, b, axis=0):
    return [s for s in segs if b in s.bytes_at(cursor, axis)]


def tab9(units, R):
    """The four JSON-pointer routines agree with RFC 6901 and with each other on every byte value.  Each routine's loop is
    followed path by path with the sets of values the bytes under its cursors can have (rules/bytepath.py); the
    obligations are then stated for all byte values 1..255 over what each path writes, returns and steps over - not
    over how the conditions are spelled."""
    from . import bytepath as bp
    u = units['cJSON_Utils.c']
    extracted = 0

    # ---- encode_string_as_pointer ----
    fn = u.fn('encode_string_as_pointer')
    ex = bp.explore(u, fn)
    segs = bp.loop_segments(ex)
    src = _one(bp.reading_cursors(segs), 'the source cursor', fn)
    dst = _one(bp.writing_cursors(segs) - {src}, 'the destination cursor', fn)
    enc_len = {}
    bad_table, bad_copy = [], []
    for b in range(1, 256):
        want = _rfc6901_encoding(b)
        ss = _segments_for(segs, src, b)
        if not ss:
            raise AnalysisBroken('TAB9: %s: no path for byte %d' % (fn.name, b))
        for sg in ss:
            text = bp.expand_text(sg.writes_through(dst), 0, lambda p, b=b: b)
            got = None
            if text is not None and sg.end[0] == 'head' and sg.adv(src) == 1 and sg.adv(dst) is not None and \
                    sorted(text) == list(range(sg.adv(dst))):
                got = [text[i] for i in range(sg.adv(dst))]
            enc_len.setdefault(b, set()).add(len(got) if got is not None else None)
            if got != want:
                (bad_table if b in RFC6901.values() else bad_copy).append((b, got))
    extracted += 1
    R.ob('TAB9', fn, None, "encode table: '/' is written as ~1 and '~' as ~0, stepping one source byte and two destination bytes",
         not bad_table, "RFC 6901 section 3" if not bad_table else 'byte %r is written as %s' % (
             chr(bad_table[0][0]), bad_table[0][1] and ''.join(map(chr, bad_table[0][1]))), key='encode-table')
    R.ob('TAB9', fn, None, 'every other byte 1..255 is copied unchanged, one for one', not bad_copy,
         '253 byte values' if not bad_copy else 'byte %d is written as %s' % bad_copy[0], key='encode-copy')
    term = [sg for sg in segs if sg.bytes_at(src) == frozenset([0])]
    okt = bool(term) and all(bp.expand_text(sg.writes_through(dst), 0, lambda p: 0) == {0: 0} and sg.end[0] != 'head' for sg in term)
    R.ob('TAB9', fn, None, 'at the end of the source a terminator is written where the destination cursor stands', okt,
         '%d terminating path(s)' % len(term), key='encode-terminator')

    # ---- pointer_encoded_length ----
    fn = u.fn('pointer_encoded_length')
    ex = bp.explore(u, fn)
    segs = bp.loop_segments(ex)
    src = _one(bp.reading_cursors(segs), 'the string cursor', fn)
    rets = [sg for sg in ex.segments if sg.end[0] == 'return' and sg.end_node.expr is not None]
    def summands(e):
        e = strip_casts(e)
        if e.get('k') == 'ref':
            return [e['n']]
        if e.get('k') == 'bin' and e['op'] == '+':
            l, r = summands(e['l']), summands(e['r'])
            return None if (l is None or r is None) else l + r
        return None
    names = {tuple(sorted(summands(sg.end_node.expr))) for sg in rets if summands(sg.end_node.expr)}
    counters = _one(names, 'the returned counter (a counter or a sum of counters)', fn)
    bad = []
    for b in range(1, 256):
        ss = _segments_for(segs, src, b)
        if not ss:
            raise AnalysisBroken('TAB9: %s: no path for byte %d' % (fn.name, b))
        for sg in ss:
            vs = [sg.vals.get(c_) for c_ in counters]
            got = sum(v[1] for v in vs) if (all(v is not None and v[0] == 'd' for v in vs) and sg.end[0] == 'head' and sg.adv(src) == 1) else None
            if {got} != enc_len[b] or got != len(_rfc6901_encoding(b)):
                bad.append((b, got, sorted(enc_len[b], key=repr)))
    extracted += 1
    R.ob('TAB9', fn, None, 'for every byte 1..255 the length pass counts exactly what the encoder writes', not bad,
         "2 for '/' and '~', 1 otherwise" if not bad else 'byte %d counted %s, encoder writes %s' % bad[0], key='length-table')

    # ---- decode_pointer_inplace ----
    fn = u.fn('decode_pointer_inplace')
    ex = bp.explore(u, fn)
    segs = bp.loop_segments(ex)
    bad_table, bad_copy, bad_invalid = [], [], []
    for sg in segs:
        rd = [c for c in sg.start_root if sg.constrained(c)]
        if not rd:
            continue
        # several cursors may share the position read; the writing one is the one with writes
        roots = {sg.start_root[c] for c in rd}
        if len(roots) != 1:
            raise AnalysisBroken('TAB9: %s: a path reads through two unrelated cursors' % fn.name)
        root = roots.pop()
        b0s = sg.B.get((root, 0), bp.ALL)
        b1s = sg.B.get((root, 1), bp.ALL)
        wr = list(sg.writes)
        in_adv = max([sg.adv(c) for c in rd if sg.adv(c) is not None] or [None], key=lambda x: -1 if x is None else x)
        out_c = sorted({w[3] for w in wr if w[3] is not None})
        if b0s == frozenset([0]):
            continue
        if ord('~') not in b0s:
            # plain byte: copied to the write position, both cursors step by one
            ok = sg.end[0] == 'head' and in_adv == 1 and len(wr) == 1 and wr[0][1] == 0 and wr[0][2] == ('in', root, 0) and \
                all(sg.adv(c) == 1 for c in out_c)
            if not ok:
                bad_copy.append((sorted(b0s)[:3], sg.line))
            continue
        if b0s != frozenset([ord('~')]):
            raise AnalysisBroken('TAB9: %s: a path treats ~ together with other bytes' % fn.name)
        for d in sorted(b1s):
            if chr(d) in '01' or d in RFC6901:
                want = RFC6901.get(d)
                ok = want is not None and sg.end[0] == 'head' and in_adv == 2 and len(wr) == 1 and wr[0][1] == 0 and \
                    wr[0][2] == ('k', want) and all(sg.adv(c) == 1 for c in out_c)
                if not ok:
                    bad_table.append((chr(d), wr[0][2] if wr else None, in_adv))
            elif sg.end[0] == 'head':
                bad_invalid.append(d)
    extracted += 1
    R.ob('TAB9', fn, None, 'decode table: ~0 becomes ~ and ~1 becomes /, consuming two bytes and writing one', not bad_table,
         'inverse of the encoder' if not bad_table else '~%s: writes %s, consumes %s' % bad_table[0], key='decode-table')
    R.ob('TAB9', fn, None, 'every other byte is copied unchanged, one for one', not bad_copy,
         'all non-escape paths' if not bad_copy else 'bytes %s...: path ending at line %d does not copy one byte' % bad_copy[0],
         key='decode-copy')
    R.ob('TAB9', fn, None, 'no other byte after ~ is decoded', not bad_invalid,
         'a ~ followed by anything else ends the decoding' if not bad_invalid else '~%s is accepted' % ''.join(map(chr, bad_invalid[:5])),
         key='decode-invalid')

    # ---- compare_pointers ----
    fn = u.fn('compare_pointers')
    flag = [p['n'] for p in fn.params if p['n'] == FLAG]
    tables = {}
    plain_bad = []
    for cs in (1, 0):
        ex = bp.explore(u, fn, assume={FLAG: cs} if flag else None)
        segs = bp.loop_segments(ex)
        rd = bp.reading_cursors(segs)
        ptr = {c for c in rd if any(1 in sg.constrained(c) for sg in segs)}      # the one looked ahead into
        ptr = _one(ptr, 'the encoded-pointer cursor', fn)
        nam = _one(rd - {ptr}, 'the key cursor', fn)
        table = {}
        other = []
        for sg in segs:
            if sg.bytes_at(ptr) != frozenset([ord('~')]) or sg.end[0] != 'head':
                continue
            d, k = sg.bytes_at(ptr, 1), sg.bytes_at(nam)
            if len(d) == 1 and len(k) == 1 and sg.adv(ptr) == 2 and sg.adv(nam) == 1:
                table[next(iter(d))] = next(iter(k))
            else:
                other.append((sorted(d)[:3], sorted(k)[:3], sg.adv(ptr), sg.adv(nam)))
        tables[cs] = (table, other)
        # plain bytes: the comparison continues exactly when the two bytes are equal (up to case when insensitive)
        pr, nr = None, None
        for sg in segs:
            if ptr not in sg.start_root or nam not in sg.start_root:
                raise AnalysisBroken('TAB9: %s: the %s is read through an index bounded by a length handed in (%s); this rule evaluates '
                                     'cursors that end at a byte of the text' % (fn.name, 'pointer token' if ptr not in sg.start_root else 'key',
                                                                                ptr if ptr not in sg.start_root else nam))
            pr, nr = sg.start_root[ptr], sg.start_root[nam]
            break
        cont_segs = [(sg, bp.pair_relation(ex, sg, (sg.start_root[nam], 0), (sg.start_root[ptr], 0)), sg.adv(ptr) == 1 and sg.adv(nam) == 1)
                     for sg in segs if sg.end[0] == 'head']
        for y in range(1, 256):
            if y in (ord('~'), ord('/')):
                continue
            for x in range(1, 256):
                want = (x == y) if cs else (bp._tolower(x) == bp._tolower(y))
                cont = False
                for (sg, rel, lockstep) in cont_segs:
                    f = rel(x, y)
                    if f is None:
                        raise AnalysisBroken('TAB9: %s: a comparison on the path ending at line %d cannot be evaluated' % (fn.name, sg.line))
                    if f and lockstep:
                        cont = True
                    elif f:
                        cont = None
                if cont != want:
                    plain_bad.append((cs, x, y, cont))
                    break
            if plain_bad:
                break
        if not flag:
            break
    extracted += 1
    okc = all(t == RFC6901 and not o for (t, o) in tables.values())
    t0 = tables[1][0]
    R.ob('TAB9', fn, None, 'compare table %s' % {chr(k): chr(v) for k, v in sorted(t0.items())}, okc,
         'a ~ in the pointer continues only as ~0 against ~ or ~1 against /, stepping two against one: agrees with decoder and encoder'
         if okc else 'disagrees with the decoder: %s' % (tables,), key='compare-table')
    R.ob('TAB9', fn, None, 'plain bytes match exactly when equal (folded to lower case when case-insensitive)', not plain_bad,
         'all 253 x 255 pairs, both settings of the flag' if not plain_bad else
         'case_sensitive=%d: key byte %d against pointer byte %d continues: %s' % plain_bad[0], key='compare-plain')
    R.floor('TAB9', 'pointer escape tables extracted', extracted, 4)


# ---- TAB10 patch opcodes ---------------------------------------------------------------------------

RFC6902_OPS = {'add', 'remove', 'replace', 'move', 'copy', 'test'}


def tab10(units, R):
    u = units['cJSON_Utils.c']
    en = [e for e in u.enums if e['name'] == 'patch_operation']
    if not en:
        raise AnalysisBroken('TAB10: enum patch_operation not found')
    consts = {c['n']: c['val'] for c in en[0]['consts']}
    fn = u.fn('decode_patch_operation')
    mapping = {}
    cfg = fn.cfg()

    def strcmp_test(e):
        """(call, equal_truth): e is `strcmp(..) == 0` / `!strcmp(..)` / `strcmp(..) != 0` / `strcmp(..)`"""
        e = strip_casts(e)
        p = cmp_parts(e)
        if p is not None and p[2] == 0 and p[1] in ('==', '!='):
            c = strip_casts(p[0])
            if c.get('k') == 'call' and callee_name(c) in ('strcmp', 'strncmp'):
                return c, p[1] == '=='
        if e.get('k') == 'call' and callee_name(e) in ('strcmp', 'strncmp'):
            return e, False
        return None

    # constant tables local to the function: name -> list of initialisers (only when never stored to or handed out)
    tables = {}
    for d in fn.locals():
        if d.get('static') and 'init' in d and d['init'].get('k') == 'initlist':
            touched = False
            for x in fn.nodes():
                if x.get('k') == 'bin' and x['op'] in ASSIGN_OPS:
                    l = strip_casts(x['l'])
                    if l.get('k') == 'idx' and strip_casts(l['b']).get('d') == d['d']:
                        touched = True
                if x.get('k') == 'call' and any(strip_casts(a0).get('d') == d['d'] for a0 in x['args']):
                    touched = True
                if x.get('k') == 'un' and x['op'] == '&' and any(y.get('d') == d['d'] for y in walk(x['e'])) and \
                        strip_casts(x['e']).get('k') != 'idx':
                    touched = True
            if not touched:
                tables[d['d']] = [strip_casts(i) for i in d['init']['inits']]

    # const-qualified tables at file scope (a const object is never written: EFF4)
    for g in u.globals:
        if g.get('const') and 'init' in g and strip_casts(g['init']).get('k') == 'initlist' and u.ty(g['ty'])['c'] == 'array':
            tables[g['d']] = [strip_casts(i) for i in strip_casts(g['init'])['inits']]

    def equal_edges(pred_call):
        """branch edges on which a strcmp satisfying pred_call compared equal -> list of (node id, label polarity, call)"""
        out = []
        for n in cfg.nodes:
            if n.kind != 'branch':
                continue
            t = strcmp_test(n.expr)
            if t is None:
                continue
            call, eq_truth = t
            if pred_call(call):
                out.append((n.id, 'T' if eq_truth else 'F', call))
        return out

    def guarded_by_equal(ret_id, edges):
        """the return is unreachable once the "compared equal" edges are removed"""
        ids = {(nid, pol) for (nid, pol, _c) in edges}
        return guarded_by(cfg, ret_id, lambda n, l: n.kind == 'branch' and l is not None and (n.id, l[0]) in ids) if ids else False

    def table_cell(e):
        """(table decl, index variable decl, field name or None) for T[i] / T[i].field on a constant local table"""
        e = strip_casts(e)
        field = None
        if e.get('k') == 'mem' and not e.get('arrow'):
            field = e['f']
            e = strip_casts(e['b'])
        if e.get('k') == 'idx' and strip_casts(e['b']).get('d') in tables and is_ref(e['i']):
            return (strip_casts(e['b'])['d'], strip_casts(e['i'])['d'], field)
        return None

    def column(tab_d, field, want=None):
        """the cells of one column of a table (the table itself when it is an array of scalars)"""
        rows = tables[tab_d]
        if field is None:
            return rows
        out = []
        for r in rows:
            if r.get('k') != 'initlist':
                return None
            # which position is `field`: the record of the element type
            rec = None
            for rname, rr in u.records.items():
                if any(f['n'] == field for f in rr['fields']) and len(rr['fields']) == len(r['inits']):
                    rec = rr
            if rec is None:
                # a record declared inside the function (not in the unit's record table): the column is the one position that holds
                # what is wanted in every row - string literals for the names, enumeration constants for the opcodes
                kinds = {'str': lambda c_: c_.get('k') == 'str', 'enum': lambda c_: c_.get('k') == 'ref' and c_.get('dk') == 'enumc'}
                if want not in kinds or any(rw.get('k') != 'initlist' for rw in rows):
                    return None
                width = len(r['inits'])
                cand = [i for i in range(width) if all(len(rw['inits']) == width and kinds[want](strip_casts(rw['inits'][i])) for rw in rows)]
                if len(cand) != 1:
                    return None
                pos = cand[0]
            else:
                pos = [i for i, f in enumerate(rec['fields']) if f['n'] == field][0]
            out.append(strip_casts(r['inits'][pos]))
        return out

    def literal_arg(call):
        for a0 in call['args']:
            a0 = strip_casts(a0)
            if a0.get('k') == 'str':
                return ('lit', bytes(a0['bytes']).decode('latin1'))
            tc = table_cell(a0)
            if tc is not None:
                return ('tab', tc[0], tc[1], tc[2])
        return None
    all_edges = equal_edges(lambda c: literal_arg(c) is not None)
    # a bounded comparison names the operation only if the bound takes the terminator in: strncmp(op, "add", 3) is true of "addendum"
    for (nid_, pol_, call_) in all_edges:
        la_ = literal_arg(call_)
        if callee_name(call_) == 'strncmp' and la_[0] == 'lit' and len(call_['args']) == 3:
            nb_ = const_val(call_['args'][2])
            R.ob('TAB10', fn, call_, 'the comparison with "%s" is of the whole name' % la_[1], nb_ is not None and nb_ > len(la_[1]),
                 '%s bytes compared, the literal and its terminator are %d' % (nb_, len(la_[1]) + 1) if (nb_ is not None and nb_ > len(la_[1])) else
                 'only the first %s byte(s) are compared: every name that begins with "%s" is taken for it' % (nb_, la_[1]),
                 key='whole:%s' % la_[1])
    for r in cfg.returns():
        if r.expr is None:
            continue
        e = strip_casts(r.expr)
        if e.get('k') == 'ref' and e.get('dk') == 'enumc':
            if e['n'] == 'INVALID':
                continue
            lits = set()
            for (nid, pol, call) in all_edges:
                la = literal_arg(call)
                if la[0] == 'lit' and guarded_by_equal(r.id, [(nid, pol, call)]):
                    lits.add(la[1])
            guarded = guarded_by_equal(r.id, [ed for ed in all_edges if literal_arg(ed[2])[0] == 'lit'])
            if not guarded:
                mapping.setdefault(e['n'], []).append('<unguarded>')
            for l in sorted(lits):
                mapping.setdefault(e['n'], []).append(l)
            if guarded and not lits:
                # reached through any one of several comparisons
                for (nid, pol, call) in all_edges:
                    la = literal_arg(call)
                    if la[0] == 'lit' and r.id in cfg.reachable(nid):
                        mapping.setdefault(e['n'], []).append(la[1])
        elif table_cell(e) is not None:
            # return opcodes[i] (or rows[i].opcode) guarded by strcmp(x, names[i]) == 0 with the same i
            tab_d, idx_d, ret_field = table_cell(e)
            eds = [ed for ed in all_edges if literal_arg(ed[2])[0] == 'tab' and literal_arg(ed[2])[2] == idx_d]
            if not eds or not guarded_by_equal(r.id, eds):
                raise AnalysisBroken('TAB10: %s: table lookup is not guarded by a comparison with the same index' % fn.where(r.expr))
            # the index may not change between the comparison and the return
            for (nid, pol, call) in eds:
                between = cfg.reachable(nid, stop={r.id})
                for m in between:
                    nd = cfg.nodes[m]
                    if nd.expr is None or m == nid:
                        continue
                    for x in walk(nd.expr):
                        t = None
                        if x.get('k') == 'bin' and x['op'] in ASSIGN_OPS:
                            t = strip_casts(x['l'])
                        elif x.get('k') == 'un' and x['op'] in ('post++', 'post--', 'pre++', 'pre--'):
                            t = strip_casts(x['e'])
                        if t is not None and t.get('d') == idx_d and r.id in cfg.reachable(m):
                            # the loop increment is also "between" along the back edge; only count straight-line
                            # changes, i.e. those from which the return is reachable without passing the comparison again
                            if r.id in cfg.reachable(m, stop={nid}):
                                raise AnalysisBroken('TAB10: %s: index changes between comparison and lookup' % fn.where(r.expr))
            name_tabs = {(literal_arg(ed[2])[1], literal_arg(ed[2])[3]) for ed in eds}
            if len(name_tabs) != 1:
                raise AnalysisBroken('TAB10: %s: several name tables' % fn.where(r.expr))
            nt = name_tabs.pop()
            names_t, ops_t = column(nt[0], nt[1], 'str'), column(tab_d, ret_field, 'enum')
            if names_t is None or ops_t is None:
                raise AnalysisBroken('TAB10: %s: table columns cannot be read' % fn.where(r.expr))
            if len(names_t) != len(ops_t):
                R.ob('TAB10', fn, r.expr, 'name table and opcode table have the same length', False,
                     '%d names, %d opcodes' % (len(names_t), len(ops_t)), key='decode-tables')
            for nm, oc in zip(names_t, ops_t):
                if nm.get('k') == 'str' and oc.get('k') == 'ref' and oc.get('dk') == 'enumc':
                    mapping.setdefault(oc['n'], []).append(bytes(nm['bytes']).decode('latin1'))
                else:
                    raise AnalysisBroken('TAB10: %s: table entries are not literal name / enumerator' % fn.where(r.expr))
        else:
            raise AnalysisBroken('TAB10: %s: return value %s is neither an enumerator nor a table lookup' % (fn.where(r.expr), expr_str(e)[:40]))
    for cname in consts:
        if cname == 'INVALID':
            continue
        names = mapping.get(cname, [])
        ok = len(names) == 1 and names[0] == cname.lower() and names[0] in RFC6902_OPS
        R.ob('TAB10', fn, None, 'opcode %s decoded from %s' % (cname, names), ok,
             'exactly one RFC 6902 name' if ok else 'enumerator not returned for exactly its RFC 6902 name',
             key='decode:' + cname)
    extra = set(n for ns in mapping.values() for n in ns) - RFC6902_OPS
    R.ob('TAB10', fn, None, 'no operation name outside RFC 6902', not extra, str(sorted(extra)), key='decode-extra')
    ap = u.fn('apply_patch')
    used = set()
    for x in ap.nodes():
        if x.get('k') == 'bin' and x['op'] in ('==', '!='):
            for side in (x['l'], x['r']):
                s = strip_casts(side)
                if s.get('k') == 'ref' and s.get('dk') == 'enumc':
                    used.add(s['n'])
        if x.get('k') == 'case':
            s = strip_casts(x['v'])
            if s.get('k') == 'ref' and s.get('dk') == 'enumc':
                used.add(s['n'])
    # ADD/REPLACE may be handled by the final else arm: require every opcode to be either tested or
    # covered by an arm that is the complement of tested ones; today REMOVE REPLACE MOVE COPY TEST ADD INVALID
    for cname in consts:
        R.ob('TAB10', ap, None, 'opcode %s handled in apply_patch' % cname, cname in used,
             'compared against' if cname in used else 'never tested: operation silently treated as another',
             key='apply:' + cname)
    R.floor('TAB10', 'patch opcodes', len(consts), 7)


# ---- TAB11 case-sensitivity flag propagation -------------------------------------------------------

def _flag_index(fn):
    return param_index(fn, FLAG)


def _fold_sets(units):
    """Names of functions (without a flag parameter) that fold case when called, and for flagged
    functions the list of offending call sites outside the `!flag` region."""
    flagged = {}
    for u, fn in all_functions(units):
        i = _flag_index(fn)
        if i is not None:
            flagged[fn.name] = i
    folds = set(FOLD_LIBC)
    changed = True
    while changed:
        changed = False
        for u, fn in all_functions(units):
            if fn.name in flagged or fn.name in folds:
                continue
            for c in fn.calls():
                cn = callee_name(c)
                if cn in folds:
                    folds.add(fn.name)
                    changed = True
                    break
                if cn in flagged:
                    a = c['args'][flagged[cn]]
                    if const_val(a) == 0:
                        folds.add(fn.name)
                        changed = True
                        break
    return flagged, folds


def _exact_set(units, flagged, folds):
    """Functions without a flag parameter that compare keys exactly whatever their caller wanted: they hand the constant true to a
    flagged function, or call a function that does."""
    exact = set()
    changed = True
    while changed:
        changed = False
        for u, fn in all_functions(units):
            if fn.name in flagged or fn.name in folds or fn.name in exact:
                continue
            for c in fn.calls():
                cn = callee_name(c)
                if cn in exact:
                    exact.add(fn.name)
                    changed = True
                    break
                if cn in flagged:
                    v = const_val(c['args'][flagged[cn]])
                    if v is not None and v != 0:
                        exact.add(fn.name)
                        changed = True
                        break
    return exact


def tab11(units, R, scope=None):
    """scope: optional set of function names to report on (default: all flagged functions and all
    *CaseSensitive public wrappers)."""
    flagged, folds = _fold_sets(units)
    exact = _exact_set(units, flagged, folds)
    nflag = 0
    nwrap = 0
    for u, fn in all_functions(units):
        if scope is not None and fn.name not in scope:
            continue
        if fn.name in flagged:
            nflag += 1
            pd = fn.params[flagged[fn.name]]['d']
            cfg = fn.cfg()

            def is_flag(e):
                return e.get('k') == 'ref' and e.get('d') == pd
            false_region_complement = region_without_edges(
                cfg, lambda n, l: n.kind == 'branch' and l is not None and l[0] == 'F' and is_flag(strip_casts(n.expr)))
            true_region_complement = region_without_edges(
                cfg, lambda n, l: n.kind == 'branch' and l is not None and l[0] == 'T' and is_flag(strip_casts(n.expr)))
            for c in fn.calls():
                cn = callee_name(c)
                if cn in flagged:
                    a = strip_casts(c['args'][flagged[cn]])
                    ok = is_flag(a)
                    R.ob('TAB11', fn, c, 'passes its %s flag to %s' % (FLAG, cn), ok,
                         'argument is the parameter itself' if ok else 'argument is %s' % expr_str(a),
                         key='pass:%s:%s' % (cn, expr_str(a) if not ok else 'flag'))
                elif cn in folds:
                    node = node_containing(cfg, c)
                    ok = node.id not in false_region_complement
                    R.ob('TAB11', fn, c, 'case-folding callee %s only when the flag is false' % cn, ok,
                         'reachable only through the false edge of the flag test' if ok else
                         'reachable with %s == true: the case-sensitive variant folds case here' % FLAG,
                         key='fold:%s' % cn)
                elif cn in exact and any('struct cJSON' in u.ty(a_.get('ty0', a_['ty']))['s'] for a_ in c['args'] if a_.get('ty') is not None):
                    # the mirror image: a callee that compares keys exactly whatever it is told (it has no flag and hands `true` on)
                    node = node_containing(cfg, c)
                    ok = node.id not in true_region_complement
                    R.ob('TAB11', fn, c, 'exact-matching callee %s only when the flag is true' % cn, ok,
                         'reachable only through the true edge of the flag test' if ok else
                         'reachable with %s == false: %s has no flag and compares keys exactly (it hands the constant true on), so the '
                         'case-insensitive variant turns case-sensitive from here down' % (FLAG, cn), key='exact:%s' % cn)
        elif fn.external and fn.name.endswith('CaseSensitive'):
            nwrap += 1
            for c in fn.calls():
                cn = callee_name(c)
                if cn in flagged:
                    a = c['args'][flagged[cn]]
                    v = const_val(a)
                    ok = v is not None and v != 0
                    R.ob('TAB11', fn, c, 'case-sensitive entry point passes true to %s' % cn, ok,
                         'constant %s' % v if ok else 'passes %s' % expr_str(a), key='wrap:%s' % cn)
                elif cn in folds:
                    R.ob('TAB11', fn, c, 'case-sensitive entry point calls case-folding %s' % cn, False,
                         '%s folds case unconditionally' % cn, key='wrapfold:%s' % cn)
            twin = fn.name[:-len('CaseSensitive')]
            if any(twin in v.functions for v in units.values()):
                ok = not any(callee_name(c) == twin for c in fn.calls())
                R.ob('TAB11', fn, None, 'does not delegate to its case-folding twin %s' % twin, ok, '', key='twin')
    if scope is None:
        R.floor('TAB11', 'functions with a %s parameter' % FLAG, nflag, 14)
        R.floor('TAB11', 'public *CaseSensitive entry points', nwrap, 10)
    R.note('TAB11: %d flagged functions, %d case-sensitive entry points, folding set %s' %
           (nflag, nwrap, sorted(f for f in folds if f not in FOLD_LIBC)))


# ---- TAB12 kind guard before payload use -----------------------------------------------------------

LOOKUPS = {'get_object_item', 'cJSON_GetObjectItem', 'cJSON_GetObjectItemCaseSensitive'}
PAYLOAD_GUARD = {
    'valuestring': {'cJSON_IsString', 'cJSON_IsRaw'},
    'valuedouble': {'cJSON_IsNumber'},
    'valueint': {'cJSON_IsNumber'},
    'child': {'cJSON_IsArray', 'cJSON_IsObject'},
}


def tab12(units, R):
    u = units['cJSON_Utils.c']
    n = 0
    for fn in u.function_list:
        # locals assigned from a lookup in a caller-supplied document
        looked = {}
        for x in fn.nodes():
            if x.get('k') == 'decl':
                for d in x['decls']:
                    if 'init' in d and strip_casts(d['init']).get('k') == 'call' and \
                            callee_name(strip_casts(d['init'])) in LOOKUPS:
                        looked[d['d']] = d['n']
            if x.get('k') == 'bin' and x['op'] == '=' and strip_casts(x['r']).get('k') == 'call' and \
                    callee_name(strip_casts(x['r'])) in LOOKUPS and strip_casts(x['l']).get('k') == 'ref':
                looked[strip_casts(x['l'])['d']] = strip_casts(x['l'])['n']
        if not looked:
            continue
        cfg = fn.cfg()
        for x in fn.nodes():
            if x.get('k') != 'mem' or x['f'] not in PAYLOAD_GUARD:
                continue
            b = strip_casts(x['b'])
            if b.get('k') != 'ref' or b['d'] not in looked:
                continue
            n += 1
            guards = PAYLOAD_GUARD[x['f']]
            var = b['d']
            node = node_containing(cfg, x)

            def is_guard(e):
                return e.get('k') == 'call' and callee_name(e) in guards and e['args'] and \
                    strip_casts(e['args'][0]).get('k') == 'ref' and strip_casts(e['args'][0])['d'] == var
            ok = guarded_by(cfg, node.id, lambda nn, l: nn.kind == 'branch' and l is not None and l[0] == 'T'
                            and is_guard(strip_casts(nn.expr)))
            why = 'dominated by the true edge of %s(%s)' % ('/'.join(sorted(guards)), b['n'])
            if ok:
                # the variable must not be re-assigned between guard and use: all its assignments dominate a guard
                gnodes = [g.id for g in cfg.nodes if g.kind == 'branch' and is_guard(strip_casts(g.expr))]
                for a in cfg.nodes:
                    root = a.expr if a.expr is not None else None
                    if root is None or a.kind == 'branch':
                        continue
                    if root.get('k') == 'bin' and root['op'] == '=' and is_ref(root['l']) and \
                            strip_casts(root['l'])['d'] == var:
                        if not any(cfg.dominates(a.id, g) for g in gnodes) or \
                                any(cfg.dominates(g, a.id) and cfg.dominates(a.id, node.id) for g in gnodes):
                            ok = False
                            why = '%s re-assigned at line %d after the kind test' % (b['n'], a.line)
            else:
                why = '%s->%s used without %s(%s) on every path (node comes from the caller-supplied document)' % (
                    b['n'], x['f'], '/'.join(sorted(guards)), b['n'])
            R.ob('TAB12', fn, x, '%s->%s used only after a kind test' % (b['n'], x['f']), ok, why,
                 key='payload:%s->%s' % (b['n'], x['f']))
    R.floor('TAB12', 'payload uses of looked-up nodes', n, 4)


# ---- TAB13 string-scanner agreement ----------------------------------------------------------------

def tab13(units, R):
    """A scanner that finds the end of a string literal must consume the byte after a backslash whatever it
    is: the backslash test may not be conjoined with an equality test of the following byte against a
    particular (non-NUL) character."""
    u = units['cJSON.c']
    n = 0
    for fn in u.function_list:
        for x in fn.nodes():
            if x.get('k') != 'bin' or x['op'] != '&&':
                continue
            par = fn.parents().get(x['id'])
            if par is not None and par.get('k') == 'bin' and par['op'] == '&&':
                continue
            parts = [cmp_parts(p) for p in _flatten(x, '&&')]
            bs = [p for p in parts if p and p[1] == '==' and p[2] == 92 and p[0].get('k') in ('idx', 'un')]
            if not bs:
                continue
            n += 1
            bad = [p for p in parts if p and p not in bs and p[1] == '==' and p[2] != 0 and p[0].get('k') in ('idx', 'un')]
            R.ob('TAB13', fn, x, 'backslash test is not tied to one particular following byte', not bad,
                 'escape pair consumed whatever the second byte is' if not bad else
                 'backslash only honoured when followed by %s: an escaped backslash before a quote ends the string early'
                 % expr_str(bad[0][0]) + ' == ' + repr(chr(bad[0][2])), key='backslash-pair')
        # scanners written with nested ifs: `if (p[0] == '\\\\')` is fine by construction
    scanners = [fn for fn in u.function_list if any(
        (cmp_parts(x) or (None, None, None))[2] == 92 for x in fn.nodes() if x.get('k') == 'bin')]
    R.floor('TAB13', 'functions testing for a backslash', len(scanners), 3)
    R.note('TAB13: %d conjunctions with a backslash test; scanners: %s' % (n, [f.name for f in scanners]))


# ---- TAB19 comment delimiters --------------------------------------------------------------------------------

COMMENT_DELIMS = {'skip_oneline_comment': ('//', '\n'), 'skip_multiline_comment': ('/*', '*/')}


def _axes_in(e, env, axis_of, depth=0):
    """Axes (byte positions relative to the iteration start) an expression depends on, looking through locals."""
    out = set()
    e = strip_casts(e)
    if depth > 6:
        return out
    for x in walk(e):
        if x.get('k') in ('idx', 'un'):
            a = axis_of(x)
            if a is not None:
                out.add(a)
        if x.get('k') == 'ref' and x.get('d') in env:
            out |= _axes_in(env[x['d']][0], env, lambda n, ax=env[x['d']][1]: ax(n), depth + 1)
    return out


def _library_scan(node, cursor_of, disp):
    """('span', cursor, argcursor, argoffset, bytes) for `c += strcspn(c, "lit")` / `c += strlen(c)`;
    ('find', target, argcursor, argoffset, bytes) for `t = strstr(c, "lit")` / `t = strchr(c, ch)`; else None"""
    from ..dataflow import node_effects
    for ev in node_effects(node):
        if ev.kind == 'store':
            lhs, op, rhs = ev.lhs, ev.node['op'], ev.node['r']
            tgt = cursor_of(lhs)
        elif ev.kind == 'declinit' and ev.rhs is not None:
            lhs, op, rhs = None, '=', ev.rhs
            tgt = ev.lhs['n']
        else:
            continue
        r = strip_casts(rhs)
        if r.get('k') != 'call' or tgt is None:
            continue
        cn = callee_name(r)
        if not r['args']:
            continue
        a0 = strip_casts(r['args'][0])
        k = 0
        if a0.get('k') == 'bin' and a0['op'] == '+' and const_val(a0['r']) is not None:
            k = const_val(a0['r'])
            a0 = strip_casts(a0['l'])
        argc = cursor_of(a0)
        if argc is None or argc not in disp:
            continue
        if op == '+=' and cn in ('strcspn', 'strlen') and argc == tgt and k == 0:
            lit = []
            if cn == 'strcspn':
                l1 = strip_casts(r['args'][1])
                if l1.get('k') != 'str':
                    return None
                lit = list(l1['bytes'])
            return ('span', tgt, argc, k, lit)
        if op == '=' and cn in ('strstr', 'strchr') and len(r['args']) > 1:
            l1 = strip_casts(r['args'][1])
            if cn == 'strstr' and l1.get('k') == 'str' and l1['bytes']:
                return ('find', tgt, argc, k, list(l1['bytes']))
            c = const_val(r['args'][1])
            if cn == 'strchr' and c:
                return ('find', tgt, argc, k, [c])
    return None


def _null_test(e, cursor_of):
    """(cursor, True when the expression is true for a NULL cursor)"""
    e = strip_casts(e)
    if e.get('k') == 'bin' and e['op'] in ('==', '!=') and (is_null_const(e['l']) or is_null_const(e['r'])):
        other = e['l'] if is_null_const(e['r']) else e['r']
        c = cursor_of(other)
        if c is not None:
            return (c, e['op'] == '==')
    c = cursor_of(e) if e.get('k') == 'ref' else None
    if c is not None:
        return (c, False)
    return None


def _entry_index_in_opener(u, fn, pparam, opener, by_value):
    """how many bytes of the opener every caller of the skipper has already stepped over when it calls it: the smallest alignment of
    the opener under the cursor that agrees with what the caller has tested about the bytes there (`case '/': json++; if (json[0] ==
    '*') skip(&json)` calls with the cursor on the second byte); 0 when nothing is known"""
    from ..dataflow import access, node_effects
    pidx = [i for i, p_ in enumerate(fn.params) if p_['d'] == pparam['d']][0]
    best = None
    for g in u.function_list:
        if g.body is None:
            continue
        for c in g.calls():
            if callee_name(c) != fn.name or pidx >= len(c['args']):
                continue
            a = strip_casts(c['args'][pidx])
            if not by_value and a.get('k') == 'un' and a['op'] == '&':
                a = strip_casts(a['e'])
            if a.get('k') != 'ref':
                best = 0
                continue
            v = a['d']
            cfg = g.cfg()
            N = cfg.node_of_expr(c['id'])
            if N is None:
                best = 0
                continue
            moves = {}
            for m in cfg.nodes:
                for ev in node_effects(m):
                    if ev.kind == 'incdec' and is_ref(ev.lhs) and strip_casts(ev.lhs)['d'] == v:
                        moves[m.id] = moves.get(m.id, 0) + ev.delta
                    elif ev.kind == 'store' and is_ref(ev.lhs) and strip_casts(ev.lhs)['d'] == v:
                        k_ = const_val(ev.node['r']) if ev.node['op'] in ('+=', '-=') else None
                        moves[m.id] = None if k_ is None else moves.get(m.id, 0) + (k_ if ev.node['op'] == '+=' else -k_)
            facts = []
            for b in cfg.nodes:
                tests = []
                if b.kind == 'branch' and b.expr is not None:
                    pc = cmp_parts(b.expr)
                    if pc is not None and pc[1] in ('==', '!=') and pc[2] is not None:
                        acc = access(strip_casts(pc[0])) if strip_casts(pc[0]).get('k') in ('idx', 'un') else None
                        if acc is not None and strip_casts(acc[0]).get('k') == 'ref' and strip_casts(acc[0])['d'] == v and isinstance(acc[1], int):
                            tests.append((acc[1], pc[2], 'T' if pc[1] == '==' else 'F'))
                elif b.kind == 'switch' and b.expr is not None:
                    acc = access(strip_casts(b.expr)) if strip_casts(b.expr).get('k') in ('idx', 'un') else None
                    if acc is not None and strip_casts(acc[0]).get('k') == 'ref' and strip_casts(acc[0])['d'] == v and isinstance(acc[1], int):
                        for (y, l) in cfg.succ[b.id]:
                            if l is not None and l[0] == 'case':
                                tests.append((acc[1], l[2], ('case', l[2])))
                for (i_, ch, lab) in tests:
                    def edge(nn, l, b=b, lab=lab):
                        if nn.id != b.id or l is None:
                            return False
                        return (l[0] == lab) if isinstance(lab, str) else (l[0] == 'case' and l[2] == lab[1])
                    if not guarded_by(cfg, N.id, edge):
                        continue
                    targets = [y for (y, l) in cfg.succ[b.id] if l is not None and ((l[0] == lab) if isinstance(lab, str) else (l[0] == 'case' and l[2] == lab[1]))]
                    after = set()
                    for y in targets:
                        after |= cfg.reachable(y, stop={b.id}) | {y}       # (the same turn of an enclosing loop: not through the test again)
                    between = [m for m in moves if m in after and m != N.id and N.id in (cfg.reachable(m, stop={b.id}) | {m})]
                    shift = 0
                    ok = True
                    for m in between:
                        if moves[m] is None or N.id in (set().union(*[cfg.reachable(y, stop={m, b.id}) | {y} for y in targets]) if targets else set()):
                            ok = False
                            break
                        shift += moves[m]
                    if ok:
                        facts.append((i_ - shift, ch))
            j_ok = [j for j in range(0, len(opener) + 1) if all(0 <= j + i_ < len(opener) and ord(opener[j + i_]) == ch for (i_, ch) in facts)]
            j = min(j_ok) if (facts and j_ok) else 0
            best = j if best is None else min(best, j)
    return best or 0


def tab19(units, R):
    """A comment skipper first steps over its opener, then leaves its scanning loop only at the terminator or when the
    bytes *at* the cursor spell its closer, having stepped over exactly the closer.  Decided by following every path of
    one loop iteration with the sets of values the bytes at cursor+0, +1, ... can have on it (bytes behind the cursor may not
    take part in the decision)."""
    from ..dataflow import access, node_effects
    from .parse import _evalb
    u = units['cJSON.c']
    n_ob = 0
    for name, (opener, closer) in COMMENT_DELIMS.items():
        fn = u.fn(name)
        cfg = fn.cfg()
        pp = [p for p in fn.params if u.ty(p['ty'])['s'].count('*') == 2]
        by_value = False
        if not pp:
            # the cursor is taken by value and handed back: char *skip(char *input) { ...; return input; }
            pv = [p for p in fn.params if u.ty(p['ty'])['c'] == 'ptr' and 'char' in u.ty(p['ty'])['s'] and u.ty(p['ty'])['s'].count('*') == 1]
            rt = u.ty(fn.ret) if getattr(fn, 'ret', None) is not None else {}
            if len(pv) == 1 and rt.get('c') == 'ptr' and 'char' in rt.get('s', ''):
                pp = pv
                by_value = True
        if len(pp) != 1:
            raise AnalysisBroken('TAB19: %s does not take one char** cursor' % name)
        if _tab19_scalar_shape(u, fn):
            # the scan reads through an index or keeps bytes in scalar locals: followed with the byte-path engine, which knows
            # positions of the form cursor[counter] and scalars that hold input bytes across iterations
            n_ob += _tab19_bytepath(u, fn, name, opener, closer, '*' + pp[0]['n'], R)
            continue
        ppd = pp[0]['d']
        heads = [n for n in cfg.nodes if n.kind == 'nop' and n.name == 'loop-head']
        if len(heads) > 1:
            raise AnalysisBroken('TAB19: %s has more than one scanning loop' % name)
        # no loop at all: the scan is delegated to the C library (strstr, strcspn, strchr, strlen), whose contracts play the
        # role of the loop: the cursor is re-based where the search ends, with what is known about the bytes there
        head = heads[0] if heads else None
        ALL = frozenset(range(256))

        def cursor_of(e):
            """'*pp' or the name of a local char pointer"""
            e = strip_casts(e)
            if e.get('k') == 'un' and e['op'] in ('post++', 'post--', 'pre++', 'pre--'):
                e = strip_casts(e['e'])
            if e.get('k') == 'un' and e['op'] == '*' and is_ref(e['e']) and strip_casts(e['e'])['d'] == ppd and not by_value:
                return '*pp'
            if by_value and e.get('k') == 'ref' and e.get('d') == ppd:
                return '*pp'
            if e.get('k') == 'ref' and e.get('dk') == 'local' and u.ty(e['ty'])['c'] == 'ptr' and 'char' in u.ty(e['ty'])['s']:
                return e['n']
            return None

        # state: (node, disp: {cursor: displacement from the origin}, B: {axis: set}, env), origin = cursor at function
        # entry before the loop, cursor at the loop head inside the loop
        results = {'opener': set(), 'exits': []}
        seen = set()
        work = [(cfg.entry.id, (('*pp', 0),), (), False, ())]
        steps = 0
        while work:
            nid, dispt, Bt, inloop, nullt = work.pop()
            nulls = dict(nullt)
            steps += 1
            if steps > 20000:
                raise AnalysisBroken('TAB19: exploration of %s does not finish' % name)
            node = cfg.nodes[nid]
            disp = dict(dispt)
            B = dict(Bt)
            if head is not None and nid == head.id:
                if not inloop:
                    results['opener'].add(tuple(sorted(disp.items(), key=repr)))
                # new iteration: the origin moves to the cursor, nothing is known about the bytes ahead
                known = [d for d in disp.values() if d is not None]
                ref = max(known) if known else 0
                # cursors that lag behind the scanning cursor are stale until they are assigned again
                disp = {c: (0 if d == ref else None) for c, d in disp.items()}
                B = {}
                inloop = True
            if nid == cfg.exit.id:
                if inloop:
                    results['exits'].append((dict(disp), dict(B), node))
                continue
            if by_value and node.kind == 'return':
                # where the caller's cursor ends up is what is handed back
                r_ = strip_casts(node.expr) if node.expr is not None else {}
                k_ = 0
                if r_.get('k') == 'bin' and r_['op'] == '+' and const_val(r_['r']) is not None:
                    k_ = const_val(r_['r'])
                    r_ = strip_casts(r_['l'])
                c_ = cursor_of(r_) if r_ else None
                disp['*ret'] = (disp[c_] + k_) if (c_ in disp and disp[c_] is not None) else None
            sig = (nid, tuple(sorted(disp.items(), key=repr)), tuple(sorted((a, v) for a, v in B.items())), inloop, tuple(sorted(nulls.items())))
            if sig in seen:
                continue
            seen.add(sig)
            def axis_of(x, disp=disp):
                acc = access(x)
                if acc is None:
                    return None
                c = cursor_of(acc[0])
                if c is None or c not in disp or disp[c] is None or not isinstance(acc[1], int):
                    return None
                return disp[c] + acc[1]
            # effects on the cursors (after the condition / expression has been evaluated with the old positions)
            disp2 = dict(disp)
            for ev in node_effects(node):
                if ev.kind == 'incdec':
                    c = cursor_of(ev.lhs)
                    if c in disp2 and disp2[c] is not None:
                        disp2[c] += ev.delta
                elif ev.kind == 'store':
                    c = cursor_of(ev.lhs)
                    if c is not None:
                        if ev.node['op'] in ('+=', '-=') and const_val(ev.node['r']) is not None and c in disp2:
                            if disp2[c] is not None:
                                disp2[c] += const_val(ev.node['r']) * (1 if ev.node['op'] == '+=' else -1)
                        elif ev.node['op'] == '=':
                            r = strip_casts(ev.node['r'])
                            k = 0
                            if r.get('k') == 'bin' and r['op'] == '+' and const_val(r['r']) is not None:
                                k = const_val(r['r'])
                                r = strip_casts(r['l'])
                            src = cursor_of(r)
                            if src in disp2 and disp2[src] is not None:
                                disp2[c] = disp2[src] + k
                            else:
                                disp2[c] = None
                elif ev.kind == 'declinit' and ev.rhs is not None:
                    d = ev.lhs
                    if u.ty(d['ty'])['c'] == 'ptr' and 'char' in u.ty(d['ty'])['s']:
                        r = strip_casts(ev.rhs)
                        k = 0
                        if r.get('k') == 'bin' and r['op'] == '+' and const_val(r['r']) is not None:
                            k = const_val(r['r'])
                            r = strip_casts(r['l'])
                        src = cursor_of(r)
                        if src in disp2 and disp2[src] is not None:
                            disp2[d['n']] = disp2[src] + k
            variants = [(disp2, B, inloop, nulls)]
            lib = _library_scan(node, cursor_of, disp)
            if lib is not None:
                kind, target, argc, argk, lit = lib
                start = (disp.get(argc) + argk) if disp.get(argc) is not None else None
                if not inloop and not (kind == 'span' and not lit):
                    # (cursor += strlen(cursor) lands on the terminator wherever it starts: it is no scan for the closer)
                    results['opener'].add((('*pp', start),))
                if kind == 'span':
                    # cursor += strcspn(cursor, lit) / strlen(cursor): lands on the terminator or on the first byte of lit
                    nd_ = {c: None for c in disp}
                    nd_[target] = 0
                    variants = [(nd_, {0: frozenset([0]) | frozenset(lit)}, True, nulls)]
                else:
                    # target = strstr(cursor, lit) / strchr(cursor, c): either NULL, or a position where lit stands
                    found = {c: None for c in disp}
                    found[target] = 0
                    nf = dict(disp2)
                    nf[target] = None
                    n1 = dict(nulls)
                    n1[target] = False
                    n2 = dict(nulls)
                    n2[target] = True
                    variants = [(found, {i: frozenset([ch]) for i, ch in enumerate(lit)}, True, n1),
                                (nf, dict(B), inloop, n2)]
            for (disp2, B, inloop2, nulls2) in variants:
              for (y, label) in cfg.succ[nid]:
                B2 = dict(B)
                if label is not None and label[0] in ('T', 'F') and node.kind == 'branch':
                    nt = _null_test(label[1], cursor_of)
                    if nt is not None and nt[0] in nulls2:
                        isnull = nulls2[nt[0]]
                        if (isnull == nt[1]) != (label[0] == 'T'):
                            continue
                if label is not None and label[0] in ('T', 'F') and node.kind == 'branch':
                    axes = set()
                    for x in walk(label[1]):
                        if x.get('k') in ('idx', 'un'):
                            a = axis_of(x)
                            if a is not None:
                                axes.add(a)
                    if len(axes) == 1:
                        a = axes.pop()
                        cur = B2.get(a, ALL)
                        keep = set()
                        for v in cur:
                            val = _evalb(label[1], v, {}, u, lambda base: True)
                            if val is None:
                                keep = set(cur)
                                break
                            if bool(val) == (label[0] == 'T'):
                                keep.add(v)
                        if not keep:
                            continue
                        B2[a] = frozenset(keep)
                    elif len(axes) > 1:
                        raise AnalysisBroken('TAB19: %s: condition mixes several bytes' % fn.where(label[1]))
                work.append((y, tuple(sorted(disp2.items(), key=repr)), tuple(sorted(B2.items())), inloop2, tuple(sorted(nulls2.items()))))
        # opener
        n_ob += 1
        op_disps = {max([v for v in dict(t).values() if v is not None] or [0]) for t in results['opener']}
        ok_op = op_disps == {len(opener)}
        why_op = 'cursor displacement at the loop head: %s' % sorted(op_disps)
        if not ok_op and op_disps and all(isinstance(d_, int) for d_ in op_disps):
            # the callers may already have stepped into the opener: what counts is that no byte of the opener that is still ahead
            # when the scan begins can be taken for the beginning of the closer
            entry = _entry_index_in_opener(u, fn, pp[0], opener, by_value)
            worst = None
            for d_ in op_disps:
                consumed = entry + d_
                if consumed > len(opener):
                    worst = 'the scan begins %d byte(s) behind the opener' % (consumed - len(opener))
                elif consumed < len(opener) and (set(opener[consumed:].encode('latin1')) & set(closer.encode('latin1'))):
                    worst = 'the scan begins on %r of the opener, which it can take for the beginning of the closer %r' % (opener[consumed:], closer)
            ok_op = worst is None
            why_op = ('entered %d byte(s) into the opener by every caller, %s more stepped over: nothing of the opener that is left can '
                      'begin the closer' % (entry, sorted(op_disps))) if ok_op else worst
        R.ob('TAB19', fn, None, '%s steps over its opener %r before scanning' % (name, opener), ok_op, why_op, key='opener:' + name)
        # exits of the scanning loop
        found = False
        for (disp, B, node) in results['exits']:
            dmax = disp.get('*ret') if by_value else disp.get('*pp')       # how far the caller's cursor ends up from where this iteration started
            constrained = {a: v for a, v in B.items() if v != ALL}
            if any(a < 0 for a in constrained):
                # a look behind the cursor that is fenced by a comparison of positions (cursor > start of the comment text) can be
                # sound; comparisons of positions are not evaluated by this rule
                ptr_cmp = [x_ for x_ in fn.nodes() if x_.get('k') == 'bin' and x_.get('op') in ('<', '<=', '>', '>=') and
                           u.ty(strip_casts(x_['l']).get('ty0', strip_casts(x_['l']).get('ty')))['c'] == 'ptr' and
                           u.ty(strip_casts(x_['r']).get('ty0', strip_casts(x_['r']).get('ty')))['c'] == 'ptr']
                if ptr_cmp:
                    raise AnalysisBroken('TAB19: %s: %s looks at a byte behind the cursor under a comparison of positions (%s); which bytes '
                                         'can stand there is not evaluated by this rule' % (fn.where(ptr_cmp[0]), name, expr_str(ptr_cmp[0])[:40]))
                n_ob += 1
                R.ob('TAB19', fn, None, '%s decides only on bytes at or after the cursor' % name, False,
                     'a byte %d position(s) behind the cursor takes part in ending the comment' % -min(constrained), key='behind:' + name)
                continue
            b0 = constrained.get(0)
            if b0 is not None and b0 == frozenset([0]):
                # left at the terminator: the cursor stays on it
                if dmax is not None and dmax != 0:
                    n_ob += 1
                    R.ob('TAB19', fn, None, '%s leaves the cursor on the terminator when the text ends inside the comment' % name, False,
                         'the cursor is moved %d byte(s) past the terminator: the caller goes on reading behind the end of the text' % dmax,
                         key='past-end:' + name)
                continue
            n_ob += 1
            want = {i: frozenset([ord(ch)]) for i, ch in enumerate(closer)}
            got = {a: v for a, v in constrained.items()}
            ok = got == want and dmax == len(closer)
            found = found or ok
            R.ob('TAB19', fn, None, '%s ends only where the bytes at the cursor spell %r, and steps over exactly them' % (name, closer), ok,
                 'bytes %s, stepped over %s' % ({a: ''.join(chr(x) for x in sorted(v)[:4]) for a, v in sorted(got.items())}, dmax),
                 key='closer:' + name)
        if not found:
            R.ob('TAB19', fn, None, '%s recognises its closer %r' % (name, closer), False, 'no exit of the scanning loop matches the closer',
                 key='nocloser:' + name)
    R.floor('TAB19', 'comment delimiter obligations', n_ob, 4)


def _tab19_scalar_shape(u, fn):
    """does the function index a character pointer by an integer local, or keep a byte read through one in a scalar local?"""
    from ..dataflow import access
    charp = lambda t: t['c'] == 'ptr' and 'char' in t['s'] and t['s'].count('*') == 1
    for x in fn.nodes():
        if x.get('k') == 'idx' and charp(u.ty(strip_casts(x['b']).get('ty0', strip_casts(x['b'])['ty']))):
            i0 = strip_casts(x['i'])
            while i0.get('k') == 'bin' and i0['op'] in ('+', '-') and const_val(i0['r']) is not None:
                i0 = strip_casts(i0['l'])
            if i0.get('k') == 'ref' and i0.get('dk') == 'local':
                return True
    for d in fn.locals():
        t = u.ty(d['ty'])
        if t['c'] == 'int' and t.get('bits') == 8:
            return True
    return False


def _tab19_bytepath(u, fn, name, opener, closer, pcur, R):
    from . import bytepath as bp
    ex = bp.explore(u, fn)
    heads = sorted(ex.heads)
    if len(heads) != 1:
        raise AnalysisBroken('TAB19: %s: %d scanning loops' % (name, len(heads)))
    entry = [s for s in ex.segments if s.start == 'entry' and s.end[0] == 'head']
    loops = bp.loop_segments(ex)
    if not entry or not loops:
        raise AnalysisBroken('TAB19: %s: the scanning loop is not reached' % name)

    def positions(s):
        out = set(s.B)
        for (e, _t, st, lp) in s.rel:
            out |= {x for x in ex.deps(e, st, lp) if x is not None}
        return out
    roots = set()
    for s in loops:
        for p_ in positions(s):
            roots.add(p_[0])
    roots = {r for r in roots if isinstance(r, tuple) and r[0] in ('g', 'ix')}
    if len(roots) != 1:
        raise AnalysisBroken('TAB19: %s: the scan reads at %d different places' % (name, len(roots)))
    r = next(iter(roots))
    base = r[1] if r[0] == 'ix' else r
    idx = r[2] if r[0] == 'ix' else None
    names = [c for c in base[1:]]
    n = 0
    # 1. opener
    disps = set()
    for s in entry:
        d = None
        for c in names:
            p_ = s.pos.get(c)
            if p_ is not None and p_[0] == ('p', pcur) and p_[1] is not None:
                d = p_[1]
        if d is not None and idx is not None:
            v = s.vals.get(idx)
            d = d + v[1] if (v is not None and v[0] == 'k') else None
        disps.add(d)
    n += 1
    ok = disps == {len(opener)}
    R.ob('TAB19', fn, None, '%s steps over its opener %r before scanning' % (name, opener), ok,
         'first byte examined lies %s byte(s) after the entry position' % sorted(disps, key=repr), key='opener:' + name)
    # 2. exits
    found = False
    for s in loops:
        if s.end[0] == 'head':
            continue
        cons = {p_[1]: v for p_, v in s.B.items() if p_[0] == r and v != bp.ALL}
        behind = [a for a in cons if a < 0] + [p_[1] for p_ in positions(s) if p_[0] == r and p_[1] < 0]
        if behind:
            n += 1
            R.ob('TAB19', fn, None, '%s decides on the bytes at and after the cursor only' % name, False,
                 'a byte %d position(s) behind the cursor takes part in leaving the loop' % -min(behind), key='behind:' + name)
            continue
        if cons.get(0) == frozenset([0]):
            continue          # left at the terminator
        n += 1
        fin = s.pos.get(pcur)
        adv = fin[1] if (fin is not None and fin[0] == r) else None
        want = {i: frozenset([ord(ch)]) for i, ch in enumerate(closer)}
        okc = cons == want and adv == len(closer)
        found = found or okc
        R.ob('TAB19', fn, None, '%s ends only where the bytes at the cursor spell %r, and steps over exactly them' % (name, closer), okc,
             'bytes %s, stepped over %s' % ({a: ''.join(chr(x) for x in sorted(v)[:4]) for a, v in sorted(cons.items())}, adv),
             key='closer:' + name)
    if not found:
        R.ob('TAB19', fn, None, '%s recognises its closer %r' % (name, closer), False, 'no exit of the scanning loop matches the closer',
             key='nocloser:' + name)
    return n


# ---- TAB20 key order is decided by the comparator functions only ------------------------------------------------

KEY_COMPARATORS = {'compare_strings', 'case_insensitive_strcmp', 'compare_pointers', 'strcmp'}


def _first_byte_difference_like_strcmp(u, fn, diff):
    """diff is `A - B` over bytes of two keys.  It orders the keys as strcmp does when both bytes are index 0, both are converted to
    unsigned char before the subtraction, the subtraction is reached only where the two bytes differ, and (in a function with a
    case flag) only where the comparison is exact."""
    from ..dataflow import access

    def first_byte(e):
        unsigned8 = False
        while e.get('k') == 'cast':
            t = u.ty(e['ty'])
            if t.get('c') == 'int' and t.get('bits') == 8 and t.get('unsigned'):
                unsigned8 = True
            e = e['e']
        acc = access(e) if e.get('k') in ('idx', 'un') else None
        if acc is None or acc[1] != 0:
            return None
        t0 = u.ty(e.get('ty0', e['ty'])) if ('ty' in e or 'ty0' in e) else {}
        if t0.get('c') == 'int' and t0.get('bits') == 8 and t0.get('unsigned'):
            unsigned8 = True
        return (expr_str(strip_casts(acc[0])), unsigned8)
    a, b = first_byte(diff['l']), first_byte(diff['r'])
    if a is None or b is None or not (a[1] and b[1]) or a[0] == b[0]:
        return False
    cfg = fn.cfg()
    nd = cfg.node_of_expr(diff['id'])
    if nd is None:
        return False

    def differ_edge(nn, l):
        if nn.kind != 'branch' or l is None or l[0] not in ('T', 'F') or nn.expr is None:
            return False
        e = strip_casts(nn.expr)
        if e.get('k') != 'bin' or e['op'] not in ('==', '!='):
            return False
        x, y = first_byte(e['l']) or first_byte(strip_casts(e['l'])), first_byte(e['r']) or first_byte(strip_casts(e['r']))
        if x is None or y is None or {x[0], y[0]} != {a[0], b[0]}:
            return False
        return (e['op'] == '!=') == (l[0] == 'T')
    if not guarded_by(cfg, nd.id, differ_edge):
        return False
    fi = _flag_index(fn)
    if fi is not None:
        pd = fn.params[fi]['d']
        if not guarded_by(cfg, nd.id, lambda nn, l: nn.kind == 'branch' and l is not None and l[0] == 'T' and
                          strip_casts(nn.expr).get('k') == 'ref' and strip_casts(nn.expr).get('d') == pd):
            return False
    return True


def tab20(units, R):
    """Member keys are ordered/compared through the comparator functions (or strcmp); no function does arithmetic or
    relational comparison on individual bytes of a node's key, which would disagree with the order the sorter used."""
    n = 0
    for u, fn in all_functions(units):
        if fn.name in KEY_COMPARATORS:
            continue
        par = fn.parents()
        for x in fn.nodes():
            # an element read of X->string
            base = None
            if x.get('k') == 'idx':
                base = strip_casts(x['b'])
            elif x.get('k') == 'un' and x['op'] == '*':
                base = strip_casts(x['e'])
            if base is None or base.get('k') != 'mem' or base['f'] != 'string' or 'cJSON' not in u.ty(strip_casts(base['b'])['ty'])['s']:
                continue
            n += 1
            p = par.get(x['id'])
            while p is not None and p.get('k') == 'cast':
                p = par.get(p['id'])
            bad = p is not None and p.get('k') == 'bin' and p['op'] in ('-', '<', '>', '<=', '>=') and \
                const_val(p['l']) is None and const_val(p['r']) is None
            if bad and p['op'] == '-' and _first_byte_difference_like_strcmp(u, fn, p):
                R.ob('TAB20', fn, x, 'byte of a member key %s is not used to order keys' % expr_str(x)[:40], True,
                     'difference of the first bytes read as unsigned char, taken only where they differ and the comparison is exact: '
                     'the sign strcmp gives', key='keybyte:%s' % expr_str(x)[:40])
                continue
            R.ob('TAB20', fn, x, 'byte of a member key %s is not used to order keys' % expr_str(x)[:40], not bad,
                 'compared with a constant / copied' if not bad else
                 'key bytes combined with %s: the order of keys must come from compare_strings/strcmp, as in the sorter' % p['op'],
                 key='keybyte:%s' % expr_str(x)[:40])
        # the discriminator of a sorted merge: assigned only from constants or comparator calls
    R.note('TAB20: %d element reads of node keys outside the comparators' % n)
    R.ob('TAB20', None, None, 'element reads of member keys outside the comparator functions', True, '%d found' % n, key='census',
         file='cJSON_Utils.c', line=0)
