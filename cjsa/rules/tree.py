"""Rules about the tree API of cJSON.c: TAB3 type dispatch, TAB14 duplicate completeness, C12 structure of
cJSON_Compare, EFF6 purity, LST2 list idioms, LST3 refusal before mutation, LST4 NULL-argument refusal."""
import re

from ..facts import (AnalysisBroken, walk, children, strip_casts, expr_str, is_null_const, const_val, ASSIGN_OPS, CMP_OPS,
                     callee_name, indirect_field)
from ..dataflow import solve, node_effects, access
from .nodestate import NodeStates, source_of
from .common import (all_functions, assignments, is_ref, is_mem, cmp_parts, region_without_edges, guarded_by, field_cache, expand_cached,
                     node_containing, find_function)

KINDS = {'cJSON_False': 1, 'cJSON_True': 2, 'cJSON_NULL': 4, 'cJSON_Number': 8, 'cJSON_String': 16, 'cJSON_Array': 32,
         'cJSON_Object': 64, 'cJSON_Raw': 128}
PURE_LIBC = {'strcmp', 'strncmp', 'strlen', 'tolower', 'toupper', 'fabs', 'memcmp', 'isnan', 'isinf', '__builtin_fabs',
             '__builtin_isnan', '__builtin_isinf_sign', 'localeconv'}


# ---- TAB3 -----------------------------------------------------------------------------------------------

def tab3(units, R, switches=('print_value', 'cJSON_Compare')):
    """The kind of a node is only ever examined through the 0xFF mask (or a single-bit `&` test); the ownership
    flags never take part in an equality test or a switch."""
    n = 0
    for u, fn in all_functions(units):
        par = fn.parents()
        for x in fn.nodes():
            if x.get('k') != 'mem' or x['f'] != 'type':
                continue
            bt = u.ty(strip_casts(x['b'])['ty'])['s']
            import re as _re
            if not _re.search(r'(^|[^A-Za-z0-9_/.])cJSON\b(?!\.)', _re.sub(r'\(unnamed [^)]*\)', '', bt)):
                continue          # ->type of some other record (a rule table), not of a node
            p = par.get(x['id'])
            child = x
            while p is not None and p.get('k') == 'cast':
                child = p
                p = par.get(p['id'])
            if p is None:
                continue
            k = p.get('k')
            ctx = None
            if k == 'bin' and p['op'] in ASSIGN_OPS and p['l'] is child:
                continue   # a store to ->type
            n += 1
            ok = True
            why = ''
            if k == 'bin' and p['op'] == '&':
                why = 'masked: %s' % expr_str(p)[:50]
            elif k == 'bin' and p['op'] == '|':
                why = 'flag added for a store: %s' % expr_str(p)[:50]
            elif k == 'bin' and p['op'] in ASSIGN_OPS:
                why = 'copied into another type field/variable'
            elif k == 'decl' or k is None:
                why = 'copied'
            elif k == 'bin' and p['op'] in ('==', '!=', '<', '>', '<=', '>='):
                ok = False
                why = 'type compared without the 0xFF mask: %s (ownership flags would take part)' % expr_str(p)[:60]
            elif k == 'switch':
                ok = False
                why = 'switch on the unmasked type'
            elif k == 'call':
                why = 'passed on'
            else:
                why = 'used in %s' % k
            R.ob('TAB3', fn, x, 'use of %s' % expr_str(x), ok, why, key='typeuse:%s:%s' % (expr_str(x), 'bad' if not ok else k))
    R.floor('TAB3', 'reads of ->type', n, 28)
    # exhaustiveness of the kind switches
    u = units['cJSON.c']
    for fname, need, label in (('print_value', set(KINDS.values()), 'prints every kind'),
                               ('cJSON_Compare', set(KINDS.values()), 'accepts every kind as valid')):
        if fname not in switches:
            continue
        fn = u.fn(fname)
        sw = [s for s in fn.nodes() if s.get('k') == 'switch']
        best = None
        for s in sw:
            labels = {const_val(c['v']) for c in walk(s['body']) if c.get('k') == 'case'}
            if best is None or len(labels & need) > len(best[1] & need):
                best = (s, labels)
        if best is None:
            raise AnalysisBroken('TAB3: no switch in %s' % fname)
        s, labels = best
        cond = strip_casts(s['c'])
        def is_masked(c_):
            c_ = strip_casts(c_)
            return c_.get('k') == 'bin' and c_['op'] == '&' and (const_val(c_['r']) == 0xFF or const_val(c_['l']) == 0xFF) and \
                any(x_.get('k') == 'mem' and x_.get('f') == 'type' for x_ in walk(c_))
        masked = is_masked(cond)
        if not masked and cond.get('k') == 'ref' and cond.get('dk') == 'local':
            # int type = a->type & 0xFF; switch (type): a local that only ever holds a masked type word
            ldefs = [a_['r'] if a_['op'] == '=' else None for a_ in assignments(fn) if is_ref(a_['l']) and strip_casts(a_['l'])['d'] == cond['d']]
            ldefs += [d_['init'] for d_ in fn.locals() if d_['d'] == cond['d'] and 'init' in d_]
            real = [x_ for x_ in ldefs if x_ is None or const_val(x_) is None]
            masked = bool(real) and all(x_ is not None and is_masked(x_) for x_ in real)
        km = _kind_helper_map(u, fn, cond) if not masked else None
        if km is not None:
            # the switch runs over a kind that a static helper computes from the type word; the helper was evaluated from its body
            kmap, v0 = km
            covered = all(kmap.get(t) is not None and kmap[t] in labels for t in need)
            R.ob('TAB3', fn, s, '%s: switch %s on the masked kind' % (fname, label), covered,
                 'kinds %s of the eight type constants (flags ignored by the helper) all have an arm' % sorted(set(kmap.values()))
                 if covered else 'helper results %s, arms %s' % (kmap, sorted(labels)), key='switch:' + fname)
            refused = False
            fcfg = fn.cfg()
            for b in fcfg.nodes:
                if b.kind != 'branch':
                    continue
                p_ = cmp_parts(b.expr)
                if p_ is not None and strip_casts(p_[0]).get('d') == cond.get('d') and p_[1] in ('==', '!=') and p_[2] == v0:
                    for (y, lab) in fcfg.succ[b.id]:
                        if lab is not None and ((lab[0] == 'T') == (p_[1] == '==')):
                            rets = [r for r in fcfg.returns() if r.id in (fcfg.reachable(y) | {y})]
                            if rets and all(r.expr is not None and const_val(r.expr) == 0 for r in rets):
                                refused = True
            for cs in walk(s['body']):
                if cs.get('k') in ('case', 'default') and (cs.get('k') == 'default' or const_val(cs['v']) == v0):
                    if any(r.get('k') == 'return' and 'e' in r and const_val(r['e']) == 0 for r in walk(cs)):
                        refused = refused or cs.get('k') == 'default' or v0 not in {kmap[t] for t in need}
            R.ob('TAB3', fn, s, '%s: unknown kinds are refused by the default arm' % fname, refused,
                 'the helper gives %s for anything else, which is refused' % v0, key='switchdefault:' + fname)
            continue
        if not masked:
            # what the switch runs over: the type word itself (unmasked: a violation), or something else that this rule cannot
            # relate to the type word (a rule looked up in a table by a loop): not judged
            srcs = [cond]
            if cond.get('k') == 'ref' and cond.get('dk') == 'local':
                srcs = [a_['r'] for a_ in assignments(fn) if is_ref(a_['l']) and strip_casts(a_['l'])['d'] == cond['d']]
                srcs += [d_['init'] for d_ in fn.locals() if d_['d'] == cond['d'] and 'init' in d_]
            if not any(x_.get('k') == 'mem' and x_.get('f') == 'type' and 'cJSON' in u.ty(strip_casts(x_['b'])['ty'])['s']
                       for s_ in srcs for x_ in walk(s_)):
                raise AnalysisBroken('TAB3: %s: the switch of %s runs over %s, which is neither the masked type word nor the result of a '
                                     'helper applied to it' % (fn.where(s), fname, expr_str(cond)[:40]))
        if masked and not (need <= labels):
            # kinds without an arm may have been dealt with in front of the switch by a helper that is handed the masked type word
            # (a table of the comparable types): what that helper answers is not evaluated here
            pre = [c_ for c_ in fn.calls() if callee_name(c_) in u.functions and u.functions[callee_name(c_)].static and
                   any(is_masked(a_) for a_ in c_['args'])]
            if pre:
                raise AnalysisBroken('TAB3: %s: the switch of %s has no arm for kinds %s; %s is handed the masked type word in front of it, '
                                     'what it decides is not evaluated by this rule' % (fn.where(s), fname, sorted(need - labels), callee_name(pre[0])))
        R.ob('TAB3', fn, s, '%s: switch %s on the masked kind' % (fname, label), masked and need <= labels,
             'cases %s, mask %s' % (sorted(labels), masked), key='switch:' + fname)
        dflt = [d for d in walk(s['body']) if d.get('k') == 'default']
        dret = False
        for d in dflt:
            for r in walk(d):
                if r.get('k') == 'return' and 'e' in r and const_val(r['e']) == 0:
                    dret = True
        R.ob('TAB3', fn, s, '%s: unknown kinds are refused by the default arm' % fname, dret, '', key='switchdefault:' + fname)


def _kind_helper_map(u, fn, cond):
    """({type constant: value}, value for an invalid type) when cond is a local assigned once from h(X->type) for a static one-argument
    helper h whose value does not depend on the flag bits; h is evaluated from its body"""
    if cond.get('k') != 'ref' or cond.get('dk') != 'local':
        return None
    defs = [a['r'] for a in assignments(fn) if is_ref(a['l']) and strip_casts(a['l'])['d'] == cond['d']]
    defs += [d['init'] for d in fn.locals() if d['d'] == cond['d'] and 'init' in d and strip_casts(d['init']).get('k') == 'call']
    calls = [strip_casts(x) for x in defs if strip_casts(x).get('k') == 'call']
    if len(calls) != 1 or callee_name(calls[0]) not in u.functions or not u.functions[callee_name(calls[0])].static:
        return None
    h = u.functions[callee_name(calls[0])]
    if len(h.params) != 1 or not calls[0]['args'] or not any(x.get('k') == 'mem' and x.get('f') == 'type' for x in walk(calls[0]['args'][0])):
        return None
    from .shape import Interp, Heap, ShapeViolation
    # the argument: X->type, or X->type & <constant mask>
    arg = strip_casts(calls[0]['args'][0])
    mask = -1
    if arg.get('k') == 'bin' and arg['op'] == '&':
        for (x, y) in ((arg['l'], arg['r']), (arg['r'], arg['l'])):
            if strip_casts(x).get('k') == 'mem' and strip_casts(x)['f'] == 'type' and const_val(y) is not None:
                mask = const_val(y)
        if mask == -1:
            return None
    elif not (arg.get('k') == 'mem' and arg['f'] == 'type'):
        return None

    def hv(t):
        return Interp({'unit': u}, Heap()).run(u, h, [t & mask])
    out = {}
    try:
        for t in (1, 2, 4, 8, 16, 32, 64, 128):
            kv = hv(t)
            if not isinstance(kv, int) or any(hv(t | fl) != kv for fl in (256, 512, 768)):
                return None
            out[t] = kv
        v0 = hv(0)
        if any(hv(bad) != v0 for bad in (3, 0x60, 0xFF)) or (mask == -1 and hv(256) != v0):
            return None
    except (AnalysisBroken, ShapeViolation):
        return None
    return out, v0


# ---- TAB14 ---------------------------------------------------------------------------------------------------

def _fresh_sources(u, known=()):
    """Functions whose result is a fresh allocation (closure of 'returns the result of an allocator')."""
    fresh = set(known)
    changed = True
    while changed:
        changed = False
        for fn in u.function_list:
            if fn.name in fresh:
                continue
            rets = [r for r in fn.nodes() if r.get('k') == 'return' and 'e' in r and not is_null_const(r['e'])]
            if not rets:
                continue
            ok = True
            for r in rets:
                e = strip_casts(r['e'])
                if e.get('k') == 'call':
                    cn = callee_name(e)
                    if cn in fresh or (cn is None and indirect_field(e) in ('allocate', 'reallocate')):
                        continue
                    ok = False
                elif e.get('k') == 'ref' and e.get('dk') == 'param':
                    ok = False      # a parameter carries the caller's value on some paths
                elif e.get('k') == 'ref':
                    # a node that was handed to a container on the way (cJSON_AddNullToObject: created, added to the object, and
                    # returned for convenience) belongs to the container, not to the caller
                    from .own import CONSUME_ON_SUCCESS
                    if any(callee_name(c_) in CONSUME_ON_SUCCESS and CONSUME_ON_SUCCESS[callee_name(c_)]['takes'] < len(c_['args']) and
                           strip_casts(c_['args'][CONSUME_ON_SUCCESS[callee_name(c_)]['takes']]).get('d') == e['d'] for c_ in fn.calls()):
                        ok = False
                    # local that is only assigned from fresh sources
                    defs = [a['r'] for a in assignments(fn) if is_ref(a['l']) and strip_casts(a['l'])['d'] == e['d']]
                    defs += [d['init'] for d in fn.locals() if d['d'] == e['d'] and 'init' in d]
                    defs = [d for d in defs if not is_null_const(d)]
                    if not defs:
                        ok = False
                    for d in defs:
                        d0 = strip_casts(d)
                        if not (d0.get('k') == 'call' and (callee_name(d0) in fresh or callee_name(d0) == fn.name or
                                                           (callee_name(d0) is None and indirect_field(d0) in ('allocate', 'reallocate')))):
                            ok = False
                else:
                    ok = False
            if ok:
                fresh.add(fn.name)
                changed = True
    return fresh


def tab14(units, R, fn_name='cJSON_Duplicate_rec'):
    u = units['cJSON.c']
    fn = u.fn(fn_name)
    rec = u.record('cJSON')
    fields = [(f['n'], u.ty(f['ty'])) for f in rec['fields']]
    fresh = _fresh_sources(u) | {'cJSON_Duplicate_rec', fn_name}
    src = fn.params[0]
    # the copy: the local that is returned
    rets = [strip_casts(r['e']) for r in fn.nodes() if r.get('k') == 'return' and 'e' in r and not is_null_const(r['e'])]
    copies = {r['d'] for r in rets if r.get('k') == 'ref'}
    if len(copies) != 1:
        raise AnalysisBroken('TAB14: cannot identify the copy in cJSON_Duplicate_rec')
    copy = copies.pop()
    # contexts: the duplicator itself, and a static helper that builds the node when the copy is what it returns
    # (newitem = duplicate_node(item, hooks)): (function, its copy variable, its source parameter)
    contexts = [(fn, copy, src['d'])]
    inits = [(a['l'], a['r']) for a in assignments(fn) if a['op'] == '=']
    inits += [({'k': 'ref', 'd': d['d']}, d['init']) for d in fn.locals() if 'init' in d]
    for (l, r0) in inits:
        l = strip_casts(l)
        r = strip_casts(r0)
        if l.get('k') == 'ref' and l.get('d') == copy and r.get('k') == 'call' and callee_name(r) in u.functions:
            h = u.functions[callee_name(r)]
            if not h.static or h.name == fn.name or h.body is None:
                continue
            hsrc = [p for p, a0 in zip(h.params, r['args']) if strip_casts(a0).get('k') == 'ref' and strip_casts(a0).get('d') == src['d']]
            hrets = {strip_casts(x['e'])['d'] for x in h.nodes() if x.get('k') == 'return' and 'e' in x and not is_null_const(x['e'])
                     and strip_casts(x['e']).get('k') == 'ref'}
            if len(hsrc) == 1 and len(hrets) == 1 and any(
                    strip_casts(a['l']).get('k') == 'mem' and strip_casts(strip_casts(a['l'])['b']).get('d') in hrets for a in assignments(h)):
                contexts.append((h, next(iter(hrets)), hsrc[0]['d']))
    srcs = {c[2] for c in contexts}
    ctx_of = {}
    stores = {}
    for (F, cpy, _s) in contexts:
        for a in assignments(F):
            l = strip_casts(a['l'])
            if l.get('k') == 'mem' and is_ref(l['b']) and strip_casts(l['b'])['d'] == cpy:
                stores.setdefault(l['f'], []).append(a)
                ctx_of[a['id']] = F

    def derives_from_source(e):
        for x in walk(e):
            if x.get('k') == 'ref' and x.get('d') in srcs:
                return True
        return False
    # locals that only ever hold fresh allocations (or NULL, or the value of another such local): greatest fixpoint
    defs = {}
    params_all = set()
    for (F, _c, _s) in contexts:
        params_all |= {p['d'] for p in F.params}
        for a in assignments(F):
            if is_ref(a['l']):
                defs.setdefault(strip_casts(a['l'])['d'], []).append(a['r'] if a['op'] == '=' else None)
        for dcl in F.locals():
            if 'init' in dcl:
                defs.setdefault(dcl['d'], []).append(dcl['init'])
    locals_fresh = {d: True for d in defs if d not in params_all}
    changed = True
    while changed:
        changed = False
        for d, rs in defs.items():
            if not locals_fresh.get(d):
                continue
            for r0 in rs:
                r = strip_casts(r0) if r0 is not None else {}
                good = r0 is not None and ((r.get('k') == 'call' and callee_name(r) in fresh) or is_null_const(r0) or r.get('null') or
                                           (r.get('k') == 'ref' and locals_fresh.get(r.get('d'))))
                if not good:
                    locals_fresh[d] = False
                    changed = True
                    break
    # ---- which definition of each field is in effect where the copy leaves the function or is released -----------------
    ns = NodeStates(u)
    ncfg, nbefore, _nafter = ns.run(fn, copy, {}, 0)
    SRC = {src['d']}
    exits = []          # (cfg node, 'return' | 'release')
    for rr in ncfg.returns():
        if rr.expr is not None and strip_casts(rr.expr).get('k') == 'ref' and strip_casts(rr.expr)['d'] == copy and rr.id in nbefore:
            exits.append((rr, 'return'))
    for c in fn.calls():
        if callee_name(c) == 'cJSON_Delete' and c['args'] and is_ref(c['args'][0]) and strip_casts(c['args'][0])['d'] == copy:
            m = node_containing(ncfg, c)
            if m.id in nbefore:
                exits.append((m, 'release'))
    if not any(k == 'return' for (_m, k) in exits):
        raise AnalysisBroken('TAB14: no return of the copy found in %s' % fn.name)
    _fl = {}

    def fresh_locals(F):
        """locals of F that only ever hold fresh allocations (or NULL, or another such local): greatest fixpoint"""
        if F.name in _fl:
            return _fl[F.name]
        dd = {}
        pars = {p['d'] for p in F.params}
        for a in assignments(F):
            if is_ref(a['l']):
                dd.setdefault(strip_casts(a['l'])['d'], []).append(a['r'] if a['op'] == '=' else None)
        for dcl in F.locals():
            if 'init' in dcl:
                dd.setdefault(dcl['d'], []).append(dcl['init'])
        lf = {d: True for d in dd if d not in pars}
        ch = True
        while ch:
            ch = False
            for d, rs in dd.items():
                if not lf.get(d):
                    continue
                for r0 in rs:
                    r = strip_casts(r0) if r0 is not None else {}
                    good = r0 is not None and ((r.get('k') == 'call' and callee_name(r) in fresh) or is_null_const(r0) or r.get('null') or
                                               (r.get('k') == 'ref' and lf.get(r.get('d'))))
                    if not good:
                        lf[d] = False
                        ch = True
                        break
        _fl[F.name] = lf
        return lf

    def is_source(d, e):
        e = strip_casts(e)
        if e.get('k') != 'ref':
            return False
        if e.get('d') in SRC:
            return True
        b = d.bind.get(e.get('d'))
        return b is not None and strip_casts(b).get('k') == 'ref' and strip_casts(b).get('d') in SRC

    def from_source(d, e):
        return source_of(d, e, SRC)

    def judge_ptr(d, name):
        """(ok, why, is_fresh) for definition d of pointer field `name`"""
        if d.kind == 'zero':
            return True, 'NULL', False
        if d.kind == 'whole':
            return False, 'the %s shares the pointer with the source' % d.describe(), False
        if d.kind == 'uninit':
            return False, 'never stored', False
        if d.kind == 'callee':
            h = u.functions.get(d.why)
            call = d.stmt
            lf = fresh_locals(d.fn)
            okc = h is not None
            for hs in (assignments(h) if h is not None else []):
                l = strip_casts(hs['l'])
                if not (l.get('k') == 'mem' and l['f'] == name and is_ref(l['b']) and strip_casts(l['b']).get('dk') == 'param'):
                    continue
                r = strip_casts(hs['r'])
                if is_null_const(hs['r']) or (r.get('k') == 'call' and callee_name(r) in fresh):
                    continue
                if r.get('k') == 'ref' and r.get('dk') == 'local' and fresh_locals(h).get(r['d']):
                    continue        # a local of the helper that only ever holds fresh allocations
                if r.get('k') == 'ref' and r.get('dk') == 'param':
                    idx = [k for k, p in enumerate(h.params) if p['d'] == r['d']]
                    a = strip_casts(call['args'][idx[0]]) if idx and idx[0] < len(call['args']) else {}
                    if (a.get('k') == 'ref' and lf.get(a.get('d'))) or (a.get('k') == 'call' and callee_name(a) in fresh):
                        continue
                okc = False
            return okc, ('helper %s stores only fresh nodes' % d.why) if okc else ('helper %s stores a pointer that is not a fresh copy' % d.why), okc
        if d.kind != 'store':
            return False, d.describe(), False
        r = strip_casts(d.r)
        lf = fresh_locals(d.fn)
        if r.get('k') == 'call' and callee_name(r) in fresh:
            return True, 'fresh allocation from %s' % callee_name(r), True
        if r.get('k') == 'ref' and lf.get(r['d']):
            return True, 'local %s holds only fresh allocations' % r['n'], True
        if r.get('k') == 'cond':
            # constant key may stay shared: (item->type & cJSON_StringIsConst) ? item->string : strdup
            c = r['c']
            t_arm, e_arm = strip_casts(r['t']), strip_casts(r['e'])
            constflag = any('cJSON_StringIsConst' in (x.get('m') or []) for x in walk(c))
            arms_ok = True
            shared = 0
            for arm in (t_arm, e_arm):
                if arm.get('k') == 'call' and callee_name(arm) in fresh:
                    continue
                if from_source(d, arm) and name == 'string' and constflag:
                    shared += 1
                    continue
                arms_ok = False
            # the shared arm must be the one taken when the flag is set
            if arms_ok and shared == 1:
                flag_arm = t_arm
                cc = strip_casts(c)
                if cc.get('k') == 'un' and cc['op'] == '!':
                    flag_arm = e_arm
                arms_ok = from_source(d, flag_arm) and flag_arm.get('k') != 'call'
            ok = arms_ok and shared <= 1
            return ok, ('shared only under cJSON_StringIsConst, otherwise a fresh copy' if ok else
                        'pointer taken from the source without a copy'), ok
        if r.get('k') == 'call' and callee_name(r) in u.functions and u.functions[callee_name(r)].static and name == 'string':
            # a helper that hands back the source's key only under its constant-key bit and a fresh copy otherwise
            h = u.functions[callee_name(r)]
            bound = [p for p, a0 in zip(h.params, r['args']) if from_source(d, a0) and strip_casts(a0).get('k') == 'ref']
            hcfg = h.cfg()
            ok = bool(bound)
            why = 'helper %s: shared only under cJSON_StringIsConst, otherwise a fresh copy' % h.name
            for rr in hcfg.returns():
                if rr.expr is None:
                    ok = False
                    break
                x = strip_casts(rr.expr)
                if is_null_const(rr.expr) or (x.get('k') == 'call' and callee_name(x) in fresh):
                    continue
                P = bound[0] if bound else None
                shared = P is not None and x.get('k') == 'mem' and x['f'] == 'string' and is_ref(x['b']) and \
                    strip_casts(x['b'])['d'] == P['d']

                def const_edge(nn, l, P=P):
                    if nn.kind != 'branch' or l is None or l[0] != 'T' or P is None:
                        return False
                    e = strip_casts(nn.expr)
                    pc = cmp_parts(e)
                    if pc is not None and pc[2] == 0 and pc[1] == '!=':
                        e = strip_casts(pc[0])
                    return e.get('k') == 'bin' and e['op'] == '&' and any('cJSON_StringIsConst' in (y.get('m') or []) for y in walk(e)) and \
                        any(y.get('k') == 'mem' and y['f'] == 'type' and is_ref(y['b']) and strip_casts(y['b'])['d'] == P['d'] for y in walk(e))
                if shared and guarded_by(hcfg, rr.id, const_edge):
                    continue
                ok = False
                why = 'helper %s returns %s without a fresh copy and not under cJSON_StringIsConst' % (h.name, expr_str(x)[:40])
                break
            return ok, why, ok
        if name == 'string' and r.get('k') == 'mem' and r['f'] == 'string' and from_source(d, r) and d.stmt is not None:
            # if (item->type & cJSON_StringIsConst) { copy->string = item->string; } else { copy->string = strdup(..); }
            dcfg = d.fn.cfg()
            sn = dcfg.node_of_expr(d.stmt['id'])
            srcb = strip_casts(r['b'])

            def set_edge(nn, l):
                if nn.kind != 'branch' or l is None or l[0] not in ('T', 'F') or nn.expr is None:
                    return False
                e = strip_casts(nn.expr)
                want = 'T'
                while e.get('k') == 'un' and e['op'] == '!':
                    want = 'F' if want == 'T' else 'T'
                    e = strip_casts(e['e'])
                pc = cmp_parts(e)
                if pc is not None and pc[2] == 0 and pc[1] in ('==', '!='):
                    if pc[1] == '==':
                        want = 'F' if want == 'T' else 'T'
                    e = strip_casts(pc[0])
                if not (e.get('k') == 'bin' and e['op'] == '&' and any('cJSON_StringIsConst' in (y.get('m') or []) for y in walk(e))):
                    return False
                if not any(y.get('k') == 'mem' and y['f'] == 'type' and expr_str(strip_casts(y['b'])) == expr_str(srcb) for y in walk(e)):
                    return False
                return l[0] == want
            if sn is not None and guarded_by(dcfg, sn.id, set_edge):
                return True, 'shared only under cJSON_StringIsConst of the source', True
        return False, 'pointer field assigned %s (shares memory with the source)' % expr_str(r)[:50], False

    FULL = 0xFFFFFFFF
    _tc = {}

    def type_mask(d):
        """bits of the source's type that survive in definition d of copy->type; None = not the source's type; 'unset'"""
        if d.kind in ('zero', 'uninit'):
            return ('unset',)
        if d.kind == 'whole':
            return FULL if is_source(d, d.src) else None
        if d.kind == 'store':
            if d.fn.name not in _tc:
                _tc[d.fn.name] = field_cache(u, d.fn, 'type')

            def mask_of(e):
                e = strip_casts(expand_cached(e, _tc[d.fn.name]))
                if e.get('k') == 'mem' and e['f'] == 'type' and is_source(d, e['b']):
                    return FULL
                if e.get('k') == 'bin' and e['op'] == '&':
                    for (x, y) in ((e['l'], e['r']), (e['r'], e['l'])):
                        m = const_val(y)
                        mx = mask_of(x)
                        if m is not None and mx is not None:
                            return mx & (m & FULL)
                return None
            return mask_of(d.r)
        if d.kind == 'upd':
            ms = [type_mask(p) for p in d.prev]
            if not ms or any(m is None or m == ('unset',) for m in ms):
                return None
            m = 0
            for x in ms:
                m |= x          # the weakest of the bases: a bit survives if it survives in any of them
            for o in d.ops.values():
                c = const_val(o.r)
                if o.op == '&=' and c is not None:
                    m &= (c & FULL)
                else:
                    return None
            return m
        return None

    seen_obs = set()
    copied = {name: False for (name, _t) in fields}
    for (m, kind) in exits:
        state = nbefore[m.id]
        for (name, t) in fields:
            for d in sorted(state[name], key=lambda d: repr(d.key())):
                if d.kind == 'nocopy':
                    continue
                ident = (name, d.key(), kind if name == 'type' else None)
                site = d.stmt if d.stmt is not None and d.fn is not None else None
                F_ = d.fn or fn
                if d.kind in ('zero', 'uninit') and d.fn is not fn:
                    site, F_ = None, fn         # nothing stored since the constructor: the duplicator is the construct to name
                where = 'returned (line %d)' % m.line if kind == 'return' else 'released (cJSON_Delete at line %d)' % m.line
                if name in ('next', 'prev'):
                    if kind != 'return' or ident in seen_obs:
                        continue
                    seen_obs.add(ident)
                    ok = d.kind == 'zero'
                    R.ob('TAB14', F_, site, 'returned copy has no sibling links (%s is NULL)' % name, ok, d.describe(), key='field:' + name)
                elif name == 'type':
                    if kind != 'return':
                        continue
                    mk = type_mask(d)
                    bad = mk is None or mk == ('unset',) or (mk & 256) or (mk & 0x2FF) != 0x2FF
                    ident = (name, d.key(), m.id)
                    if ident in seen_obs:
                        continue
                    seen_obs.add(ident)
                    R.ob('TAB14', fn, m.stmt, 'the copy is returned with the source\'s type, cJSON_IsReference cleared and every other bit kept',
                         not bad, 'bits kept: %s (%s)' % (hex(mk), d.describe()) if not bad else
                         ('on some path the reference bit survives (bits kept: %s; %s)' % (hex(mk), d.describe()) if isinstance(mk, int) and (mk & 256) else
                          'on some path the type is %s (%s)' % ('never stored' if mk == ('unset',) else 'not the source\'s type with bits removed'
                                                               if mk is None else 'stripped of more than the reference bit (%s)' % hex(mk),
                                                               d.describe())),
                         key='type:%d' % (0 if not bad else 1))
                elif t['c'] == 'ptr':
                    ok, why, is_fresh = judge_ptr(d, name)
                    if is_fresh and kind == 'return':
                        copied[name] = True
                    if ident in seen_obs:
                        continue
                    seen_obs.add(ident)
                    R.ob('TAB14', F_, site, 'pointer field %s of the copy is independent of the source where the copy is %s' % (
                        name, 'returned or released'), ok, why if ok else '%s; in effect where the copy is %s' % (why, where),
                         key='ptr:%s:%s' % (name, 'ok' if ok else d.describe()[:40]))
                else:
                    if kind != 'return' or ident in seen_obs:
                        continue
                    seen_obs.add(ident)
                    if d.kind == 'whole':
                        ok = is_source(d, d.src)
                    elif d.kind == 'store':
                        r = strip_casts(d.r)
                        ok = r.get('k') == 'mem' and r['f'] == name and is_source(d, r['b'])
                    else:
                        ok = False
                    if ok:
                        copied[name] = True
                    R.ob('TAB14', F_, site, 'scalar field %s copied from the same field of the source' % name, ok,
                         d.describe() if d.kind not in ('zero', 'uninit') else 'no store to copy->%s (%s)' % (name, d.describe()),
                         key='scalar:' + name)
    for (name, t) in fields:
        if name in ('next', 'prev', 'type'):
            continue
        if t['c'] == 'ptr':
            R.ob('TAB14', fn, None, 'field %s is copied' % name, copied[name],
                 'a fresh copy is stored on some path to a return' if copied[name] else 'no fresh copy of %s reaches a return' % name,
                 key='field:' + name)
    # non-recursive mode returns before touching child
    cfg = fn.cfg()
    recp = fn.param('recurse')
    if recp is None:
        raise AnalysisBroken('TAB14: parameter recurse not found')
    child_reads = [x for x in fn.nodes() if x.get('k') == 'mem' and x['f'] == 'child' and derives_from_source(x)]
    for x in child_reads:
        node = node_containing(cfg, x)
        ok = guarded_by(cfg, node.id, lambda nn, l: nn.kind == 'branch' and l is not None and is_ref(nn.expr) and
                        strip_casts(nn.expr)['d'] == recp['d'] and l[0] == 'T')
        R.ob('TAB14', fn, x, 'children are visited only when recurse is set', ok, '', key='recurse-guard')
    # the copy may hold a borrowed (constant) key only while its type already says so: whoever releases the half-built copy
    # on a failure path looks at copy->type to decide whether the key is its to free
    tc_all = {}
    for (F_, _c, _s) in contexts:
        tc_all.update(field_cache(u, F_, 'type'))

    def keeps_const_bit(r):
        r = strip_casts(expand_cached(r, tc_all))
        if r.get('k') == 'mem' and r['f'] == 'type' and derives_from_source(r):
            return True
        if r.get('k') == 'bin' and r['op'] == '&':
            for (x, y) in ((r['l'], r['r']), (r['r'], r['l'])):
                m = const_val(y)
                if m is not None and (m & 512) and keeps_const_bit(x):
                    return True
        if r.get('k') == 'bin' and r['op'] == '|':
            return keeps_const_bit(r['l']) or keeps_const_bit(r['r'])
        return False
    for (F, cpy, _sd) in contexts:
        fcfg = F.cfg()
        key_stores = []
        for a in stores.get('string', []):
            if ctx_of.get(a['id']) is not F:
                continue
            r = strip_casts(a['r'])
            definitely_fresh = (r.get('k') == 'call' and callee_name(r) in fresh) or is_null_const(a['r']) or \
                (r.get('k') == 'ref' and locals_fresh.get(r['d']))
            if not definitely_fresh:
                key_stores.append(a)
        type_stores = [a for a in stores.get('type', []) if ctx_of.get(a['id']) is F and a['op'] == '=' and keeps_const_bit(a['r'])]
        releases = []
        for c in F.calls():
            if callee_name(c) == 'cJSON_Delete' and c['args'] and is_ref(c['args'][0]) and strip_casts(c['args'][0])['d'] == cpy:
                releases.append(c)
        if not (key_stores and releases):
            continue
        T = {node_containing(fcfg, a).id for a in type_stores}
        # a whole-node copy carries the type along with the key
        for c in F.calls():
            if callee_name(c) in ('memcpy', 'memmove') and len(c['args']) == 3 and is_ref(c['args'][0]) and \
                    strip_casts(c['args'][0])['d'] == cpy and ns._is_whole_size(c['args'][2]):
                T.add(node_containing(fcfg, c).id)
        # a copy that comes out of the node-building helper already carries its type
        if F is fn and len(contexts) > 1:
            for m in fcfg.nodes:
                root = m.expr if m.expr is not None else (m.decl.get('init') if m.kind == 'decl' and m.decl and 'init' in m.decl else None)
                if root is not None and any(x.get('k') == 'call' and callee_name(x) in {c[0].name for c in contexts[1:]} for x in walk(root)):
                    T.add(m.id)
        before = fcfg.reachable(fcfg.entry.id, stop=T) | {fcfg.entry.id}
        for a in key_stores:
            S = node_containing(fcfg, a).id
            ok = True
            why = 'the type (with its constant-key bit) is stored on every path before the copy can be released'
            if S in before and S not in T:
                after = fcfg.reachable(S, stop=T)
                for c in releases:
                    D = node_containing(fcfg, c).id
                    if D in after:
                        ok = False
                        why = 'a failure path releases the copy at line %d after it received a possibly constant key at line %d but ' \
                              'before its type was stored: cJSON_Delete would free the key it shares with the source' % (
                                  fcfg.nodes[D].line, fcfg.nodes[S].line)
                        break
            R.ob('TAB14', F, a, 'a shared constant key is never on the copy without its cJSON_StringIsConst bit', ok, why,
                 key='key-before-type')
    R.floor('TAB14', 'fields of struct cJSON', len(fields), 8)


# ---- EFF6 purity ------------------------------------------------------------------------------------------------

def _pure_functions(units):
    """Functions that store only to their own locals/parameters (never through a pointer) and call only pure
    functions."""
    allf = {}
    for u, fn in all_functions(units):
        allf.setdefault(fn.name, (u, fn))
    impure_local = {}
    for name, (u, fn) in allf.items():
        reasons = []
        for n in fn.cfg().nodes:
            for ev in node_effects(n):
                if ev.kind in ('store', 'incdec'):
                    l = strip_casts(ev.lhs)
                    if not (l.get('k') == 'ref' and l.get('dk') in ('local', 'param')):
                        reasons.append((ev.node, 'store %s' % expr_str(ev.node)[:50]))
        impure_local[name] = reasons
    pure = {n for n, r in impure_local.items() if not r}
    changed = True
    why = {}
    while changed:
        changed = False
        for name in sorted(pure):
            u, fn = allf[name]
            for c in fn.calls():
                cn = callee_name(c)
                if cn is None:
                    bad = 'indirect call'
                elif cn in pure or cn in PURE_LIBC:
                    continue
                else:
                    bad = 'calls %s' % cn
                pure.discard(name)
                why[name] = (c, bad)
                changed = True
                break
    return pure, impure_local, why


def eff6(units, R, roots=('cJSON_Compare',)):
    pure, impure_local, why = _pure_functions(units)
    for r in roots:
        u, fn = find_function(units, r)
        ok = r in pure
        if ok:
            R.ob('EFF6', fn, None, '%s modifies nothing reachable from its arguments' % r, True,
                 'stores only to its own locals; callees %s are pure' % sorted({callee_name(c) for c in fn.calls()}), key='pure:' + r)
        else:
            if impure_local[r]:
                node, what = impure_local[r][0]
                R.ob('EFF6', fn, node, '%s modifies nothing reachable from its arguments' % r, False, what, key='pure:' + r)
            else:
                node, what = why.get(r, (None, 'impure callee'))
                R.ob('EFF6', fn, node, '%s modifies nothing reachable from its arguments' % r, False, what, key='pure:' + r)
        for c in fn.calls():
            cn = callee_name(c)
            if cn and cn not in PURE_LIBC and cn != r:
                cu, cf = find_function(units, cn)
                okc = cn in pure
                detail = 'pure'
                if not okc:
                    if impure_local.get(cn):
                        detail = impure_local[cn][0][1]
                    elif cn in why:
                        detail = why[cn][1]
                R.ob('EFF6', cf, None, 'callee %s of %s is pure' % (cn, r), okc, detail, key='purecallee:' + cn)


# ---- C12 structure ------------------------------------------------------------------------------------------------

def _returns_false_under(cfg, fn, branch, y, r):
    """the return r, reached from successor y of `branch` (taken because an element differed), yields false: its value is the constant
    0, or an expression that is false given which cursor variables are known to be non-NULL at the branch (the loop ran because they
    were) and have not been assigned since"""
    if r.expr is None:
        return False
    if const_val(r.expr) == 0:
        return True
    between = (cfg.reachable(y) | {y}) & (cfg.reachable(r.id, forward=False) | {r.id})
    assigned = set()
    for m in between:
        for ev in node_effects(cfg.nodes[m]):
            if ev.kind in ('store', 'incdec') and is_ref(ev.lhs):
                assigned.add(strip_casts(ev.lhs)['d'])
    # a flag lowered on the way (equal = false; ... return equal && ...): a local whose only store between the differing pair and the
    # return is one constant, on every path
    flags = {}
    for m in between:
        for ev_ in node_effects(cfg.nodes[m]):
            if ev_.kind == 'store' and is_ref(ev_.lhs) and ev_.node.get('op') == '=' and const_val(ev_.node['r']) is not None:
                d0 = strip_casts(ev_.lhs)['d']
                others = [1 for m2 in between for e2 in node_effects(cfg.nodes[m2])
                          if e2.kind in ('store', 'incdec') and is_ref(e2.lhs) and strip_casts(e2.lhs)['d'] == d0 and e2.node is not ev_.node]
                if not others and (m == y or r.id not in (cfg.reachable(y, stop={m}) | {y})):
                    flags[d0] = const_val(ev_.node['r'])
    nonnull = set()
    for d_ in [x_['d'] for x_ in list(fn.locals()) + list(fn.params)]:
        if d_ in assigned:
            continue

        def nn_edge(nn, l, d_=d_):
            if nn.kind != 'branch' or l is None or nn.expr is None:
                return False
            e = strip_casts(nn.expr)
            if e.get('k') == 'bin' and e['op'] in ('==', '!='):
                other = e['l'] if is_null_const(e['r']) else (e['r'] if is_null_const(e['l']) else None)
                if other is not None and is_ref(other) and strip_casts(other)['d'] == d_:
                    return (e['op'] == '!=') == (l[0] == 'T')
            if e.get('k') == 'ref' and e['d'] == d_:
                return l[0] == 'T'
            return False
        if guarded_by(cfg, branch.id, nn_edge):
            # ... and not reassigned between the test and the branch: the only assignments of a cursor are the steps behind the branch
            nonnull.add(d_)

    def ev(e):
        e = strip_casts(e)
        v = const_val(e)
        if v is not None:
            return bool(v)
        if e.get('k') == 'bin' and e['op'] in ('==', '!='):
            other = e['l'] if is_null_const(e['r']) else (e['r'] if is_null_const(e['l']) else None)
            if other is not None and is_ref(other) and strip_casts(other)['d'] in nonnull:
                return e['op'] == '!='
            return None
        if e.get('k') == 'bin' and e['op'] == '&&':
            a, b = ev(e['l']), ev(e['r'])
            if a is False or b is False:
                return False
            return True if (a is True and b is True) else None
        if e.get('k') == 'bin' and e['op'] == '||':
            a, b = ev(e['l']), ev(e['r'])
            if a is True or b is True:
                return True
            return False if (a is False and b is False) else None
        if e.get('k') == 'un' and e['op'] == '!':
            a = ev(e['e'])
            return None if a is None else (not a)
        if e.get('k') == 'cond':
            c = ev(e['c'])
            if c is None:
                a, b = ev(e['t']), ev(e['e'])
                return a if a == b else None
            return ev(e['t'] if c else e['e'])
        if e.get('k') == 'ref' and e.get('d') in nonnull:
            return True
        if e.get('k') == 'ref' and e.get('d') in flags:
            return bool(flags[e['d']])
        return None
    return ev(r.expr) is False


def c12_structure(units, R):
    u = units['cJSON.c']
    fn = u.fn('cJSON_Compare')
    cfg = fn.cfg()
    pa, pb = fn.params[0], fn.params[1]
    # the dispatching switch (the one with return statements in its case arms for Array/Object)
    sws = [n for n in cfg.nodes if n.kind == 'switch']
    arms = {}
    for sw in sws:
        for (y, l) in cfg.succ[sw.id]:
            if l and l[0] == 'case':
                arms.setdefault(l[2], []).append((sw, y))

    # a dispatch on a kind that a static helper computes from the type word (kind = get_compare_kind(a->type); switch (kind)):
    # the helper is evaluated from its body for each of the eight type constants, and the arm of a type is the arm of its kind
    kind_of = {}
    for sw in sws:
        c0 = strip_casts(sw.expr) if sw.expr is not None else {}
        if c0.get('k') != 'ref' or c0.get('dk') != 'local':
            continue
        defs = [a['r'] for a in assignments(fn) if is_ref(a['l']) and strip_casts(a['l'])['d'] == c0['d']]
        defs += [d['init'] for d in fn.locals() if d['d'] == c0['d'] and 'init' in d and strip_casts(d['init']).get('k') == 'call']
        calls = [strip_casts(x) for x in defs if strip_casts(x).get('k') == 'call']
        if len(calls) != 1 or callee_name(calls[0]) not in u.functions or not u.functions[callee_name(calls[0])].static:
            continue
        h = u.functions[callee_name(calls[0])]
        a0 = [x for x in walk(calls[0]['args'][0])] if calls[0]['args'] else []
        if len(h.params) != 1 or not any(x.get('k') == 'mem' and x.get('f') == 'type' for x in a0):
            continue
        km = _kind_helper_map(u, fn, c0)
        if km is not None:
            kind_of = km[0]
    if kind_of:
        arms = {t: arms[kv] for t, kv in kind_of.items() if kv in arms}

    def arm_region(val):
        """nodes reachable from the case edge of the last switch having that label, not crossing other case labels"""
        if val not in arms:
            raise AnalysisBroken('C12: no case %d in cJSON_Compare' % val)
        sw, start = arms[val][-1]
        others = {y for (y, l) in cfg.succ[sw.id] if y != start}
        return sw, start, cfg.reachable(start, stop=others) | {start}

    true_rets = [r for r in cfg.returns() if r.expr is not None and const_val(r.expr) not in (None, 0)]
    # arrays: `return true` only when both cursors are exhausted.  The element walk may live in the arm itself or in a static
    # helper that the arm calls with both arrays
    sw, start, region = arm_region(32)
    afn, acfg, aregion, apa, apb = fn, cfg, region, pa['d'], pb['d']
    for n in cfg.nodes:
        if n.id not in region or n.expr is None:
            continue
        for c in walk(n.expr):
            if c.get('k') != 'call':
                continue
            h = u.functions.get(callee_name(c))
            if h is None or not h.static or h.name == fn.name:
                continue
            m = {}
            for p, a0 in zip(h.params, c['args']):
                a1 = strip_casts(a0)
                if a1.get('k') == 'ref' and a1['d'] in (pa['d'], pb['d']):
                    m[a1['d']] = p['d']
            if len(m) == 2 and any(x.get('k') == 'mem' and x['f'] == 'child' for x in h.nodes()):
                afn, acfg = h, h.cfg()
                aregion = {nd.id for nd in acfg.nodes}
                apa, apb = m[pa['d']], m[pb['d']]
    _c12_array(R, u, afn, acfg, aregion, apa, apb)
    # objects: members looked up in both directions (or sizes compared); the member walk may live in a static helper that
    # the arm calls with the two arguments in both orders
    sw, start, region = arm_region(64)
    LOOKUP_FNS = ('get_object_item', 'cJSON_GetObjectItem', 'cJSON_GetObjectItemCaseSensitive')
    walks = [(fn, cfg, region, {pa['d']: pa['d'], pb['d']: pb['d']})]
    for n in cfg.nodes:
        if n.id not in region or n.expr is None:
            continue
        for c in walk(n.expr):
            if c.get('k') != 'call':
                continue
            h = u.functions.get(callee_name(c))
            if h is None or not h.static or h.name in LOOKUP_FNS or h.name == fn.name:
                continue
            m = {}
            for p, a in zip(h.params, c['args']):
                a0 = strip_casts(a)
                if a0.get('k') == 'ref' and a0['d'] in (pa['d'], pb['d']):
                    m[p['d']] = a0['d']
            if len(m) == 2:
                hcfg = h.cfg()
                walks.append((h, hcfg, set(x.id for x in hcfg.nodes), m))
                # the helper's verdict must be honoured by the arm: the call is a branch condition whose false edge fails
                nodec = node_containing(cfg, c)
                okh = (nodec.kind == 'branch' and strip_casts(nodec.expr) is c) or \
                    (nodec.kind == 'return' and strip_casts(nodec.expr) is c)
                R.ob('C12S', fn, c, 'the result of %s decides the comparison' % h.name, okh, '', key='helper-result:%s' % h.name)
    lookups = []
    nrec = 0
    for (F, fcfg, freg, rootmap) in walks:
        ftrue = [r for r in fcfg.returns() if r.expr is not None and const_val(r.expr) not in (None, 0)]
        for n in fcfg.nodes:
            root_e = n.expr if n.expr is not None else (n.decl.get('init') if n.decl else None)
            if n.id not in freg or root_e is None:
                continue
            for c in walk(root_e):
                if c.get('k') == 'call' and callee_name(c) in LOOKUP_FNS:
                    a0 = strip_casts(c['args'][0])
                    if a0.get('k') == 'ref' and a0['d'] in rootmap:
                        lookups.append((F, fcfg, freg, ftrue, c, rootmap[a0['d']]))
        # recursion results are honoured: every recursive call is a branch condition whose false edge returns false
        for n in fcfg.nodes:
            if n.id not in freg and F is fn:
                pass
            if n.kind == 'branch':
                e = strip_casts(n.expr)
                if e.get('k') == 'call' and callee_name(e) == 'cJSON_Compare':
                    nrec += 1
                    fsucc = [y for (y, l) in fcfg.succ[n.id] if l and l[0] == 'F']
                    ok = all(any(r.id in fcfg.reachable(y) | {y} and const_val(r.expr) == 0 for r in fcfg.returns()) and
                             not any(r.id in fcfg.reachable(y, stop={n.id}) | {y} for r in ftrue if _straight(fcfg, y, r.id))
                             for y in fsucc)
                    if not ok:
                        ok = bool(fsucc) and all(
                            [r for r in fcfg.returns() if r.id in fcfg.reachable(y, stop={n.id}) | {y}] and
                            all(_returns_false_under(fcfg, F, n, y, r) for r in fcfg.returns() if r.id in fcfg.reachable(y, stop={n.id}) | {y})
                            for y in fsucc)
                    R.ob('C12S', F, e, 'a differing element/member makes the comparison false', ok, '', key='recursion-result')
            elif n.expr is not None and n.kind != 'branch':
                for c in walk(n.expr):
                    if c.get('k') == 'call' and callee_name(c) == 'cJSON_Compare':
                        nrec += 1
                        R.ob('C12S', F, c, 'result of the recursive comparison is tested', False,
                             'recursive call whose result is not a branch condition', key='recursion-unused')
    roots = {d for (_F, _c1, _r, _t, _c, d) in lookups}
    sizes = [c for n in cfg.nodes if n.id in region and n.expr is not None for c in walk(n.expr)
             if c.get('k') == 'call' and callee_name(c) == 'cJSON_GetArraySize']
    both = {pa['d'], pb['d']} <= roots
    sized = len(roots) >= 1 and len(sizes) >= 2
    R.ob('C12S', fn, None, 'objects: members are looked up in both directions (or member counts are compared)', both or sized,
         'lookups in %s' % ('both objects' if both else 'one object only: a subset would compare equal'), key='object-bidirectional')
    # every lookup result is tested against NULL before `return true` can be reached
    for (F, fcfg, freg, ftrue, c, d) in lookups:
        par = F.parents().get(c['id'])
        while par is not None and par.get('k') == 'cast':
            par = F.parents().get(par['id'])
        var = None
        if par is not None and par.get('k') == 'bin' and par['op'] == '=' and is_ref(par['l']):
            var = strip_casts(par['l'])
        else:
            for dcl in F.locals():
                if 'init' in dcl and strip_casts(dcl['init']) is c:
                    var = {'d': dcl['d'], 'n': dcl['n']}
        ok = False
        direct = None
        if var is None:
            # the lookup itself is the branch condition: if (lookup(...) == NULL) return false;
            node = node_containing(fcfg, c)
            if node.kind == 'branch' and node.expr is not None:
                e = strip_casts(node.expr)
                nonnull_on = None
                if e is c:
                    nonnull_on = 'T'
                elif e.get('k') == 'bin' and e['op'] in ('==', '!='):
                    other = e['l'] if is_null_const(e['r']) else (e['r'] if is_null_const(e['l']) else None)
                    if other is not None and strip_casts(other) is c:
                        nonnull_on = 'T' if e['op'] == '!=' else 'F'
                if nonnull_on is not None:
                    direct = [y for (y, l) in fcfg.succ[node.id] if l is None or l[0] != nonnull_on]
        if direct is not None:
            seen = set(direct)
            work = list(direct)
            while work:
                x = work.pop()
                for (y, l) in fcfg.succ[x]:
                    if y not in seen:
                        seen.add(y)
                        work.append(y)
            ok = not [r for r in ftrue if r.id in seen and r.id in freg]
        if var is not None:
            node = node_containing(fcfg, c)

            def nonnull_edge(nn, l, var=var):
                if nn.kind != 'branch' or l is None:
                    return False
                e = strip_casts(nn.expr)
                if e.get('k') == 'bin' and e['op'] in ('==', '!='):
                    other = e['l'] if is_null_const(e['r']) else (e['r'] if is_null_const(e['l']) else None)
                    if other is not None and is_ref(other) and strip_casts(other)['d'] == var['d']:
                        return (e['op'] == '!=') == (l[0] == 'T')
                if e.get('k') == 'ref' and e['d'] == var['d']:
                    return l[0] == 'T'
                return False
            seen = {node.id}
            work = [node.id]
            while work:
                x = work.pop()
                for (y, l) in fcfg.succ[x]:
                    if nonnull_edge(fcfg.nodes[x], l):
                        continue
                    if y not in seen:
                        seen.add(y)
                        work.append(y)
            bad = [r for r in ftrue if r.id in seen and r.id in freg]
            ok = not bad
        R.ob('C12S', F, c, 'a member missing from the other object makes the comparison false', ok,
             'lookup result tested against NULL' if ok else 'lookup result not tested', key='object-missing:%s' % d)
    R.floor('C12S', 'member lookups in the object arm', len(lookups), 1)
    # recursion in the array arm (and anything else in cJSON_Compare itself outside the object walk)
    for n in cfg.nodes:
        if n.id in region:
            continue
        if n.kind == 'branch':
            e = strip_casts(n.expr)
            if e.get('k') == 'call' and callee_name(e) == 'cJSON_Compare':
                nrec += 1
                fsucc = [y for (y, l) in cfg.succ[n.id] if l and l[0] == 'F']
                ok = all(any(r.id in cfg.reachable(y) | {y} and const_val(r.expr) == 0 for r in cfg.returns()) and
                         not any(r.id in cfg.reachable(y, stop={n.id}) | {y} for r in true_rets if _straight(cfg, y, r.id))
                         for y in fsucc)
                if not ok:
                    # no literal `return false`: every return that can follow the differing pair without another comparison yields
                    # false for what is known about the cursors there (break; return (a == NULL) && (b == NULL);)
                    ok = bool(fsucc) and all(
                        [r for r in cfg.returns() if r.id in cfg.reachable(y, stop={n.id}) | {y}] and
                        all(_returns_false_under(cfg, fn, n, y, r) for r in cfg.returns() if r.id in cfg.reachable(y, stop={n.id}) | {y})
                        for y in fsucc)
                R.ob('C12S', fn, e, 'a differing element/member makes the comparison false', ok, '', key='recursion-result')
        elif n.expr is not None:
            for c in walk(n.expr):
                if c.get('k') == 'call' and callee_name(c) == 'cJSON_Compare':
                    nrec += 1
                    R.ob('C12S', fn, c, 'result of the recursive comparison is tested', False,
                         'recursive call whose result is not a branch condition', key='recursion-unused')
    R.floor('C12S', 'recursive comparisons', nrec, 2)
    # strings: NULL payloads are refused before strcmp
    for c in fn.calls():
        if callee_name(c) == 'strcmp':
            node = node_containing(cfg, c)
            for a in c['args']:
                a0 = strip_casts(a)
                if a0.get('k') != 'mem':
                    continue
                s = expr_str(a0)

                def nn_edge(nn, l, s=s):
                    if nn.kind != 'branch' or l is None:
                        return False
                    e = strip_casts(nn.expr)
                    if e.get('k') == 'bin' and e['op'] in ('==', '!='):
                        other = e['l'] if is_null_const(e['r']) else (e['r'] if is_null_const(e['l']) else None)
                        if other is not None and expr_str(strip_casts(other)) == s:
                            return (e['op'] == '!=') == (l[0] == 'T')
                    return False
                ok = guarded_by(cfg, node.id, nn_edge)
                R.ob('C12S', fn, a0, 'strcmp on %s only after a NULL test' % s, ok, '', key='strcmp-null:' + s)
    # numbers: the arm's verdict is compare_double of the two value doubles and of nothing else
    sw, start, region = arm_region(8)
    _c12_number(R, u, fn, cfg, start, pa, pb)
    # numbers: both operands of compare_double come from the two arguments
    for c in fn.calls():
        if callee_name(c) == 'compare_double':
            ds = set()
            for a in c['args']:
                for x in walk(a):
                    if x.get('k') == 'ref' and x.get('dk') == 'param':
                        ds.add(x['d'])
            R.ob('C12S', fn, c, 'numbers: one operand from each argument', ds == {pa['d'], pb['d']}, expr_str(c)[:60], key='number-operands')


def _c12_number(R, u, fn, cfg, start, pa, pb):
    """The Number arm as a boolean function of the conditions it evaluates (static helpers are followed with their parameters
    replaced by the arguments): it must be exactly compare_double(a->valuedouble, b->valuedouble).  A condition on anything
    else (valueint, the type word, ...) that can change the verdict is a violation; one that cannot is ignored."""
    import itertools
    CD = 'compare_double'
    if CD not in u.functions:
        raise AnalysisBroken('C12N: %s not found' % CD)

    def canon(e, env):
        e = strip_casts(e)
        k = e.get('k')
        v = const_val(e)
        if v is not None:
            return str(v)
        if k == 'ref':
            return env.get(e.get('d'), e.get('n'))
        if k == 'mem':
            return '%s%s%s' % (canon(e['b'], env), '->' if e['arrow'] else '.', e['f'])
        if k == 'call':
            return '%s(%s)' % (callee_name(e) or '?', ', '.join(canon(a, env) for a in e['args']))
        if k == 'bin':
            return '(%s %s %s)' % (canon(e['l'], env), e['op'], canon(e['r'], env))
        if k == 'un':
            return '%s(%s)' % (e['op'], canon(e['e'], env))
        return expr_str(e)

    def val_tree(e, env, depth):
        e = strip_casts(e)
        v = const_val(e)
        if v is not None:
            return ('k', v != 0)
        k = e.get('k')
        if k == 'un' and e['op'] == '!':
            return ('not', val_tree(e['e'], env, depth))
        if k == 'cond':
            return ('ite', val_tree(e['c'], env, depth), val_tree(e['t'], env, depth), val_tree(e['e'], env, depth))
        if k == 'bin' and e['op'] in ('&&', '||'):
            l, r = val_tree(e['l'], env, depth), val_tree(e['r'], env, depth)
            return ('ite', l, r, ('k', False)) if e['op'] == '&&' else ('ite', l, ('k', True), r)
        if k == 'bin' and e['op'] in ('==', '!='):
            for (x, y) in ((e['l'], e['r']), (e['r'], e['l'])):
                if const_val(y) == 0 and u.ty(strip_casts(x)['ty'])['c'] in ('int', 'bool'):
                    t = val_tree(x, env, depth)
                    return t if e['op'] == '!=' else ('not', t)
        if k == 'call':
            cn = callee_name(e)
            h = u.functions.get(cn)
            if cn == CD:
                args = sorted(canon(a, env) for a in e['args'])
                return ('atom', '%s(%s)' % (CD, ', '.join(args)))
            if h is not None and h.static and h.body is not None and depth < 4 and cn != fn.name:
                env2 = {p['d']: canon(a, env) for p, a in zip(h.params, e['args'])}
                hcfg = h.cfg()
                return tree_from(h, hcfg, hcfg.entry.id, env2, depth + 1, 0)
        if k == 'ref' and e.get('d') in env and isinstance(env[e['d']], tuple):
            return env[e['d']]
        return ('atom', canon(e, env))

    def tree_from(F, fcfg, nid, env, depth, steps):
        while True:
            steps += 1
            if steps > 400:
                raise AnalysisBroken('C12N: the number arm does not reduce to a verdict (loop in %s?)' % F.name)
            node = fcfg.nodes[nid]
            if node.kind == 'return':
                return val_tree(node.expr, env, depth) if node.expr is not None else ('atom', 'void')
            if node is fcfg.exit:
                return ('atom', 'end of %s' % F.name)
            if node.kind == 'branch':
                c = val_tree(node.expr, env, depth)
                ts = [y for (y, l) in fcfg.succ[nid] if l and l[0] == 'T']
                fs = [y for (y, l) in fcfg.succ[nid] if l and l[0] == 'F']
                if len(ts) != 1 or len(fs) != 1:
                    raise AnalysisBroken('C12N: branch at %s:%d without two edges' % (F.name, node.line))
                return ('ite', c, tree_from(F, fcfg, ts[0], dict(env), depth, steps), tree_from(F, fcfg, fs[0], dict(env), depth, steps))
            if node.kind == 'switch':
                raise AnalysisBroken('C12N: nested switch in the number arm (%s:%d)' % (F.name, node.line))
            if node.kind == 'decl' and 'init' in node.decl:
                t = u.ty(node.decl['ty'])
                env = dict(env)
                env[node.decl['d']] = val_tree(node.decl['init'], env, depth) if t['c'] in ('int', 'bool') else canon(node.decl['init'], env)
            elif node.expr is not None:
                e = strip_casts(node.expr)
                if e.get('k') == 'bin' and e['op'] == '=' and strip_casts(e['l']).get('k') == 'ref':
                    l = strip_casts(e['l'])
                    t = u.ty(l['ty'])
                    env = dict(env)
                    env[l['d']] = val_tree(e['r'], env, depth) if t['c'] in ('int', 'bool') else canon(e['r'], env)
            succ = fcfg.succ[nid]
            if len(succ) != 1:
                raise AnalysisBroken('C12N: %s:%d has %d successors' % (F.name, node.line, len(succ)))
            nid = succ[0][0]

    tree = tree_from(fn, cfg, start, {pa['d']: '@a', pb['d']: '@b'}, 0, 0)
    atoms = []

    def collect(t):
        if t[0] == 'atom' and t[1] not in atoms:
            atoms.append(t[1])
        for x in t[1:]:
            if isinstance(x, tuple):
                collect(x)
    collect(tree)

    def evaluate(t, asg):
        if t[0] == 'k':
            return t[1]
        if t[0] == 'atom':
            return asg[t[1]]
        if t[0] == 'not':
            return not evaluate(t[1], asg)
        return evaluate(t[2], asg) if evaluate(t[1], asg) else evaluate(t[3], asg)
    want = '%s(%s)' % (CD, ', '.join(sorted(['@a->valuedouble', '@b->valuedouble'])))
    cds = [a for a in atoms if a.startswith(CD + '(')]
    if len(atoms) > 10:
        raise AnalysisBroken('C12N: %d conditions in the number arm' % len(atoms))
    ok_operands = cds == [want]
    R.ob('C12N', fn, None, 'numbers are compared by compare_double on the two valuedouble fields', ok_operands,
         'the arm evaluates %s' % (cds or 'no call of compare_double'), key='number-call')
    if not ok_operands:
        return
    foreign = [a for a in atoms if a != want]
    bad = None
    for vals in itertools.product((False, True), repeat=len(atoms)):
        asg = dict(zip(atoms, vals))
        if evaluate(tree, asg) != asg[want]:
            culprit = [a for a in foreign if evaluate(tree, dict(asg, **{a: not asg[a]})) == asg[want]]
            bad = 'with compare_double %s the arm answers %s%s' % (
                asg[want], not asg[want], (' because of the condition %s' % culprit[0].replace('@', '')) if culprit else '')
            break
    R.ob('C12N', fn, None, 'the verdict for two numbers is exactly that of compare_double', bad is None,
         bad or ('no other condition can change it (%d conditions in the arm)' % len(atoms)), key='number-verdict')


def _passes(cfg, a, b, seen):
    return False


def _straight(cfg, y, r):
    """r reachable from y without passing through another branch on a recursive call (i.e. directly)."""
    path = cfg.find_path(y, r, avoid=[n.id for n in cfg.nodes if n.kind == 'branch'])
    return path is not None


# ---- LST4 -----------------------------------------------------------------------------------------------------------------

LST4_EXCEPTIONS = {
    ('cJSON_SetNumberHelper', 'object'): 'only reachable through the cJSON_SetNumberValue macro, which tests object != NULL',
    ('cJSON_InsertItemInArray', 'array'): 'array->child is read only after get_array_item(array, ..) returned non-NULL, '
                                          'which implies array != NULL (get_array_item returns NULL for a NULL array)',
}
NULL_REJECTING_PREDICATES = {'cJSON_IsInvalid', 'cJSON_IsFalse', 'cJSON_IsTrue', 'cJSON_IsBool', 'cJSON_IsNull', 'cJSON_IsNumber',
                             'cJSON_IsString', 'cJSON_IsArray', 'cJSON_IsObject', 'cJSON_IsRaw'}


def lst4(units, R, unit_name='cJSON.c'):
    u = units[unit_name]
    n = 0
    for fn in u.function_list:
        if not (fn.external and fn.in_header):
            continue
        ptr_params = {p['d']: p for p in fn.params if u.ty(p['ty'])['c'] == 'ptr' and not u.ty(p['ty']).get('fnptr')}
        if not ptr_params:
            continue
        cfg = None
        done = set()
        for x in fn.nodes():
            d = None
            k = x.get('k')
            if k == 'mem' and x['arrow'] and is_ref(x['b']):
                d = strip_casts(x['b'])
            elif k == 'un' and x['op'] == '*' and is_ref(x['e']):
                d = strip_casts(x['e'])
            elif k == 'idx' and is_ref(x['b']):
                d = strip_casts(x['b'])
            if d is None or d.get('dk') != 'param' or d['d'] not in ptr_params:
                continue
            cfg = cfg or fn.cfg()
            node = node_containing(cfg, x)
            pd = d['d']

            def guard(nn, l, pd=pd):
                if nn.kind != 'branch' or l is None:
                    return False
                e = strip_casts(nn.expr)
                if e.get('k') == 'ref' and e.get('d') == pd:
                    return l[0] == 'T'
                if e.get('k') == 'bin' and e['op'] in ('==', '!='):
                    other = e['l'] if is_null_const(e['r']) else (e['r'] if is_null_const(e['l']) else None)
                    if other is not None and is_ref(other) and strip_casts(other)['d'] == pd:
                        return (e['op'] == '!=') == (l[0] == 'T')
                if e.get('k') == 'call' and callee_name(e) in NULL_REJECTING_PREDICATES and e['args'] and \
                        is_ref(e['args'][0]) and strip_casts(e['args'][0])['d'] == pd:
                    return l[0] == 'T'
                return False
            # the parameter must not be re-assigned (then it is a cursor, e.g. cJSON_Delete's loop variable)
            reassigned = any(is_ref(a['l']) and strip_casts(a['l'])['d'] == pd for a in assignments(fn))
            ok = guarded_by(cfg, node.id, guard)
            key = (fn.name, d['n'])
            if key in done and ok:
                continue
            done.add(key)
            n += 1
            if not ok and key in LST4_EXCEPTIONS:
                R.ob('LST4', fn, x, 'dereference %s' % expr_str(x)[:40], True, 'listed exception: ' + LST4_EXCEPTIONS[key],
                     key='deref:%s' % d['n'])
                continue
            R.ob('LST4', fn, x, 'dereference %s of a pointer parameter only after a NULL test' % expr_str(x)[:40], ok,
                 'guarded on every path' if ok else 'NULL %s reaches this dereference' % d['n'], key='deref:%s' % d['n'])
    R.floor('LST4', 'public functions dereferencing pointer parameters', n, 18)


# ---- LST2 list idioms ---------------------------------------------------------------------------------------------------------

def _assign_pairs(fn):
    """(lhs_str, rhs_str, node) for every assignment, chained assignments expanded (a = b = NULL)."""
    out = []
    for a in assignments(fn):
        if a['op'] != '=':
            continue
        r = a['r']
        r0 = strip_casts(r)
        while r0.get('k') == 'bin' and r0['op'] == '=':
            r0 = strip_casts(r0['r'])
        rs = 'NULL' if is_null_const(r0) or r0.get('null') else expr_str(r0)
        out.append((expr_str(strip_casts(a['l'])), rs, a))
    # suffix_object(prev, item) == prev->next = item; item->prev = prev
    for c in fn.calls():
        if callee_name(c) == 'suffix_object' and len(c['args']) == 2:
            p, i = expr_str(strip_casts(c['args'][0])), expr_str(strip_casts(c['args'][1]))
            out.append(('%s->next' % _par(p), i, c))
            out.append(('%s->prev' % _par(i), p, c))
    # a local that holds the first child for the whole function (cJSON *child = array->child;) is written as what it holds
    defs = {}
    for d_ in fn.locals():
        if 'init' in d_:
            defs.setdefault(d_['n'], []).append(d_['init'])
    stepped = set()
    for a in assignments(fn):
        l_ = strip_casts(a['l'])
        if l_.get('k') == 'ref':
            defs.setdefault(l_['n'], []).append(a['r'] if a['op'] == '=' else None)
    for x in fn.nodes():
        if x.get('k') == 'un' and x.get('op') in ('pre++', 'pre--', 'post++', 'post--', '&') and strip_casts(x['e']).get('k') == 'ref':
            stepped.add(strip_casts(x['e'])['n'])
    alias = {}
    for name, rs in defs.items():
        real = [r_ for r_ in rs if r_ is None or not (is_null_const(r_) or strip_casts(r_).get('null'))]
        if name in stepped or len(real) != 1 or real[0] is None:
            continue
        r0 = strip_casts(real[0])
        if r0.get('k') == 'mem' and r0['f'] == 'child' and strip_casts(r0['b']).get('k') == 'ref' and strip_casts(r0['b']).get('dk') == 'param':
            alias[name] = expr_str(r0)
    if alias:
        def sub(t):
            for name, full in alias.items():
                t = re.sub(r'(?<![\w>.])%s(?![\w])' % re.escape(name), full, t)
            return t
        out = [(sub(l), sub(r), a) for (l, r, a) in out if not (l in alias)]
    return out


def _par(s):
    return s


def lst2(units, R):
    """Sibling-list edit idioms must be complete (every link that the edit invalidates is re-established)."""
    n = 0
    for u, fn in all_functions(units):
        pairs = _assign_pairs(fn)
        if not pairs:
            continue
        have = {(l, r) for (l, r, _a) in pairs}
        lhs = {l for (l, _r, _a) in pairs}

        def has(l, r=None):
            if r is None:
                return l in lhs
            return (l, r) in have
        child_stores = [(l, r) for (l, r) in have if l.endswith('->child')]
        childprev = [l for l in lhs if l.endswith('->child->prev')]
        for (l, r, a) in pairs:
            # unlink: I->prev->next = I->next
            m = re.match(r'^(.+)->prev->next$', l)
            if m and r == '%s->next' % m.group(1):
                I = m.group(1)
                n += 1
                missing = []
                if not has('%s->next->prev' % I, '%s->prev' % I):
                    missing.append('%s->next->prev = %s->prev' % (I, I))
                if not any(cl for cl in childprev if ('%s' % cl, '%s->prev' % I) in have):
                    missing.append('<parent>->child->prev = %s->prev (last element removed)' % I)
                if not any(rr == '%s->next' % I for (ll, rr) in child_stores):
                    missing.append('<parent>->child = %s->next (first element removed)' % I)
                if not has('%s->prev' % I, 'NULL'):
                    missing.append('%s->prev = NULL' % I)
                if not has('%s->next' % I, 'NULL'):
                    missing.append('%s->next = NULL' % I)
                R.ob('LST2', fn, a, 'unlink of %s is complete' % I, not missing,
                     'all five link updates present' if not missing else 'missing: ' + '; '.join(missing), key='unlink:' + I)
            # take-over: R->next = I->next with R->prev = I->prev
            m = re.match(r'^(\w+)->next$', l)
            m2 = re.match(r'^(\w+)->next$', r)
            if m and m2 and m.group(1) != m2.group(1) and has('%s->prev' % m.group(1), '%s->prev' % m2.group(1)):
                Rr, I = m.group(1), m2.group(1)
                n += 1
                missing = []
                if not has('%s->next->prev' % Rr, Rr):
                    missing.append('%s->next->prev = %s' % (Rr, Rr))
                if not has('%s->prev->next' % Rr, Rr):
                    missing.append('%s->prev->next = %s' % (Rr, Rr))
                if not any(rr == Rr for (ll, rr) in child_stores):
                    missing.append('<parent>->child = %s' % Rr)
                if not any((cl, Rr) in have for cl in childprev):
                    missing.append('<parent>->child->prev = %s (last element replaced)' % Rr)
                R.ob('LST2', fn, a, 'take-over of %s\'s links by %s is complete' % (I, Rr), not missing,
                     'neighbours, head and tail re-pointed' if not missing else 'missing: ' + '; '.join(missing), key='takeover:' + Rr)
            # insert-before: N->next = A; N->prev = A->prev; A->prev = N
            m = re.match(r'^(\w+)->next$', l)
            if m and re.match(r'^\w+$', r) and has('%s->prev' % m.group(1), '%s->prev' % r):
                N, A = m.group(1), r
                n += 1
                missing = []
                if not has('%s->prev' % A, N):
                    missing.append('%s->prev = %s' % (A, N))
                if not has('%s->prev->next' % N, N) and not has('%s->prev->next' % A, N):
                    # the predecessor is reached through the new element, or through the old one while it still points there
                    # (the order of the stores is SHP1's business)
                    missing.append('%s->prev->next = %s' % (N, N))
                if not any(rr == N for (ll, rr) in child_stores):
                    missing.append('<parent>->child = %s' % N)
                R.ob('LST2', fn, a, 'insertion of %s before %s is complete' % (N, A), not missing,
                     'back link, forward link and head updated' if not missing else 'missing: ' + '; '.join(missing), key='insert:' + N)
        # append / first element in the appender
        for (l, r, a) in pairs:
            m = re.match(r'^(.+)->child->prev->next$', l) or re.match(r'^(\w+)->prev->next$', l)
            if m and re.match(r'^\w+$', r) and not r == 'NULL' and l.count('->prev->next') == 1 and \
                    not has('%s->next' % r, l[:-len('->prev->next')]):
                # T->next = item where T is some container's last element
                T = l[:-len('->next')]
                item = r
                if not has('%s->prev' % item, T):
                    continue
                n += 1
                ok = any((cl, item) in have for cl in childprev)
                R.ob('LST2', fn, a, 'append of %s records the new tail' % item, ok,
                     '<parent>->child->prev = %s' % item if ok else 'first child\'s prev not updated: next append overwrites %s' % item,
                     key='append:' + item)
        takeover = any(re.match(r'^\w+->next$', l) and re.match(r'^\w+->next$', r) for (l, r) in have)
        for (l, r) in child_stores:
            if takeover:
                break
            if re.match(r'^\w+$', r) and has('%s->prev' % r, r):
                n += 1
                ok = has('%s->next' % r, 'NULL')
                R.ob('LST2', fn, None, 'first element %s is self-tailed and terminated' % r, ok,
                     '%s->prev = %s; %s->next = NULL' % (r, r, r) if ok else '%s->next not cleared' % r, key='first:' + r)
    R.floor('LST2', 'list edit idioms', n, 6)


# ---- LST3 refusal before mutation ------------------------------------------------------------------------------------------------

def lst3(units, R):
    """In the public edit functions of cJSON.c no path leads from a store into a tree node to a refusal
    (`return false` / `return NULL`)."""
    u = units['cJSON.c']
    n = 0
    for fn in u.function_list:
        if not fn.external:
            continue
        cj = [p for p in fn.params if 'struct cJSON *' in u.ty(p['ty'])['s'] and not u.ty(p['ty']).get('pointee_const')]
        if not cj:
            continue
        cfg = fn.cfg()
        stores = []
        for nd in cfg.nodes:
            for ev in node_effects(nd):
                if ev.kind == 'store':
                    l = strip_casts(ev.lhs)
                    if l.get('k') == 'mem' and l['arrow'] and l['f'] in ('next', 'prev', 'child'):
                        stores.append((nd, ev))
        if not stores:
            continue
        refusals = [r for r in cfg.returns() if r.expr is not None and (const_val(r.expr) == 0 or is_null_const(r.expr))]
        for (nd, ev) in stores:
            n += 1
            bad = [r for r in refusals if r.id in cfg.reachable(nd.id)]
            R.ob('LST3', fn, ev.node, 'link store %s is never followed by a refusal' % expr_str(ev.node)[:50], not bad,
                 'every refusal precedes the first link store' if not bad else
                 'refusal at line %d reachable after the container was modified' % bad[0].line, key='store:' + expr_str(ev.node)[:50])
    R.floor('LST3', 'link stores in public edit functions', n, 15)


def _c12_array(R, u, fn, cfg, region, pa_d, pb_d):
    from ..dataflow import solve
    true_rets = [r for r in cfg.returns() if r.expr is not None and const_val(r.expr) not in (None, 0)]
    # the element cursors: locals that the arm points at the first child of a / of b (declaration, assignment or the
    # cJSON_ArrayForEach macro)
    cur = {}
    for n in cfg.nodes:
        if n.id not in region:
            continue
        for ev in node_effects(n):
            if ev.kind == 'declinit' and ev.rhs is not None:
                d, rhs = ev.lhs['d'], ev.rhs
            elif ev.kind == 'store' and ev.node['op'] == '=' and is_ref(ev.lhs) and strip_casts(ev.lhs).get('dk') == 'local':
                d, rhs = strip_casts(ev.lhs)['d'], ev.node['r']
            else:
                continue
            for x in walk(rhs):
                if x.get('k') == 'mem' and x['f'] == 'child' and is_ref(x['b']) and strip_casts(x['b'])['d'] in (pa_d, pb_d):
                    cur.setdefault(strip_casts(x['b'])['d'], set()).add(d)
    if len(cur.get(pa_d, ())) != 1 or len(cur.get(pb_d, ())) != 1:
        raise AnalysisBroken('C12: array arm of cJSON_Compare does not have one element cursor per array')
    ca, cb = next(iter(cur[pa_d])), next(iter(cur[pb_d]))

    def tr(node, st):
        st = set(st)
        for ev in node_effects(node):
            if ev.kind in ('store', 'declinit'):
                tgt = ev.lhs if ev.kind == 'store' else None
                d = strip_casts(tgt)['d'] if tgt is not None and is_ref(tgt) else (ev.lhs['d'] if ev.kind == 'declinit' else None)
                if d == ca:
                    st -= {'a0', 'a1', 'eq'}
                if d == cb:
                    st -= {'b0', 'b1', 'eq'}
        return frozenset(st)

    def rf(node, label, st):
        if label[0] not in ('T', 'F'):
            return st
        e = strip_casts(label[1])
        truth = label[0] == 'T'
        st = set(st)
        if e.get('k') == 'ref':
            if e['d'] == ca:
                st.add('a1' if truth else 'a0')
            if e['d'] == cb:
                st.add('b1' if truth else 'b0')
        elif e.get('k') == 'bin' and e['op'] in ('==', '!='):
            l, r = strip_casts(e['l']), strip_casts(e['r'])
            eq = (e['op'] == '==') == truth
            for (x, y) in ((l, e['r']), (r, e['l'])):
                if x.get('k') == 'ref' and is_null_const(y):
                    if x['d'] == ca:
                        st.add('a0' if eq else 'a1')
                    if x['d'] == cb:
                        st.add('b0' if eq else 'b1')
            if l.get('k') == 'ref' and r.get('k') == 'ref' and {l['d'], r['d']} == {ca, cb} and eq:
                st.add('eq')
        if ('a0' in st and 'a1' in st) or ('b0' in st and 'b1' in st):
            return None
        return frozenset(st)
    states = solve(cfg, frozenset(), tr, rf, lambda a, b: a & b)
    n_arr = 0
    points = [(r, r.stmt) for r in true_rets]
    # `return (x) ? true : false;` - the point of the true result is the selected arm
    for nd in cfg.nodes:
        if nd.kind == 'stmt' and (nd.name or '').startswith('cond-arm:') and nd.expr is not None and const_val(nd.expr) not in (None, 0):
            cid = int(nd.name.split(':')[1])
            if any(r.expr is not None and any(x.get('id') == cid for x in walk(r.expr)) for r in cfg.returns()):
                points.append((nd, nd.expr))
    # `return a_cursor == b_cursor;` is true exactly when both are exhausted (the lists are disjoint)
    for r in cfg.returns():
        e = strip_casts(r.expr) if r.expr is not None else {}
        if e.get('k') == 'cond' and const_val(e['t']) not in (None, 0) and const_val(e['e']) == 0:
            e = strip_casts(e['c'])        # (x) ? true : false
        both_null = False
        if e.get('k') == 'bin' and e['op'] == '&&' and r.id in region:
            tested = set()
            for side in (strip_casts(e['l']), strip_casts(e['r'])):
                if side.get('k') == 'bin' and side['op'] == '==' and (is_null_const(side['l']) or is_null_const(side['r'])):
                    o_ = side['l'] if is_null_const(side['r']) else side['r']
                    if is_ref(o_):
                        tested.add(strip_casts(o_)['d'])
            both_null = tested == {ca, cb}
        if both_null or (e.get('k') == 'bin' and e['op'] == '==' and is_ref(e['l']) and is_ref(e['r']) and
                         {strip_casts(e['l'])['d'], strip_casts(e['r'])['d']} == {ca, cb} and r.id in region):
            n_arr += 1
            R.ob('C12S', fn, r.stmt, 'arrays compare equal only when both element cursors are exhausted', True,
                 'the result is the comparison of the two cursors itself', key='array-length')
    for (r, where) in points:
        if r.id in region and r.id in states:
            # only returns that lie after the element loop (reachable from a cursor declaration)
            st = states[r.id]
            n_arr += 1
            ok = ('a0' in st and 'b0' in st) or ('eq' in st and ('a0' in st or 'b0' in st)) or 'eq' in st
            R.ob('C12S', fn, where, 'arrays compare equal only when both element cursors are exhausted', ok,
                 'facts at the return: %s' % sorted(st), key='array-length')
    R.floor('C12S', 'true returns in the array arm', n_arr, 1)
