"""Difference bounds between character cursors.

For the char cursors of one function - char* locals and parameters, the targets `*pp` of char** parameters, and a ghost
`@k` for the value every parameter cursor k had on entry - D[(a, b)] is a proven lower bound on position(a) - position(b),
for all pairs that point into the same string.  It is what "the write cursor never overtakes the read cursor" (OUT6),
"this helper only ever moves the caller's cursor forward" and "... by at least one byte" (BND6) are statements about,
whether the function works on the parameter directly or on a local copy that it stores back at the end.

Forward dataflow, join = pointwise minimum, a bound that keeps decreasing is dropped.  Calls that receive `&cursor`
apply the callee's own summary (computed first, bottom-up over the unit).
"""
from ..facts import AnalysisBroken, strip_casts, expr_str, const_val, callee_name, walk, ASSIGN_OPS, is_null_const
from ..dataflow import solve, node_effects, access

NEG = -(1 << 20)
SPAN_FUNCS = ('strlen', 'strcspn', 'strspn')


def _is_charp(u, tid, stars=1):
    t = u.ty(tid)
    return t['c'] == 'ptr' and 'char' in t['s'] and t['s'].count('*') == stars


class CursorDiffs(object):
    def __init__(self, u, fn, summaries=None, assume=None, nonterm=None):
        self.u = u
        self.fn = fn
        # {entry cursor key: n}: the n bytes at the cursor are not the terminator when the function is entered (what the
        # callers guarantee; BND3 infers the numbers and checks them at every call site)
        self.nonterm = dict(nonterm or {})
        self.cfg = fn.cfg()
        self.summaries = summaries if summaries is not None else {}
        self.keys = []
        self.pp = []          # names of char** parameters
        for p in fn.params:
            if _is_charp(u, p['ty'], 1):
                self.keys.append(p['n'])
            elif _is_charp(u, p['ty'], 2):
                self.pp.append(p['n'])
                self.keys.append('*' + p['n'])
        self.entry_keys = list(self.keys)
        for d in fn.locals():
            if _is_charp(u, d['ty'], 1) and not d.get('static'):
                self.keys.append(d['n'])
        self.ghosts = ['@' + k for k in self.entry_keys]
        self.assume = dict(assume or {})     # (a, b) -> bound holding on entry (between entry cursors)
        self.states = None

    # ---- keys -------------------------------------------------------------------------------------
    def key(self, e):
        e = strip_casts(e)
        if e.get('k') == 'ref' and e.get('dk') in ('local', 'param') and _is_charp(self.u, e.get('ty0', e['ty']), 1):
            return e['n'] if e['n'] in self.keys else None
        if e.get('k') == 'un' and e['op'] == '*':
            i = strip_casts(e['e'])
            if i.get('k') == 'ref' and i.get('dk') == 'param' and i['n'] in self.pp:
                return '*' + i['n']
        if e.get('k') == 'paren':
            return self.key(e['e'])
        return None

    def norm(self, e):
        """pointer expression -> (key, constant offset) | (key, 'nonneg') | None"""
        e = strip_casts(e)
        k = self.key(e)
        if k:
            return (k, 0)
        if e.get('k') == 'un' and e['op'] in ('pre++', 'pre--'):
            k = self.key(e['e'])
            return (k, 0) if k else None         # evaluated after the step, which the incdec event has applied
        if e.get('k') == 'un' and e['op'] in ('post++', 'post--'):
            k = self.key(e['e'])
            return (k, 0) if k else None         # the step is deferred: the value is the old position
        if e.get('k') == 'bin' and e['op'] in ('+', '-'):
            b = self.norm(e['l'])
            c = const_val(e['r'])
            if b and c is not None and b[1] != 'nonneg':
                return (b[0], b[1] + (c if e['op'] == '+' else -c))
            r = strip_casts(e['r'])
            if b and e['op'] == '+' and b[1] != 'nonneg' and r.get('k') == 'call' and callee_name(r) in SPAN_FUNCS:
                return (b[0], 'nonneg')
        if e.get('k') == 'un' and e['op'] == '&':
            a = access(e['e'])
            if a is not None and isinstance(a[1], int):
                b = self.norm(a[0])
                if b and b[1] != 'nonneg':
                    return (b[0], b[1] + a[1])
        return None

    # ---- state operations -------------------------------------------------------------------------
    @staticmethod
    def get(D, a, b):
        if a == b:
            return 0
        return D.get((a, b), NEG)

    def shift(self, D, c, k):
        out = {}
        for (a, b), v in D.items():
            if a == c and b != c:
                v = v + k
            elif b == c and a != c:
                v = v - k
            if v > NEG:
                out[(a, b)] = v
        return out

    def shift_nonneg(self, D, c):
        """c moves forward by an unknown amount >= 0"""
        return {(a, b): v for (a, b), v in D.items() if b != c}

    def forget(self, D, c):
        return {(a, b): v for (a, b), v in D.items() if a != c and b != c}

    def copy(self, D, c, x, k):
        """c = x + k"""
        if c == x:
            return self.shift(D, c, k) if k != 'nonneg' else self.shift_nonneg(D, c)
        out = self.forget(D, c)
        dyn = {k for pair in D for k in pair} - set(self.keys) - set(self.ghosts)
        for y in self.keys + self.ghosts + sorted(dyn, key=repr):
            if y == c:
                continue
            if k == 'nonneg':
                v = self.get(D, x, y)
                if v > NEG:
                    out[(c, y)] = v
                continue
            v = self.get(D, x, y)
            if v > NEG:
                out[(c, y)] = v + k
            v = self.get(D, y, x)
            if v > NEG:
                out[(y, c)] = v - k
        return out

    # ---- integer counters that cursors are advanced by -------------------------------------------------
    def ikey(self, e):
        e = strip_casts(e)
        if e.get('k') == 'ref' and e.get('dk') == 'local' and self.u.ty(e.get('ty0', e['ty']))['c'] == 'int':
            return 'iv:%d' % e['d']
        return None

    def forget_counter(self, D, ik):
        """the counter changes in an unknown way: its bounds and the positions remembered relative to it go"""
        tag = 'sh:%s:' % ik
        return {(a, b): v for (a, b), v in D.items()
                if a != ik and b != ik and not (isinstance(a, str) and a.startswith(tag)) and not (isinstance(b, str) and b.startswith(tag))}

    def advance_by_counter(self, D, c, ik):
        """c += v for a tracked integer local v: c' = g + v, where the ghost g keeps the position c had.  Bounds of v (relative to
        the constant origin 'Z') become bounds on c' - g; two cursors advanced by the same unchanged v keep their distance."""
        g = 'sh:%s:%s' % (ik, c)
        D = self.copy(D, g, c, 0)
        lb = self.get(D, ik, 'Z')
        ubn = self.get(D, 'Z', ik)          # Z - v >= ubn, i.e. v <= -ubn
        old = D
        D = self.forget(D, c)
        keys = {k for pair in old for k in pair}
        for y in keys:
            if y in (c, ik, 'Z'):
                continue
            v = self.get(old, g, y)
            if v > NEG and lb > NEG:
                D[(c, y)] = v + lb
            v = self.get(old, y, g)
            if v > NEG and ubn > NEG:
                D[(y, c)] = v + ubn
        # siblings advanced by the same value of the counter
        tag = 'sh:%s:' % ik
        for g2 in [k for k in keys if isinstance(k, str) and k.startswith(tag) and k != g]:
            c2 = g2[len(tag):]
            # c2 == g2 + v must still hold: c2 was not touched since (its distance to its ghost is what the counter allows)
            if self.get(old, c2, g2) == lb and lb > NEG or (self.get(old, c2, g2) > NEG and self.get(old, g2, c2) > NEG):
                v = self.get(old, g, g2)
                if v > NEG:
                    D[(c, c2)] = v
                v = self.get(old, g2, g)
                if v > NEG:
                    D[(c2, c)] = v
        return D

    # ---- transfer ---------------------------------------------------------------------------------
    def transfer(self, node, D, on_event=None):
        for ev in node_effects(node):
            if on_event is not None:
                on_event(ev, D)
            if ev.kind == 'incdec' and self.ikey(ev.lhs):
                D = self.shift(D, self.ikey(ev.lhs), ev.delta)
                # positions remembered relative to the old value are stale
                tag = 'sh:%s:' % self.ikey(ev.lhs)
                D = {(a, b): v for (a, b), v in D.items() if not (isinstance(a, str) and a.startswith(tag)) and not (isinstance(b, str) and b.startswith(tag))}
                continue
            if ev.kind in ('store', 'declinit'):
                ik = self.ikey(ev.lhs) if ev.kind == 'store' else ('iv:%d' % ev.lhs['d'] if self.u.ty(ev.lhs['ty'])['c'] == 'int' else None)
                if ik:
                    op_ = ev.node['op'] if ev.kind == 'store' else '='
                    rhs_ = (ev.node['r'] if ev.kind == 'store' else ev.rhs)
                    cst = const_val(rhs_) if rhs_ is not None else None
                    if op_ == '=' and cst is not None:
                        D = self.forget_counter(D, ik)
                        D[(ik, 'Z')] = cst
                        D[('Z', ik)] = -cst
                        # exact distances to the other counters whose value is known exactly
                        for jk in {a for (a, b) in D if isinstance(a, str) and a.startswith('iv:') and a != ik}:
                            lo, hin = self.get(D, jk, 'Z'), self.get(D, 'Z', jk)
                            if lo > NEG and hin > NEG and lo == -hin:
                                D[(ik, jk)] = cst - lo
                                D[(jk, ik)] = lo - cst
                    elif op_ in ('+=', '-=') and cst is not None:
                        tag = 'sh:%s:' % ik
                        D = {(a, b): v for (a, b), v in D.items() if not (isinstance(a, str) and a.startswith(tag)) and not (isinstance(b, str) and b.startswith(tag))}
                        D = self.shift(D, ik, cst if op_ == '+=' else -cst)
                    elif rhs_ is not None:
                        D = self.forget_counter(D, ik)
                        r0_ = strip_casts(rhs_)
                        if op_ == '=' and r0_.get('k') == 'bin' and r0_['op'] == '-':
                            # v = e - c for two cursors: what is known about their distance is known about v
                            pe, pc = self.norm(r0_['l']), self.norm(r0_['r'])
                            if pe and pc and pe[1] != 'nonneg' and pc[1] != 'nonneg':
                                lo = self.get(D, pe[0], pc[0])
                                hi = self.get(D, pc[0], pe[0])
                                if lo > NEG:
                                    D[(ik, 'Z')] = lo + pe[1] - pc[1]
                                if hi > NEG:
                                    D[('Z', ik)] = hi - pe[1] + pc[1]
                        if op_ == '=' and (ik, 'Z') not in D:
                            tl = ev.lhs if ev.kind == 'declinit' else strip_casts(ev.lhs)
                            tt = self.u.ty(tl['ty'] if ev.kind == 'declinit' else tl.get('ty0', tl['ty']))
                            if tt.get('unsigned'):
                                D[(ik, 'Z')] = 0          # an unsigned counter is not negative
                    continue
            if ev.kind == 'incdec':
                c = self.key(ev.lhs)
                if c:
                    D = self.shift(D, c, ev.delta)
            elif ev.kind in ('store', 'declinit'):
                if ev.kind == 'declinit':
                    if ev.rhs is None or ev.lhs['n'] not in self.keys or ev.lhs.get('static'):
                        continue
                    c, op, rhs = ev.lhs['n'], '=', ev.rhs
                    r0 = strip_casts(rhs)
                    if r0.get('k') == 'un' and r0['op'] in ('post++', 'post--') and self.key(r0['e']):
                        # the step has already been applied when the initialiser's value is bound
                        D = self.copy(D, c, self.key(r0['e']), -1 if r0['op'] == 'post++' else 1)
                        continue
                else:
                    c, op, rhs = self.key(ev.lhs), ev.node['op'], ev.node['r']
                if not c:
                    continue
                if op == '=':
                    pn = self.norm(rhs)
                    r0 = strip_casts(rhs)
                    if pn is None and r0.get('k') == 'call' and callee_name(r0) in ('strstr', 'strchr', 'strpbrk', 'strrchr') and r0['args']:
                        # a search result is NULL or a position at or after where the search started
                        b = self.norm(r0['args'][0])
                        if b and b[1] != 'nonneg':
                            pn = (b[0], 'nonneg') if b[1] >= 0 else None
                    rs = self.summaries.get(callee_name(r0), {}).get('ret') if (pn is None and r0.get('k') == 'call') else None
                    if rs is not None and rs[0] < len(r0['args']):
                        # a helper of this unit that returns a position at least rs[1] bytes after the cursor it is given
                        b = self.norm(r0['args'][rs[0]])
                        if b and b[1] != 'nonneg' and b[1] >= 0:
                            D = self.copy(D, c, b[0], 'nonneg')
                            D = {(x, y): (v + rs[1] + b[1] if x == c and y != c else v) for (x, y), v in D.items()}
                            continue
                    D = self.copy(D, c, pn[0], pn[1]) if pn else self.forget(D, c)
                elif op in ('+=', '-='):
                    k = const_val(rhs)
                    r = strip_casts(rhs)
                    if k is not None:
                        D = self.shift(D, c, k if op == '+=' else -k)
                    elif op == '+=' and self.ikey(r) is not None and (self.get(D, self.ikey(r), 'Z') > NEG or self.get(D, 'Z', self.ikey(r)) > NEG):
                        D = self.advance_by_counter(D, c, self.ikey(r))
                    elif op == '+=' and r.get('k') == 'call' and callee_name(r) in SPAN_FUNCS:
                        least = 0
                        if callee_name(r) == 'strlen' and r['args'] and self.key(r['args'][0]) == c and self.nonterm.get(c):
                            # the string at c is at least as long as the non-terminator bytes known to lie ahead of it
                            back = self.get(D, '@' + c, c)           # @c - c >= back, i.e. c - @c <= -back
                            if back > NEG:
                                least = max(0, self.nonterm[c] + back)
                        D = self.shift_nonneg(D, c)
                        if least:
                            D = self.shift(D, c, least)
                    elif op == '+=' and r.get('k') == 'bin' and r['op'] == '+' and any(
                            strip_casts(x).get('k') == 'call' and callee_name(strip_casts(x)) in SPAN_FUNCS and
                            (const_val(y) or -1) >= 0 for (x, y) in ((r['l'], r['r']), (r['r'], r['l']))):
                        # a span plus a non-negative constant
                        kk = const_val(r['r']) if const_val(r['r']) is not None else const_val(r['l'])
                        D = self.shift(self.shift_nonneg(D, c), c, kk)
                    else:
                        D = self.forget(D, c)
                else:
                    D = self.forget(D, c)
            elif ev.kind == 'call':
                D = self.apply_call(ev.node, D)
        return D

    def apply_call(self, call, D):
        cn = callee_name(call)
        handed = []      # (arg index, key)
        for ai, a in enumerate(call.get('args', [])):
            a0 = strip_casts(a)
            k = None
            if a0.get('k') == 'un' and a0['op'] == '&':
                k = self.key(a0['e'])
            elif a0.get('k') == 'ref' and a0.get('dk') == 'param' and a0['n'] in self.pp:
                k = '*' + a0['n']          # our own char** handed on
            if k:
                handed.append((ai, k))
        if not handed:
            return D
        summ = self.summaries.get(cn)
        if summ is None:
            for (_ai, k) in handed:
                D = self.forget(D, k)
            return D
        # summ: {'params': [names], 'D': {(x, y): bound}} over the callee's '*p' and '@*p'
        old = D
        D = dict(D)
        for (_ai, k) in handed:
            D = self.forget(D, k)
        for (ai, k) in handed:
            if ai >= len(summ['params']):
                continue
            p = '*' + summ['params'][ai]
            fwd = summ['D'].get((p, '@' + p), NEG)       # exit - entry >= fwd
            bwd = summ['D'].get(('@' + p, p), NEG)       # entry - exit >= bwd
            for y in self.keys + self.ghosts:
                if y == k or any(y == k2 for (_a2, k2) in handed):
                    continue
                v = self.get(old, k, y)
                if v > NEG and fwd > NEG:
                    D[(k, y)] = v + fwd
                v = self.get(old, y, k)
                if v > NEG and bwd > NEG:
                    D[(y, k)] = v + bwd
        # pairs handed over together: the callee's relational bound, valid by translation when the entry relation holds
        for (ai, k) in handed:
            for (aj, k2) in handed:
                if k == k2 or ai >= len(summ['params']) or aj >= len(summ['params']):
                    continue
                p, q = '*' + summ['params'][ai], '*' + summ['params'][aj]
                assumed = summ.get('assume', {}).get(('@' + p, '@' + q))
                net = summ['D'].get((p, q), NEG)
                have = self.get(old, k, k2)
                if assumed is not None and net > NEG and have > NEG:
                    D[(k, k2)] = have - assumed + net
        return D

    # ---- solving ----------------------------------------------------------------------------------
    def run(self):
        init = {}
        for k in self.entry_keys:
            init[(k, '@' + k)] = 0
            init[('@' + k, k)] = 0
        for (a, b), v in self.assume.items():
            init[(a, b)] = v
            # the same relation holds between the live cursors on entry
            init[(a[1:], b[1:])] = v
            init[(a[1:], b)] = v
            init[(a, b[1:])] = v

        def join(a, b):
            return {k: min(a[k], b[k]) for k in set(a) & set(b)}

        def widen(old, new, visits):
            if visits < 6:
                return new
            return {k: v for k, v in new.items() if old.get(k, NEG) <= v}
        self.states = solve(self.cfg, init, lambda n, D: self.transfer(n, D), lambda n, l, s: s, join, widen=widen)
        return self.states

    def exit_state(self):
        return self.states.get(self.cfg.exit.id)

    def summary(self):
        D = self.exit_state()
        if D is None:
            return None
        ks = ['*' + p for p in self.pp]
        ks = ks + ['@' + k for k in ks]
        out = {'params': [p['n'] for p in self.fn.params], 'assume': dict(self.assume),
               'D': {(a, b): v for (a, b), v in D.items() if a in ks and b in ks}}
        rs = self.return_summary()
        if rs is not None:
            out['ret'] = rs
        return out

    def return_summary(self):
        """(index of the char* parameter, k): every return hands back a position at least k bytes after that parameter's value on
        entry; None when the function does not return a char* derived from its single char* parameter on every path"""
        if not _is_charp(self.u, self.fn.ret, 1):
            return None
        cps = [(i, p['n']) for i, p in enumerate(self.fn.params) if _is_charp(self.u, p['ty'], 1)]
        if len(cps) != 1:
            return None
        pi, pname = cps[0]
        lbs = []
        for n in self.cfg.nodes:
            if n.kind != 'return' or n.expr is None:
                continue
            D = self.states.get(n.id)
            if D is None:
                continue
            pn = self.norm(n.expr)
            if pn is None or pn[1] == 'nonneg':
                if pn is not None:
                    v = self.get(D, pn[0], '@' + pname)
                    if v > NEG:
                        lbs.append(v)
                        continue
                return None
            v = self.get(D, pn[0], '@' + pname)
            if v <= NEG:
                return None
            lbs.append(v + pn[1])
        if not lbs:
            return None
        return (pi, min(lbs))

    # ---- roles and liveness -----------------------------------------------------------------------
    def roles(self):
        """(written-through cursors and what is assigned from them, cursors read through and what feeds them)"""
        stored, loaded = set(), set()
        copies = []       # (dst, src)
        for n in self.cfg.nodes:
            for ev in node_effects(n):
                if ev.kind == 'store':
                    acc = access(ev.lhs)
                    if acc is not None:
                        b = self.norm(acc[0])
                        if b:
                            stored.add(b[0])
                    c = self.key(ev.lhs)
                    if c and ev.node['op'] == '=':
                        pn = self.norm(ev.node['r'])
                        if pn:
                            copies.append((c, pn[0]))
                elif ev.kind == 'declinit' and ev.rhs is not None and ev.lhs['n'] in self.keys:
                    pn = self.norm(ev.rhs)
                    if pn:
                        copies.append((ev.lhs['n'], pn[0]))
                elif ev.kind == 'load':
                    acc = access(ev.node)
                    if acc is not None:
                        b = self.norm(acc[0])
                        if b:
                            loaded.add(b[0])
                elif ev.kind == 'call' and callee_name(ev.node) in ('memmove', 'memcpy', 'strcpy', 'strncpy') and len(ev.node['args']) >= 2:
                    # a block move writes through its first argument and reads through its second
                    bw, br = self.norm(ev.node['args'][0]), self.norm(ev.node['args'][1])
                    if bw:
                        stored.add(bw[0])
                    if br:
                        loaded.add(br[0])
        W = set(stored)
        changed = True
        while changed:
            changed = False
            for (dst, src) in copies:
                if src in W and dst not in W and dst not in loaded:
                    W.add(dst)
                    changed = True
                # what is written through a copy of a cursor is written through that cursor (char * const d = *output; d[i] = ..)
                if dst in W and src not in W and src not in loaded:
                    W.add(src)
                    changed = True
        Rd = set(loaded) - W
        for p in self.pp:
            if '*' + p not in W:
                Rd.add('*' + p)
        changed = True
        while changed:
            changed = False
            for (dst, src) in copies:
                if dst in Rd and src not in Rd and src not in W:
                    Rd.add(src)
                    changed = True
        self.copies = copies
        return W, Rd

    def same_string(self):
        """Partition of the cursor keys: two cursors are in one class when one was (transitively) pointed at the other."""
        parent = {k: k for k in self.keys}

        def find(x):
            while parent[x] != x:
                parent[x] = parent[parent[x]]
                x = parent[x]
            return x
        for (dst, src) in self.copies:
            if dst in parent and src in parent:
                parent[find(dst)] = find(src)
        return {k: find(k) for k in self.keys}

    def liveness(self):
        """node id -> set of cursor keys whose current value may still be used after (or in) the node; the targets of
        char** parameters are used by the caller after the return."""
        use, defs = {}, {}
        for n in self.cfg.nodes:
            u_, d_ = set(), set()
            for ev in node_effects(n):
                if ev.kind == 'load':
                    acc = access(ev.node)
                    if acc is not None:
                        b = self.norm(acc[0])
                        if b and b[0] not in d_:
                            u_.add(b[0])
                elif ev.kind == 'incdec':
                    c = self.key(ev.lhs)
                    if c and c not in d_:
                        u_.add(c)
                elif ev.kind in ('store', 'declinit'):
                    if ev.kind == 'declinit':
                        c, op, rhs = (ev.lhs['n'] if ev.lhs['n'] in self.keys else None), '=', ev.rhs
                    else:
                        c, op, rhs = self.key(ev.lhs), ev.node['op'], ev.node['r']
                        acc = access(ev.lhs)
                        if acc is not None:
                            b = self.norm(acc[0])
                            if b and b[0] not in d_:
                                u_.add(b[0])
                    if rhs is not None:
                        for x in walk(rhs):
                            k = self.key(x)
                            if k and k not in d_:
                                u_.add(k)
                    if c:
                        if op == '=':
                            d_.add(c)
                        elif c not in d_:
                            u_.add(c)
                elif ev.kind == 'call':
                    for a in ev.node.get('args', []):
                        for x in walk(a):
                            k = self.key(x)
                            if k and k not in d_:
                                u_.add(k)
            if n.kind == 'return' and n.expr is not None:
                for x in walk(n.expr):
                    k = self.key(x)
                    if k:
                        u_.add(k)
            use[n.id], defs[n.id] = u_, d_
        live_in = {n.id: set() for n in self.cfg.nodes}
        exported = {'*' + p for p in self.pp}
        changed = True
        while changed:
            changed = False
            for n in reversed(self.cfg.nodes):
                out = set()
                for (y, _l) in self.cfg.succ[n.id]:
                    out |= live_in[y]
                if n.id == self.cfg.exit.id:
                    out |= exported
                new = use[n.id] | (out - defs[n.id])
                if new != live_in[n.id]:
                    live_in[n.id] = new
                    changed = True
        return live_in


def unit_summaries(u, nonterm=None):
    """Bottom-up summaries of the functions of u that take a char** cursor."""
    summaries = {}
    nonterm = nonterm or {}
    todo = [fn for fn in u.function_list if any(_is_charp(u, p['ty'], 2) for p in fn.params) or
            (_is_charp(u, fn.ret, 1) and sum(1 for p in fn.params if _is_charp(u, p['ty'], 1)) == 1 and fn.body is not None)]
    # callees first: a function that calls another listed one goes after it
    names = {fn.name for fn in todo}
    order = []
    seen = set()

    def visit(fn):
        if fn.name in seen:
            return
        seen.add(fn.name)
        for c in fn.calls():
            cn = callee_name(c)
            if cn in names and cn != fn.name:
                visit(u.functions[cn])
        order.append(fn)
    for fn in todo:
        visit(fn)
    for fn in order:
        cd = CursorDiffs(u, fn, summaries)
        W, Rd = cd.roles()
        wp = [p for p in cd.pp if '*' + p in W]
        rp = [p for p in cd.pp if '*' + p in Rd]
        assume = {}
        for r in rp:
            for w in wp:
                assume[('@*' + r, '@*' + w)] = 0      # in-place pair: analysed for a reader that is not behind the writer
        cd = CursorDiffs(u, fn, summaries, assume=assume, nonterm=nonterm.get(fn.name))
        cd.run()
        s = cd.summary()
        if s is not None:
            summaries[fn.name] = s
    return summaries


def summaries_of(u, nonterm=None):
    if nonterm:
        key = repr(sorted((k, sorted(v.items())) for k, v in nonterm.items()))
        cache = getattr(u, '_curdiff_summaries_nt', None)
        if cache is None or cache[0] != key:
            u._curdiff_summaries_nt = (key, unit_summaries(u, nonterm))
        return u._curdiff_summaries_nt[1]
    if getattr(u, '_curdiff_summaries', None) is None:
        u._curdiff_summaries = unit_summaries(u)
    return u._curdiff_summaries


def moves_forward(u, callee, pname, at_least=0, nonterm=None):
    """The callee leaves *pname at least `at_least` bytes after where it found it, on every path (nonterm: {function:
    {cursor key: bytes known not to be the terminator on entry}}, guaranteed by the callers)."""
    s = summaries_of(u, nonterm).get(callee.name)
    if s is None:
        return False
    p = '*' + pname
    return s['D'].get((p, '@' + p), NEG) >= at_least
