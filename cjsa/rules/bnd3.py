"""BND3: reads and cursor advances on NUL-terminated strings (DESIGN.md section 3).

For a string cursor t, nz[t] is a proven lower bound on the number of leading bytes of t that are not the
terminator: t[0..nz] are readable and t may be advanced by at most nz.  Facts come from comparisons that
exclude '\\0' at an index already known readable.  rel[(t, v)] = d records nz[t] >= v + d for an integer
index variable v.  Obligations: a read t[k] needs k <= nz[t]; an advance t += c needs c <= nz[t] (the cursor
never steps over the terminator).  Callee requirements are inferred as in bnd.py and checked at call sites.
"""
from ..facts import (AnalysisBroken, walk, strip_casts, expr_str, is_null_const, const_val, ASSIGN_OPS, CMP_OPS, callee_name)
from ..dataflow import solve, node_effects, access
from .common import cmp_parts

NEG = -(10 ** 6)

# lock-step comparison loops: both strings NUL-terminated, the loop continues only while the bytes compare
# equal and the first is not NUL, hence the second is not NUL either (a relation between the two strings that
# this domain does not express).  Listed exemption, one reason each.
EXEMPT = {
    'case_insensitive_strcmp': 'lock-step compare: continues only while both bytes are equal and non-NUL',
    'compare_strings': 'lock-step compare: continues only while both bytes are equal and non-NUL',
}


class St3:
    __slots__ = ('nz', 'rel', 'ints', 'back', 'pend', 'holds')

    def __init__(self, nz=None, rel=None, ints=None, back=None, pend=None, holds=None):
        self.nz = nz or {}
        self.rel = rel or {}
        self.ints = ints or {}
        self.back = back or {}     # bytes of the same string known to lie behind the cursor
        self.pend = pend or {}     # result of a search (strstr, strchr): that many non-terminator bytes *if* it is not NULL
        self.holds = holds or {}   # scalar local -> (cursor key, offset): the local holds the byte at cursor[offset]

    def copy(self):
        return St3(dict(self.nz), dict(self.rel), dict(self.ints), dict(self.back), dict(self.pend), dict(self.holds))

    def __eq__(self, o):
        return self.nz == o.nz and self.rel == o.rel and self.ints == o.ints and self.back == o.back and self.pend == o.pend \
            and self.holds == o.holds

    def __ne__(self, o):
        return not self.__eq__(o)


def join3(a, b):
    nz = {k: min(a.nz[k], b.nz[k]) for k in set(a.nz) & set(b.nz)}
    rel = {k: min(a.rel[k], b.rel[k]) for k in set(a.rel) & set(b.rel)}
    ints = {k: a.ints[k] for k in set(a.ints) & set(b.ints) if a.ints[k] == b.ints[k]}
    back = {k: min(a.back[k], b.back[k], 64) for k in set(a.back) & set(b.back)}
    pend = {k: min(a.pend[k], b.pend[k]) for k in set(a.pend) & set(b.pend)}
    holds = {k: a.holds[k] for k in set(a.holds) & set(b.holds) if a.holds[k] == b.holds[k]}
    return St3(nz, rel, ints, back, pend, holds)


class Analyzer3:
    def __init__(self, u, fn, assume, reqs):
        self.u = u
        self.fn = fn
        self.assume = assume     # cursor key -> nz at entry
        self.reqs = reqs         # fn name -> {param index: k}
        self.cfg = fn.cfg()
        self.sites = {}
        self.returns = []
        self.broken = None

    def is_charp(self, tid):
        t = self.u.ty(tid)
        return t['c'] == 'ptr' and 'char' in t['s'] and t['s'].count('*') == 1

    def is_charpp(self, tid):
        t = self.u.ty(tid)
        return t['c'] == 'ptr' and 'char' in t['s'] and t['s'].count('*') == 2

    def key(self, e):
        """cursor key of an lvalue expression: 'p' or '*pp'."""
        e = strip_casts(e)
        if e.get('k') == 'ref' and self.is_charp(e.get('ty0', e['ty'])):
            return e['n']
        if e.get('k') == 'un' and e['op'] == '*' and strip_casts(e['e']).get('k') == 'ref' and \
                self.is_charpp(strip_casts(e['e'])['ty']):
            return '*' + strip_casts(e['e'])['n']
        if e.get('k') == 'un' and e['op'] in ('post++', 'post--', 'pre++', 'pre--'):
            return self.key(e['e'])
        return None

    def norm(self, e):
        """pointer expression -> (key, const offset)"""
        e = strip_casts(e)
        k = self.key(e)
        if k:
            return (k, 0)
        if e.get('k') == 'bin' and e['op'] in ('+', '-'):
            c = const_val(e['r'])
            b = self.norm(e['l'])
            if b and c is not None:
                return (b[0], b[1] + (c if e['op'] == '+' else -c))
        return None

    def site(self, rule, node, what, ok, detail, key):
        sid = (node['id'], what)
        old = self.sites.get(sid)
        if old is None or (old[3] and not ok):
            self.sites[sid] = (rule, node, what, ok, detail, key)

    def check_read(self, node, st, record):
        acc = access(node)
        if acc is None:
            return
        base, idx = acc
        pn = self.norm(base)
        if pn is None or pn[0] not in self.tracked:
            return
        key, c = pn
        if not record:
            return
        nz = st.nz.get(key, NEG)
        if isinstance(idx, int) and idx + c < 0:
            k = -(idx + c)
            bk = st.back.get(key, 0)
            ok = k <= bk
            self.site('BND3', node, 'read %s looks %d byte(s) behind the cursor' % (expr_str(node)[:40], k), ok,
                      'the cursor was advanced by at least %d byte(s) inside this string' % bk, 'readback:%s[-%d]' % (key, k))
            return
        if isinstance(idx, int):
            k = idx + c
            ok = 0 <= k <= nz
            self.site('BND3', node, 'read %s needs %d non-terminator byte(s) before it' % (expr_str(node)[:40], k), ok,
                      'proved %s' % (nz if nz > NEG else 'nothing (cursor not known to be inside the string)'),
                      'read:%s[%d]' % (key, k))
        else:
            ix = strip_casts(idx)
            ok = False
            why = 'index not related to the string length'
            extra = 0
            if ix.get('k') == 'bin' and ix['op'] == '+' and const_val(ix['r']) is not None and strip_casts(ix['l']).get('k') == 'ref':
                extra, ix = const_val(ix['r']), strip_casts(ix['l'])
            elif ix.get('k') == 'bin' and ix['op'] == '+' and const_val(ix['l']) is not None and strip_casts(ix['r']).get('k') == 'ref':
                extra, ix = const_val(ix['l']), strip_casts(ix['r'])
            if ix.get('k') == 'ref' and c == 0 and extra > 0:
                d = st.rel.get((key, ix['d']))
                ok = d is not None and d >= extra
                why = 'proved %s bytes beyond index %s are inside the string' % (d, ix['n']) if d is not None else why
            elif ix.get('k') == 'ref' and c == 0:
                d = st.rel.get((key, ix['d']))
                if d is not None and d >= 0:
                    ok = True
                    why = 'proved %s bytes beyond index %s are inside the string' % (d, ix['n'])
                elif ix['d'] in st.ints and 0 <= st.ints[ix['d']] <= nz:
                    ok = True
                    why = 'index == %d <= %d' % (st.ints[ix['d']], nz)
            if not ok and ix.get('k') == 'ref':
                # an index that grows by amounts measured through another pointer into the same string (position += 1 + token_length,
                # token = &text[position + 1]): the relation between the two views of the string is not kept by this analysis
                grows = [a_ for a_ in self.fn.nodes() if a_.get('k') == 'bin' and a_.get('op') in ('+=',) and
                         strip_casts(a_['l']).get('k') == 'ref' and strip_casts(a_['l'])['d'] == ix['d'] and const_val(a_['r']) is None]
                if grows:
                    self.broken = self.broken or 'BND3: %s: %s is read at index %s, which grows by %s; how that amount relates to the ' \
                        'string is not kept by this analysis' % (self.fn.where(node), key, ix['n'], expr_str(grows[0]['r'])[:30])
                    return
                # a position in the string kept as an index that travels between functions (handed in as a parameter, handed back as
                # a result, or through a pointer to it): this analysis follows positions that travel as pointers
                defs_ = [a_['r'] for a_ in self.fn.nodes() if a_.get('k') == 'bin' and a_.get('op') == '=' and
                         strip_casts(a_['l']).get('k') == 'ref' and strip_casts(a_['l'])['d'] == ix['d']]
                defs_ += [d_['init'] for d_ in self.fn.locals() if d_['d'] == ix['d'] and 'init' in d_]
                travels = ix.get('dk') == 'param' or any(
                    strip_casts(r_).get('k') == 'call' or (strip_casts(r_).get('k') == 'un' and strip_casts(r_).get('op') == '*')
                    for r_ in defs_)
                if travels:
                    self.broken = self.broken or 'BND3: %s: %s is read at index %s, a position that travels between functions as a number; ' \
                        'this analysis follows positions that travel as pointers' % (self.fn.where(node), key, ix['n'])
                    return
                # an index kept below a length that was handed in (token[position] with position < token_length): the text is then
                # delimited by that length, not by its terminator, which is what this analysis reasons about
                pints = {p_['d']: p_['n'] for p_ in self.fn.params if self.u.ty(p_['ty'])['c'] == 'int'}
                for x_ in self.fn.nodes():
                    if x_.get('k') == 'bin' and x_.get('op') in ('<', '<=', '>', '>='):
                        ds_ = {y_.get('d') for y_ in walk(x_) if y_.get('k') == 'ref'}
                        if ix['d'] in ds_ and ds_ & set(pints):
                            self.broken = self.broken or 'BND3: %s: %s is read at index %s, which is kept below the length %s handed in; a text ' \
                                'delimited by a length is not what this analysis reasons about' % (
                                    self.fn.where(node), key, ix['n'], pints[next(iter(ds_ & set(pints)))])
                            return
            self.site('BND3', node, 'read %s at a variable index' % expr_str(node)[:40], ok, why,
                      'read:%s[%s]' % (key, expr_str(ix)))

    def advance(self, st, key, c, node, record):
        for d, (k2, off) in list(st.holds.items()):
            if k2 == key:
                st.holds[d] = (k2, off - c)
        nz = st.nz.get(key, NEG)
        if record and key in self.tracked:
            ok = c <= nz if c > 0 else False
            if c > 0:
                self.site('BND3', node, 'advance of %s by %d stays inside the string' % (key, c), ok,
                          'proved %s non-terminator byte(s) at the cursor' % (nz if nz > NEG else 'no'),
                          'adv:%s:%d' % (key, c))
        if c > 0 and nz >= c:
            st.back[key] = min(st.back.get(key, 0) + c, 64)
        elif c < 0:
            if record and key in self.tracked:
                bk = st.back.get(key, 0)
                self.site('BND3', node, 'step back of %s by %d stays inside the string' % (key, -c), -c <= bk,
                          'the cursor was advanced by at least %d byte(s) before' % bk, 'back:%s:%d' % (key, -c))
            st.back[key] = max(st.back.get(key, 0) + c, 0)
        else:
            st.back.pop(key, None)
        if c > 0 and nz >= c:
            st.nz[key] = nz - c
        elif c > 0 and nz > NEG:
            st.nz.pop(key, None)     # may have stepped over the terminator: nothing known any more
        elif c < 0 and nz > NEG:
            st.nz[key] = nz - c
        else:
            st.nz.pop(key, None)
        for (k2, v) in list(st.rel):
            if k2 == key:
                if c > 0 and st.rel[(k2, v)] - c >= 0 or c < 0:
                    st.rel[(k2, v)] -= c
                else:
                    del st.rel[(k2, v)]

    def transfer(self, node, st, record=False):
        st = st.copy()
        for ev in node_effects(node):
            if ev.kind == 'load':
                self.check_read(ev.node, st, record)
            elif ev.kind == 'incdec':
                key = self.key(ev.lhs)
                if key:
                    self.advance(st, key, ev.delta, ev.node, record)
                else:
                    t = strip_casts(ev.lhs)
                    if t.get('k') == 'ref':
                        for (k2, v) in list(st.rel):
                            if v == t['d']:
                                st.rel[(k2, v)] -= ev.delta
                                if st.rel[(k2, v)] < 0:
                                    del st.rel[(k2, v)]
                        if t['d'] in st.ints:
                            st.ints[t['d']] += ev.delta
            elif ev.kind == 'store':
                self.do_store(ev, st, record)
            elif ev.kind == 'declinit':
                d = ev.lhs
                if ev.rhs is not None and self.is_charp(d['ty']):
                    self.assign(st, d['n'], ev.rhs, record, ev.rhs)
                elif ev.rhs is not None and self.u.ty(d['ty'])['c'] == 'int':
                    self.assign_int(st, d['d'], ev.rhs)
            elif ev.kind == 'call':
                self.do_call(ev.node, st, record)
        if record and node.kind == 'return' and node.expr is not None and self.is_charp(self.fn.ret):
            pn = self.norm(node.expr)
            inside = bool(pn) and pn[0] in self.tracked and pn[1] >= 0 and st.nz.get(pn[0], NEG) >= pn[1]
            if is_null_const(node.expr):
                inside = True
            self.returns.append(inside)
        return st

    def span_position(self, rhs, st):
        """key X when rhs is X + strlen(X) / X + strcspn(X, ..) / X + strspn(X, ..) for a tracked in-string cursor X: a position
        inside the same string (on its terminator or on a byte of / outside the set)"""
        r = strip_casts(rhs)
        if r.get('k') != 'bin' or r['op'] != '+':
            return None
        for (x, y) in ((r['l'], r['r']), (r['r'], r['l'])):
            y0 = strip_casts(y)
            pn = self.norm(x)
            if pn and pn[1] >= 0 and y0.get('k') == 'call' and callee_name(y0) in ('strlen', 'strcspn', 'strspn') and y0['args'] and \
                    self.norm(y0['args'][0]) == pn and pn[0] in self.tracked and st.nz.get(pn[0], NEG) >= pn[1]:
                return pn[0]
        return None

    def returned_position(self, rhs, st):
        """key X when rhs is h(.., X + k, ..) for a helper h of this unit every non-NULL return of which was shown (by this same
        analysis of h) to be a position inside the string its cursor parameter points into, and X + k is inside with what h needs"""
        r = strip_casts(rhs)
        if r.get('k') != 'call':
            return None
        rs = self.reqs.get('@ret', {}).get(callee_name(r))
        if not rs:
            return None
        (pi, need) = rs
        if pi >= len(r['args']):
            return None
        pn = self.norm(r['args'][pi])
        if pn and pn[1] >= 0 and pn[0] in self.tracked and st.nz.get(pn[0], NEG) >= pn[1] + need:
            return pn[0]
        return None

    def search_result(self, rhs, st):
        """n when rhs is strstr(p, "lit") / strchr(p, c) / strpbrk(p, "set") on a tracked in-string cursor p: the result is NULL or
        points at n non-terminator bytes of the same string"""
        r = strip_casts(rhs)
        if r.get('k') != 'call' or callee_name(r) not in ('strstr', 'strchr', 'strpbrk', 'strrchr') or len(r['args']) < 2:
            return None
        pn = self.norm(r['args'][0])
        if not pn or pn[0] not in self.tracked or st.nz.get(pn[0], NEG) < max(pn[1], 0):
            return None
        a1 = strip_casts(r['args'][1])
        if callee_name(r) == 'strstr':
            return len(a1['bytes']) if a1.get('k') == 'str' else 0
        if callee_name(r) == 'strpbrk':
            return 1
        c = const_val(r['args'][1])
        return 1 if (c is not None and c != 0) else 0

    def assign(self, st, name, rhs, record=False, node=None):
        for d in [d for d, (k2, _o) in st.holds.items() if k2 == name]:
            del st.holds[d]
        st.nz.pop(name, None)
        st.back.pop(name, None)
        st.pend.pop(name, None)
        for k in [k for k in st.rel if k[0] == name]:
            del st.rel[k]
        sr = self.search_result(rhs, st)
        if sr is not None and name in self.readkeys:
            self.tracked.add(name)
            st.pend[name] = sr
            return
        if (self.span_position(rhs, st) is not None or self.returned_position(rhs, st) is not None) and name in self.readkeys:
            self.tracked.add(name)
            st.nz[name] = 0
            return
        pn = self.norm(rhs)
        if pn and pn[0] in self.tracked and name in self.readkeys:
            nz = st.nz.get(pn[0], NEG)
            self.tracked.add(name)
            if nz > NEG and pn[1] <= nz:
                st.nz[name] = nz - pn[1]
            if pn[1] > 0 and record and node is not None:
                # a cursor placed k bytes ahead steps over k bytes of the string, like an advance by k
                self.site('BND3', node, 'cursor %s placed %d byte(s) after %s stays inside the string' % (name, pn[1], pn[0]),
                          nz > NEG and pn[1] <= nz, 'proved %s non-terminator byte(s) at %s' % (nz if nz > NEG else 'no', pn[0]),
                          'place:%s=%s+%d' % (name, pn[0], pn[1]))

    def copies_of(self, key):
        """char pointers of this function that are initialised once with the value of `key` (offset 0), never assigned again, while
        `key` itself is modified at most by the statements that follow all reads through the copy: approximated by "key is only ever
        modified by += / = at statements from which no read through the copy is reachable"""
        out = []
        fn = self.fn
        for d in fn.locals():
            if 'init' not in d or not self.is_charp(d['ty']):
                continue
            pn = self.norm(d['init'])
            if not pn or pn != (key, 0):
                continue
            name = d['n']
            if any(self.key(a['l']) == name for a in fn.nodes() if a.get('k') == 'bin' and a.get('op') in ASSIGN_OPS) or \
                    any(x.get('k') == 'un' and x.get('op') in ('post++', 'post--', 'pre++', 'pre--') and self.key(x['e']) == name for x in fn.nodes()):
                continue
            # every modification of `key` comes after the last use of the copy
            cfg = self.cfg
            mods = set()
            uses = set()
            for n in cfg.nodes:
                for ev in node_effects(n):
                    if ev.kind in ('store', 'incdec') and ev.lhs is not None and self.key(ev.lhs) == key:
                        mods.add(n.id)
                    if ev.kind == 'call' and any(self.key(strip_casts(x).get('e', {})) == key if strip_casts(x).get('k') == 'un' else
                                                 (strip_casts(x).get('k') == 'ref' and ('*' + strip_casts(x)['n']) == key) for x in ev.node['args']):
                        mods.add(n.id)
                    if ev.kind == 'load':
                        acc = access(ev.node)
                        if acc is not None:
                            b = self.norm(acc[0])
                            if b and b[0] == name:
                                uses.add(n.id)
            if all(not (uses & (cfg.reachable(m) - {m})) for m in mods):
                out.append(name)
        return out

    def held_position(self, rhs, st):
        """(key, offset) when rhs is a read of key[offset] with a constant offset, or a scalar that holds such a byte"""
        r = strip_casts(rhs)
        if r.get('k') == 'ref' and r.get('d') in st.holds:
            return st.holds[r['d']]
        if r.get('k') in ('idx', 'un') and access(r) is not None:
            base, idx = access(r)
            pn = self.norm(base)
            if pn and isinstance(idx, int) and pn[0] in self.tracked:
                return (pn[0], pn[1] + idx)
        if r.get('k') == 'bin' and r.get('op') == '=':
            return self.held_position(r['r'], st)
        return None

    def runs_ahead(self, e, c):
        """cursor e (a local) is initialised from cursor c plus a non-negative constant, afterwards only stepped forward, and c is
        not modified anywhere between e's initialisation and the uses of e (syntactic: c is only modified after the last
        mention of e in source order)"""
        from ..dataflow import node_effects as ne
        fn = self.fn
        inits = []
        last_e = 0
        c_mods = []
        for n in self.cfg.nodes:
            for ev in ne(n):
                if ev.kind == 'declinit' and ev.lhs['n'] == e and ev.rhs is not None:
                    inits.append((n, ev.rhs))
                elif ev.kind == 'store' and self.key(ev.lhs) == e:
                    if ev.node['op'] == '=':
                        inits.append((n, ev.node['r']))
                    elif not (ev.node['op'] == '+=' and (const_val(ev.node['r']) or -1) >= 0):
                        return False
                elif ev.kind == 'incdec' and self.key(ev.lhs) == e and ev.delta < 0:
                    return False
                if ev.kind in ('store', 'incdec') and self.key(ev.lhs) == c:
                    c_mods.append(n.line)
            root = n.expr if n.expr is not None else (n.decl.get('init') if n.kind == 'decl' and n.decl else None)
            if root is not None and any(x.get('k') == 'ref' and x.get('n') == e for x in walk(root)):
                last_e = max(last_e, n.line)
            if n.kind == 'decl' and n.decl is not None and n.decl.get('n') == e:
                last_e = max(last_e, n.line)
        if len(inits) != 1:
            return False
        pn = self.norm(inits[0][1])
        if not pn or pn[0] != c or not isinstance(pn[1], int) or pn[1] < 0:
            return False
        first_e = inits[0][0].line
        return all(m < first_e or m > last_e for m in c_mods)

    def assign_int(self, st, did, rhs):
        hp = self.held_position(rhs, st)
        st.holds.pop(did, None)
        if hp is not None:
            st.holds[did] = hp
        for k in [k for k in st.rel if k[1] == did]:
            del st.rel[k]
        st.ints.pop(did, None)
        # n = strcspn(c, ..) / strspn(c, ..) / strlen(c): n bytes of c's string before its terminator
        r0 = strip_casts(rhs)
        if r0.get('k') == 'call' and callee_name(r0) in ('strcspn', 'strspn', 'strlen') and r0['args']:
            pn = self.norm(r0['args'][0])
            if pn and pn[1] == 0 and pn[0] in self.tracked and st.nz.get(pn[0], NEG) >= 0:
                st.rel[(pn[0], did)] = 0        # nz[c] >= n + 0
                return
        # n = e - c for two cursors of one string where e was pointed at c (plus a constant >= 0) and has only moved forward since,
        # while c stood still: c + n is where e is, a position known to be inside the string
        if r0.get('k') == 'bin' and r0['op'] == '-':
            pe, pc = self.norm(r0['l']), self.norm(r0['r'])
            if pe and pc and pe[1] == 0 and pc[1] == 0 and st.nz.get(pe[0], NEG) >= 0 and self.runs_ahead(pe[0], pc[0]):
                st.rel[(pc[0], did)] = st.nz[pe[0]]
                return
        c = const_val(rhs)
        if c is not None:
            st.ints[did] = c
            for key, nz in st.nz.items():
                st.rel[(key, did)] = nz - c

    def do_store(self, ev, st, record):
        a = ev.node
        op = a['op']
        key = self.key(ev.lhs)
        if key:
            if op == '=':
                # what the right-hand side is, judged before the old value of the cursor is forgotten (x = f(x))
                sr = self.search_result(a['r'], st)
                sp = self.span_position(a['r'], st)
                rp = self.returned_position(a['r'], st)
                st.nz.pop(key, None)
                st.back.pop(key, None)
                st.pend.pop(key, None)
                for k in [k for k in st.rel if k[0] == key]:
                    del st.rel[k]
                if sr is not None and key in self.readkeys:
                    self.tracked.add(key)
                    st.pend[key] = sr
                    return
                if (sp is not None or rp is not None) and key in self.readkeys:
                    via = 'the end of a span of the same string' if sp is not None else \
                        'what %s returns is a position inside the string it is given (shown for each of its returns)' % callee_name(strip_casts(a['r']))
                    self.tracked.add(key)
                    st.nz[key] = 0
                    if key.startswith('*') and record:
                        self.site('BND3', a, 'cursor handed back through %s is a position inside the string' % key, True, via, 'handback:%s' % key)
                    return
                pn = self.norm(a['r'])
                if key.startswith('*') and key in self.tracked and record:
                    # the caller goes on reading at the cursor handed back: it has to be a position inside the string
                    nzs = st.nz.get(pn[0], NEG) if (pn and pn[0] in self.tracked) else NEG
                    r0 = strip_casts(a['r'])
                    if pn is None and r0.get('k') == 'call' and callee_name(r0) in self.u.functions and \
                            callee_name(r0) not in self.reqs.get('@ret', {}):
                        self.broken = 'BND3: %s hands back what %s returns, and not every return of %s could be placed inside the ' \
                                      'string it is given' % (self.fn.name, callee_name(r0), callee_name(r0))
                        return
                    self.site('BND3', a, 'cursor handed back through %s is a position inside the string' % key,
                              nzs > NEG and pn[1] <= nzs, 'derived from %s with %s non-terminator byte(s) proved' % (
                                  pn[0], nzs) if nzs > NEG else 'not derived from a cursor known to be inside the string',
                              'handback:%s' % key)
                if pn and pn[0] in self.tracked and key in self.readkeys:
                    nz = st.nz.get(pn[0], NEG) if pn[0] != key else NEG
                    self.tracked.add(key)
                    if nz > NEG and pn[1] <= nz:
                        st.nz[key] = nz - pn[1]
                    if pn[1] > 0 and record and pn[0] != key:
                        self.site('BND3', a, 'cursor %s placed %d byte(s) after %s stays inside the string' % (key, pn[1], pn[0]),
                                  nz > NEG and pn[1] <= nz, 'proved %s non-terminator byte(s) at %s' % (nz if nz > NEG else 'no', pn[0]),
                                  'place:%s=%s+%d' % (key, pn[0], pn[1]))
            elif op in ('+=', '-='):
                c = const_val(a['r'])
                if c is not None:
                    self.advance(st, key, c if op == '+=' else -c, a, record)
                elif op == '+=' and strip_casts(a['r']).get('k') == 'call' and \
                        callee_name(strip_casts(a['r'])) in ('strcspn', 'strspn', 'strlen') and strip_casts(a['r'])['args'] and \
                        self.norm(strip_casts(a['r'])['args'][0]) == (key, 0):
                    # the span functions count bytes of the string itself before its terminator: the cursor lands inside it
                    nz = st.nz.get(key, NEG)
                    if record and key in self.tracked:
                        self.site('BND3', a, 'advance of %s by %s of itself stays inside the string' % (key, callee_name(strip_casts(a['r']))),
                                  nz >= 0, 'the span ends at or before the terminator' if nz >= 0 else
                                  'cursor not known to be inside the string', 'adv:%s:span' % key)
                    for k in [k for k in st.rel if k[0] == key]:
                        del st.rel[k]
                    st.nz[key] = 0 if nz >= 0 else NEG
                elif op == '+=' and strip_casts(a['r']).get('k') == 'ref' and st.rel.get((key, strip_casts(a['r'])['d'])) is not None and \
                        st.rel[(key, strip_casts(a['r'])['d'])] >= 0:
                    # advance by a variable known not to exceed the bytes in front of the terminator (n = strcspn(c, ..); c += n)
                    if record and key in self.tracked:
                        self.site('BND3', a, 'advance of %s by %s stays inside the string' % (key, strip_casts(a['r'])['n']), True,
                                  '%s non-terminator bytes are known at the cursor' % strip_casts(a['r'])['n'], 'adv:%s:spanvar' % key)
                    slack = st.rel[(key, strip_casts(a['r'])['d'])]
                    for k in [k for k in st.rel if k[0] == key]:
                        del st.rel[k]
                    st.nz[key] = slack
                    st.back.pop(key, None)
                else:
                    r_ = strip_casts(a['r'])
                    twin = None
                    if op == '+=' and r_.get('k') == 'ref':
                        for k2 in self.copies_of(key):
                            if st.rel.get((k2, r_['d']), -1) >= 0:
                                twin = k2
                    if twin is not None:
                        # the count was measured through an unmoved copy of this cursor (const char * const s = *input; .. *input += n)
                        slack = st.rel[(twin, r_['d'])]
                        if record and key in self.tracked:
                            self.site('BND3', a, 'advance of %s by %s stays inside the string' % (key, r_['n']), True,
                                      '%s counts bytes in front of the terminator, measured through %s which still equals %s' % (r_['n'], twin, key),
                                      'adv:%s:spanvar' % key)
                        for k in [k for k in st.rel if k[0] == key]:
                            del st.rel[k]
                        st.nz[key] = slack
                        st.back.pop(key, None)
                        return
                    unit_calls = [callee_name(c) for c in walk(a['r']) if c.get('k') == 'call' and callee_name(c) in self.u.functions]
                    if record and key in self.tracked and unit_calls:
                        # the amount is what a function of this unit returned: how that number relates to the text at the cursor is
                        # a fact about two functions (here is the measuring, there the matching) that this engine does not derive
                        self.broken = self.broken or 'BND3: %s: %s is advanced by the result of %s; what that function returns ' \
                            'is not related to the text at the cursor by this analysis' % (self.fn.where(a), key, unit_calls[0])
                    elif record and key in self.tracked:
                        self.site('BND3', a, 'advance of %s by a computed amount' % key, False,
                                  'cannot show the cursor stays inside the string', 'adv:%s:var' % key)
                    st.nz.pop(key, None)
            return
        l = strip_casts(ev.lhs)
        if l.get('k') == 'ref' and self.u.ty(l['ty'])['c'] == 'int':
            if op == '=':
                self.assign_int(st, l['d'], a['r'])
            elif op in ('+=', '-=') and const_val(a['r']) is not None:
                delta = const_val(a['r']) if op == '+=' else -const_val(a['r'])
                st.holds.pop(l['d'], None)
                for k in [k for k in st.rel if k[1] == l['d']]:
                    st.rel[k] -= delta
                    if st.rel[k] < 0:
                        del st.rel[k]
                if l['d'] in st.ints:
                    st.ints[l['d']] += delta
            else:
                st.holds.pop(l['d'], None)
                for k in [k for k in st.rel if k[1] == l['d']]:
                    del st.rel[k]
                st.ints.pop(l['d'], None)
            return
        # a store of a NUL through a tracked cursor shortens the string: drop facts beyond it
        acc = access(ev.lhs)
        if acc is not None:
            pn = self.norm(acc[0])
            if pn and pn[0] in st.nz and isinstance(acc[1], int):
                pos = acc[1] + pn[1]
                v = const_val(a['r']) if op == '=' else None
                if v == 0 or v is None:
                    if st.nz[pn[0]] > pos - 1:
                        st.nz[pn[0]] = max(pos, 0) if v is None and False else min(st.nz[pn[0]], max(pos, 0))
            elif pn and pn[0] in st.nz:
                st.nz[pn[0]] = 0

    def do_call(self, call, st, record):
        cn = callee_name(call)
        req = self.reqs.get(cn, {})
        callee = self.u.functions.get(cn)
        for i, a in enumerate(call['args']):
            a0 = strip_casts(a)
            if a0.get('k') == 'un' and a0['op'] == '&':
                key = self.key(a0['e'])
                if key and key in self.tracked:
                    need = req.get(i)
                    if need and record:
                        nz = st.nz.get(key, NEG)
                        self.site('BND3', call, 'call %s needs %d non-terminator byte(s) at %s' % (cn, need, key), nz >= need,
                                  'proved %s' % (nz if nz > NEG else 'nothing'), 'call:%s:%s' % (cn, key))
                    # the callee keeps the cursor inside the string (its own advances are checked) but moves it
                    if callee is not None and cn in self.reqs:
                        st.nz[key] = 0
                    else:
                        st.nz.pop(key, None)
                    st.back.pop(key, None)
                    for k in [k for k in st.rel if k[0] == key]:
                        del st.rel[k]
                continue
            if a0.get('k') == 'ref' and self.is_charpp(a0['ty']) and ('*' + a0['n']) in self.tracked:
                key = '*' + a0['n']
                need = req.get(i)
                if need and record:
                    nz = st.nz.get(key, NEG)
                    self.site('BND3', call, 'call %s needs %d non-terminator byte(s) at %s' % (cn, need, key), nz >= need,
                              'proved %s' % (nz if nz > NEG else 'nothing'), 'call:%s:%s' % (cn, key))
                st.nz[key] = 0 if cn in self.reqs else NEG
                continue
            pn = self.norm(a0)
            if pn and pn[0] in self.tracked:
                need = req.get(i)
                if need is not None and record:
                    nz = st.nz.get(pn[0], NEG)
                    ok = nz > NEG and nz - pn[1] >= need and pn[1] <= nz
                    self.site('BND3', call, 'call %s needs a string cursor with %d non-terminator byte(s) at %s' % (cn, need, expr_str(a0)[:30]),
                              ok, 'proved %s at %s' % (nz if nz > NEG else 'nothing', pn[0]), 'call:%s:%s' % (cn, expr_str(a0)[:30]))
                # a callee writing through a non-const char* may move the terminator closer
                if callee is not None and i < len(callee.params) and not self.u.ty(callee.params[i]['ty']).get('pointee_const') and \
                        _writes_strings(self.u, callee):
                    if pn[0] in st.nz:
                        st.nz[pn[0]] = min(st.nz[pn[0]], max(pn[1], 0))

    # refinement ---------------------------------------------------------------------------------------
    def refine(self, node, label, st):
        if label[0] in ('T', 'F'):
            return self.refine_cond(label[1], label[0] == 'T', st)
        if label[0] == 'case':
            return self.nonzero_at(label[1], st) if label[2] != 0 else st
        if label[0] == 'default':
            return st
        return st

    def nonzero_at(self, lv, st):
        """lv (an lvalue read) is known not to be the terminator."""
        acc = access(lv) if strip_casts(lv).get('k') in ('idx', 'un') else None
        if acc is None:
            return st
        base, idx = acc
        pn = self.norm(base)
        if pn is None or pn[0] not in self.tracked:
            return st
        st = st.copy()
        key, c = pn
        nz = st.nz.get(key, NEG)
        if isinstance(idx, int):
            k = idx + c
            if nz > NEG and 0 <= k <= nz and nz < k + 1:
                st.nz[key] = k + 1
        else:
            ix = strip_casts(idx)
            extra = 0
            if ix.get('k') == 'bin' and ix['op'] == '+' and const_val(ix['r']) is not None and strip_casts(ix['l']).get('k') == 'ref':
                extra, ix = const_val(ix['r']), strip_casts(ix['l'])
            if ix.get('k') == 'ref' and c == 0 and extra > 0:
                d = st.rel.get((key, ix['d']))
                if d is not None and d == extra:
                    st.rel[(key, ix['d'])] = extra + 1
            elif ix.get('k') == 'ref' and c == 0:
                d = st.rel.get((key, ix['d']))
                if d is not None and d == 0:
                    st.rel[(key, ix['d'])] = 1
                elif d is None and ix['d'] in st.ints and st.ints[ix['d']] == nz:
                    st.nz[key] = nz + 1
        return st

    def nonzero_pos(self, key, off, st):
        st = st.copy()
        nz = st.nz.get(key, NEG)
        if key in self.tracked and nz > NEG and 0 <= off <= nz and nz < off + 1:
            st.nz[key] = off + 1
        return st

    def refine_cond(self, e, truth, st):
        e = strip_casts(e)
        k = e.get('k')
        # a scalar local that holds the byte under a cursor stands for that byte
        def held(x):
            x = strip_casts(x)
            if x.get('k') == 'bin' and x.get('op') == '=' and strip_casts(x['l']).get('k') == 'ref':
                x = strip_casts(x['l'])          # (c = p[0]) != 0: the store has been applied, the value is the variable's
            if x.get('k') == 'ref' and x.get('d') in st.holds:
                return st.holds[x['d']]
            return None
        if held(e) is not None:
            return self.nonzero_pos(held(e)[0], held(e)[1], st) if truth else st
        ph = cmp_parts(e)
        if ph is not None and held(ph[0]) is not None:
            x_, op_, c_ = ph
            if not truth:
                op_ = {'<': '>=', '>=': '<', '>': '<=', '<=': '>', '==': '!=', '!=': '=='}[op_]
            if (op_ == '==' and c_ != 0) or (op_ == '!=' and c_ == 0) or (op_ == '>' and c_ >= 0) or (op_ == '>=' and c_ > 0):
                return self.nonzero_pos(held(x_)[0], held(x_)[1], st)
            return st
        # NULL test of a search result
        tested, nonnull = None, None
        if k == 'ref' and self.key(e) in st.pend:
            tested, nonnull = self.key(e), truth
        elif k == 'bin' and e['op'] in ('==', '!=') and (is_null_const(e['l']) or is_null_const(e['r'])):
            other = e['l'] if is_null_const(e['r']) else e['r']
            if self.key(other) in st.pend:
                tested, nonnull = self.key(other), (e['op'] == '!=') == truth
        if tested is not None:
            st = st.copy()
            n = st.pend.pop(tested)
            if nonnull:
                st.nz[tested] = max(st.nz.get(tested, NEG), n)
            return st
        if k in ('idx', 'un') and access(e) is not None:
            return self.nonzero_at(e, st) if truth else st
        p = cmp_parts(e)
        if p is None and k == 'bin' and e.get('op') in CMP_OPS:
            # a comparison with an element of a constant table of the unit (text[0] == utf8_bom[0])
            from .parse import _const_table
            flip = {'<': '>', '>': '<', '<=': '>=', '>=': '<=', '==': '==', '!=': '!='}
            for (x_, y_, fl) in ((e['l'], e['r'], False), (e['r'], e['l'], True)):
                y0 = strip_casts(y_)
                if y0.get('k') == 'idx' and strip_casts(y0['b']).get('k') == 'ref' and const_val(y0['i']) is not None:
                    tb = _const_table(self.u, strip_casts(y0['b']))
                    if tb is not None and 0 <= const_val(y0['i']) < len(tb):
                        p = (strip_casts(x_), flip[e['op']] if fl else e['op'], tb[const_val(y0['i'])])
                        break
        if p is None:
            return st
        x, op, c = p
        if not truth:
            op = {'<': '>=', '>=': '<', '>': '<=', '<=': '>', '==': '!=', '!=': '=='}[op]
        nonzero = (op == '==' and c != 0) or (op == '!=' and c == 0) or (op == '>' and c >= 0) or (op == '>=' and c > 0) \
            or (op == '<' and c <= 0 and False)
        if nonzero and x.get('k') in ('idx', 'un'):
            # a plain char may be negative: x > c with c >= 0 or x >= c with c > 0 still excludes 0
            return self.nonzero_at(x, st)
        return st

    def run(self):
        self.readkeys = _read_keys(self.u, self.fn)
        self.tracked = set(self.assume)
        init = St3()
        for k, v in self.assume.items():
            init.nz[k] = v
        states = solve(self.cfg, init, lambda n, s: self.transfer(n, s), self.refine, join3)
        self.sites = {}
        self.returns = []
        for n in self.cfg.nodes:
            if n.id in states:
                self.transfer(n, states[n.id], record=True)
        self.states = states
        return list(self.sites.values())


_ws_cache = {}


def _writes_strings(u, fn, depth=0):
    """does fn (or what it calls in this unit) store through a character pointer or hand one to a writing libc function?"""
    key = (id(u), fn.name)
    if key in _ws_cache:
        return _ws_cache[key]
    _ws_cache[key] = True          # recursion: assume it does
    res = False
    for n in fn.cfg().nodes:
        for ev in node_effects(n):
            if ev.kind in ('store', 'incdec') and ev.lhs is not None:
                acc = access(ev.lhs)
                if acc is not None:
                    b = strip_casts(acc[0])
                    t = u.ty(b.get('ty0', b.get('ty'))) if b.get('ty') is not None else None
                    if t is not None and t['c'] in ('ptr', 'array') and 'char' in t['s']:
                        res = True
            elif ev.kind == 'call':
                cn = callee_name(ev.node)
                if cn in ('memcpy', 'memmove', 'strcpy', 'strcat', 'sprintf', 'memset', 'strncpy', 'strncat'):
                    res = True
                elif cn in u.functions and u.functions[cn].body is not None:
                    g = u.functions[cn]
                    if any(u.ty(p['ty'])['c'] == 'ptr' and 'char' in u.ty(p['ty'])['s'] and not u.ty(p['ty']).get('pointee_const') for p in g.params):
                        if depth > 4 or _writes_strings(u, g, depth + 1):
                            res = True
                elif cn is None:
                    res = True
    _ws_cache[key] = res
    return res


def _read_keys(u, fn):
    """cursor keys through which the function reads (write-only cursors are OUT5/OUT6's business)"""
    probe = Analyzer3(u, fn, {}, {})
    keys = set()
    adv = set()
    written = set()
    for n in probe.cfg.nodes:
        for ev in node_effects(n):
            if ev.kind == 'load':
                acc = access(ev.node)
                if acc is not None:
                    pn = probe.norm(acc[0])
                    if pn:
                        keys.add(pn[0])
            elif ev.kind == 'incdec':
                k = probe.key(ev.lhs)
                if k:
                    adv.add(k)
            elif ev.kind == 'store':
                k = probe.key(ev.lhs)
                if k and ev.node['op'] in ('+=', '-='):
                    adv.add(k)
                acc = access(ev.lhs)
                if acc is not None:
                    pn = probe.norm(acc[0])
                    if pn:
                        written.add(pn[0])
    # the destination of a block writer is written through
    for c_ in fn.calls():
        if callee_name(c_) in ('memmove', 'memcpy', 'memset', 'strcpy', 'strncpy', 'sprintf') and c_['args']:
            pn = probe.norm(c_['args'][0])
            if pn:
                written.add(pn[0])
    # a cursor that a read cursor is pointed at (char *c = *input + 2; ... *input = c) and one that receives a read
    # cursor back are read cursors too
    copies = []
    for n in probe.cfg.nodes:
        for ev in node_effects(n):
            if ev.kind == 'store' and ev.node['op'] == '=':
                k, pn = probe.key(ev.lhs), probe.norm(ev.node['r'])
                if k and pn:
                    copies.append((k, pn[0]))
            elif ev.kind == 'declinit' and ev.rhs is not None and probe.is_charp(ev.lhs['ty']):
                pn = probe.norm(ev.rhs)
                if pn:
                    copies.append((ev.lhs['n'], pn[0]))
    # what is written through a copy of a cursor is written through that cursor (char * const d = *output; d[i] = ..; *output += n)
    changed = True
    while changed:
        changed = False
        for (dst, src) in copies:
            if dst in written and src not in written and src not in keys:
                written.add(src)
                changed = True
    # cursors that are only advanced (a skipping helper) count as read cursors; pure write cursors do not
    keys = keys | (adv - written)
    changed = True
    while changed:
        changed = False
        for (dst, src) in copies:
            if dst in keys and src not in keys and src not in written:
                keys.add(src)
                changed = True
            if src in keys and dst not in keys and dst not in written:
                keys.add(dst)
                changed = True
    return keys


def _cursor_params(u, fn):
    out = []
    rk = _read_keys(u, fn)
    for i, p in enumerate(fn.params):
        t = u.ty(p['ty'])
        if t['c'] == 'ptr' and 'char' in t['s']:
            if t['s'].count('*') == 1 and p['n'] in rk:
                out.append((i, p['n'], p['n']))
            elif t['s'].count('*') == 2 and ('*' + p['n']) in rk:
                out.append((i, p['n'], '*' + p['n']))
    return out


def infer(u, fns, kmax=4):
    reqs = {fn.name: {} for fn in fns}
    reqs['@ret'] = {}
    for _round in range(8):
        changed = False
        for fn in fns:
            cps = _cursor_params(u, fn)
            if not cps:
                continue
            cur = {key: reqs[fn.name].get(i, 0) for (i, _n, key) in cps}

            def bad(assume):
                return [s for s in Analyzer3(u, fn, assume, reqs).run() if not s[3]]
            assume = dict(cur)
            k = max(cur.values())
            best = (len(bad(assume)), dict(assume))
            while best[0] and k < kmax:
                k += 1
                assume = {n: max(v, k) for n, v in assume.items()}
                nb = len(bad(assume))
                if nb < best[0]:
                    best = (nb, dict(assume))
            # no assumption makes everything provable: keep the least one with the fewest unjustified sites, so that they
            # are reported where they are and not as an impossible demand on the callers
            assume, residual = best[1], best[0]
            for (i, _n, key) in cps:
                while assume[key] > cur[key]:
                    trial = dict(assume)
                    trial[key] = assume[key] - 1
                    if len(bad(trial)) > residual:
                        break
                    assume = trial
            new = {i: assume[key] for (i, _n, key) in cps}
            if new != reqs[fn.name]:
                reqs[fn.name] = new
                changed = True
            # what the function hands back as its result: a position inside its (single) cursor parameter's string?
            if len(cps) == 1 and u.ty(fn.ret)['c'] == 'ptr' and 'char' in u.ty(fn.ret)['s']:
                an = Analyzer3(u, fn, assume, reqs)
                an.run()
                good = bool(an.returns) and all(an.returns)
                cur_r = reqs.setdefault('@ret', {}).get(fn.name)
                want = (cps[0][0], assume[cps[0][2]]) if good else None
                if cur_r != want:
                    if want is None:
                        reqs['@ret'].pop(fn.name, None)
                    else:
                        reqs['@ret'][fn.name] = want
                    changed = True
        if not changed:
            break
    return reqs


MINIFY = ['cJSON_Minify', 'skip_oneline_comment', 'skip_multiline_comment', 'minify_string']
POINTER = ['compare_pointers', 'pointer_encoded_length', 'encode_string_as_pointer', 'decode_pointer_inplace',
           'decode_array_index_from_pointer', 'get_item_from_pointer']
# public functions whose char* parameters are NUL-terminated strings by the API contract
PUBLIC_STRINGS = {'cJSON_Minify', 'get_item_from_pointer'}


def _family(u, names):
    """the named functions plus every function of the unit they reach that takes a character cursor (char * / char **): a helper
    split off one of them reads the same string"""
    out = list(names)
    work = list(names)
    while work:
        f = u.functions.get(work.pop())
        if f is None:
            continue
        for c in f.calls():
            cn = callee_name(c)
            g = u.functions.get(cn)
            if g is None or cn in out or g.body is None:
                continue
            if any(u.ty(p['ty'])['c'] == 'ptr' and 'char' in u.ty(p['ty'])['s'] for p in g.params):
                out.append(cn)
                work.append(cn)
    return out


def _behind_opaque_test(u, fn, node):
    """name of a unit function h such that the CFG node holding `node` is reachable only through an edge of a branch / switch whose
    condition calls h with a character-pointer argument; None otherwise"""
    cfg = fn.cfg()
    nd = cfg.node_of_expr(node['id']) if isinstance(node, dict) and 'id' in node else None
    if nd is None:
        return None
    found = []

    def opaque(nn, l):
        if nn.kind not in ('branch', 'switch') or l is None or nn.expr is None:
            return False
        for c in walk(nn.expr):
            if c.get('k') == 'call' and callee_name(c) in u.functions and callee_name(c) != fn.name:
                for a in c.get('args', []):
                    t = u.ty(a.get('ty0', a['ty'])) if a.get('ty') is not None else {}
                    if t.get('c') == 'ptr' and 'char' in t.get('s', ''):
                        found.append(callee_name(c))
                        return True
        return False
    from .common import guarded_by
    if guarded_by(cfg, nd.id, opaque) and found:
        return found[0]
    return None


def _run(u, names, R, floor):
    for n_ in names:
        if n_ not in u.functions:
            raise AnalysisBroken('BND3: %s not found' % n_)
    names = _family(u, names)
    fns = [u.fn(n) for n in names]
    reqs = infer(u, fns)
    n = 0
    broken = []
    for fn in fns:
        cps = _cursor_params(u, fn)
        assume = {key: reqs[fn.name].get(i, 0) for (i, _n, key) in cps}
        an = Analyzer3(u, fn, assume, reqs)
        for (rule, node, what, ok, detail, key) in an.run():
            n += 1
            if not ok and node is not None and _behind_opaque_test(u, fn, node):
                # the site is reached only through a decision made by a function of this unit that was handed the cursor
                # (switch (classify(json))): what its result says about the bytes there is not something this engine derives
                broken.append('BND3: %s: %s - the bytes at the cursor were examined by %s, whose verdict decides whether this is '
                              'reached; that is not modelled' % (fn.where(node), what, _behind_opaque_test(u, fn, node)))
                continue
            R.ob(rule, fn, node, what, ok, detail, key=key)
        if an.broken:
            broken.append(an.broken)
        for (i, pn, key) in cps:
            k = reqs[fn.name].get(i, 0)
            callers = [c for g in u.function_list for c in g.calls() if callee_name(c) == fn.name]
            if k > 0 and (fn.external or not callers):
                R.ob('BND3', fn, None, '%s needs %d non-terminator byte(s) at %s but is an entry point' % (fn.name, k, key), False,
                     'the API contract only promises a NUL-terminated string', key='entry:%s' % key)
            R.note('BND3: %s assumes %d non-terminator byte(s) at %s on entry' % (fn.name, k, key))
    R.floor('BND3', 'string reads/advances/call requirements in %s' % names[0], n, floor)
    if broken:
        raise AnalysisBroken(broken[0])


def bnd3_minify(units, R):
    _run(units['cJSON.c'], MINIFY, R, 12)


def bnd3_pointer(units, R):
    _run(units['cJSON_Utils.c'], POINTER, R, 15)
