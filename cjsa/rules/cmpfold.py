"""CMP1: the key comparators, decided over every pair of byte values.

A key comparator is a function of this program that takes two character cursors, returns int, and is called with a `->string`
member.  Its loop is explored with the byte-set engine (bytepath): for each pair (x, y) of bytes under the two cursors the
paths that can be taken are collected and compared with the specification

    fold(x) == fold(y), x != 0   ->  both cursors advance by one and the loop continues
    fold(x) == fold(y), x == 0   ->  the result is 0
    fold(x) != fold(y)           ->  the result is non-zero, and - when some caller looks at more than zero / non-zero - has
                                     the sign of fold(x) - fold(y)

where fold is the identity for the case-sensitive mode and the ASCII case fold otherwise (lower or upper: one of them, the same
for all pairs).  Before the loop: a zero result needs the two pointers to be the same, everything else returns non-zero.
What is decided is the comparator as a function on two zero-terminated strings; how its callers use the answer is LST/SHP/TAB's.
"""
from ..facts import AnalysisBroken, strip_casts, callee_name, expr_str, const_val, walk
from . import bytepath as bp


def _char_ptr(u, ty):
    t = u.ty(ty)
    if t['c'] != 'ptr':
        return False
    s = t['s'].replace('const', '').replace(' ', '')
    return s in ('unsignedchar*', 'char*', 'signedchar*')


def comparators(u):
    """functions defined here: int f(char cursor, char cursor [, flag]) called with a ->string member"""
    out = []
    for fn in u.function_list:
        ptrs = [p for p in fn.params if _char_ptr(u, p['ty'])]
        if len(ptrs) != 2 or len(fn.params) > 3:
            continue
        rt = u.ty(fn.ret)['s'] if getattr(fn, 'ret', None) is not None else None
        if rt != 'int':
            continue
        if any(const_val(x) == ord('~') for x in fn.nodes() if x.get('k') in ('char', 'int', 'const', 'lit') or 'v' in x):
            continue        # decodes JSON-pointer escapes while comparing: TAB9's function, not a plain key comparator
        called = False
        for g in u.function_list:
            for c in g.calls():
                if callee_name(c) == fn.name and any(strip_casts(x).get('k') == 'mem' and strip_casts(x)['f'] == 'string'
                                                     for a in c['args'] for x in walk(a)):
                    called = True
        if called:
            out.append(fn)
    return out


def _sign(v):
    return (v > 0) - (v < 0)


def _uses_sign(u, fn):
    """does some caller look at more than zero / non-zero of the result?"""
    for g in u.function_list:
        par = g.parents()
        for c in g.calls():
            if callee_name(c) != fn.name:
                continue
            x = c
            p = par.get(x['id'])
            while p is not None and p.get('k') in ('cast', 'paren', 'implicit'):
                x, p = p, par.get(p['id'])
            if p is None:
                continue                     # the whole condition / a discarded value
            if p.get('k') == 'un' and p['op'] == '!':
                continue
            if p.get('k') == 'bin' and p['op'] in ('==', '!=') and (const_val(p['l']) == 0 or const_val(p['r']) == 0):
                continue
            if p.get('k') == 'bin' and p['op'] in ('&&', '||'):
                continue
            return True
    return False


def _mode_flag(fn, u):
    fl = [p for p in fn.params if not _char_ptr(u, p['ty'])]
    if not fl:
        return None
    n = fl[0]['n'].lower()
    if 'insensitive' in n or 'fold' in n or 'ignore' in n or 'nocase' in n:
        return fl[0]['n'], False
    if 'sensitive' in n or 'exact' in n:
        return fl[0]['n'], True
    raise AnalysisBroken('CMP1: cannot tell which value of %s(%s) asks for the exact comparison' % (fn.name, fl[0]['n']))


def cmp1(units, R, unit_names=('cJSON.c', 'cJSON_Utils.c')):
    n = 0
    for un in unit_names:
        u = units[un]
        for fn in comparators(u):
            n += 1
            flag = _mode_flag(fn, u)
            sign = _uses_sign(u, fn)
            modes = [(None, False)] if flag is None else [({flag[0]: 1}, flag[1]), ({flag[0]: 0}, not flag[1])]
            for assume, exact in modes:
                _one_mode(u, fn, assume, exact, sign, R)
    R.floor('CMP1', 'key comparators examined', n, 2 if len(unit_names) > 1 else 1)


def _one_mode(u, fn, assume, exact, sign, R):
    mode = 'exact' if exact else 'case-folding'
    ex = bp.explore(u, fn, assume=assume)
    c1, c2 = [p['n'] for p in fn.params if _char_ptr(u, p['ty'])]
    entry = [s for s in ex.segments if s.start == 'entry']
    loops = bp.loop_segments(ex)
    # before the loop
    bad = None
    delegated = False
    for s in entry:
        if s.end[0] != 'return':
            continue
        v = s.end[1]
        same = any(truth and strip_casts(e).get('k') == 'bin' and strip_casts(e)['op'] == '==' and
                   {expr_str(strip_casts(strip_casts(e)['l'])), expr_str(strip_casts(strip_casts(e)['r']))} == {c1, c2}
                   for (e, truth, _st, _lp) in s.rel)
        if v is None:
            r = strip_casts(s.end_node.expr) if s.end_node is not None and s.end_node.expr is not None else None
            if exact and r is not None and r.get('k') == 'call' and callee_name(r) in ('strcmp', '__builtin_strcmp') and \
                    [expr_str(strip_casts(a)) for a in r['args']] == [c1, c2]:
                delegated = True
                continue
            bad = 'the result %s at line %d cannot be evaluated' % (expr_str(r)[:40] if r else '?', s.line)
            raise AnalysisBroken('CMP1: %s (%s): %s' % (fn.name, mode, bad))
        if v[0] != 'k':
            raise AnalysisBroken('CMP1: %s (%s): result at line %d is not a constant' % (fn.name, mode, s.line))
        if (v[1] == 0) != same:
            bad = 'returns %d at line %d %s' % (v[1], s.line, 'although the two pointers are the same' if same else
                                                'without having compared anything')
    R.ob('CMP1', fn, None, '%s, %s: before the first byte is compared the result is 0 only for identical pointers' % (fn.name, mode),
         bad is None, bad or 'NULL arguments and other early exits return non-zero', key='entry:%s:%s' % (fn.name, mode))
    if delegated and not loops:
        R.ob('CMP1', fn, None, '%s, exact: the comparison is strcmp of the two arguments' % fn.name, True, 'byte order of the C library',
             key='pairs:%s:%s' % (fn.name, mode))
        return
    if delegated:
        # the loop belongs to the other mode; nothing of it is reachable here unless the explorer says so
        loops = [s for s in loops if s.start != 'entry']
    if not loops:
        raise AnalysisBroken('CMP1: %s (%s): no comparison loop found' % (fn.name, mode))
    heads = {s.start for s in loops}
    if len(heads) != 1:
        raise AnalysisBroken('CMP1: %s (%s): %d loops' % (fn.name, mode, len(heads)))
    def positions_of(s):
        out = set(s.B)
        for (e, _t, st, lp) in s.rel:
            out |= {x for x in ex.deps(e, st, lp) if x is not None}
        if s.end[0] == 'return' and s.end[1] is not None and s.end[1][0] == 'ex':
            out |= set(s.end[1][3])
        elif s.end[0] == 'return' and s.end[1] is None and s.end_node is not None and s.end_node.expr is not None:
            out |= {x for x in ex.deps(s.end_node.expr, s.st) if x is not None}
        return out

    def read_root(s, c):
        """(root the bytes of this string are read at, how far that position moves in the segment): the cursor itself, or the cursor
        indexed by a counter"""
        base = s.start_root.get(c)
        roots = {p[0] for p in positions_of(s) if p[0] == base or (isinstance(p[0], tuple) and p[0][0] == 'ix' and p[0][1] == base)}
        if len(roots) > 1:
            raise AnalysisBroken('CMP1: %s (%s): %s is read both directly and through a counter on the path ending at line %d' % (fn.name, mode, c, s.line))
        r = next(iter(roots)) if roots else base
        adv = s.adv(c)
        if isinstance(r, tuple) and r[0] == 'ix':
            dv = s.vals.get(r[2])
            adv = adv + dv[1] if (adv is not None and dv is not None and dv[0] == 'd') else None
        return r, adv
    roots = {}
    for s in loops:
        for c in (c1, c2):
            roots[(id(s), c)] = read_root(s, c)
            r = roots[(id(s), c)][0]
            if any(a != 0 for (rr, a), v in s.B.items() if rr == r and v != bp.ALL) or any(p[0] == r and p[1] != 0 for p in positions_of(s)):
                raise AnalysisBroken('CMP1: %s (%s): the path ending at line %d looks at bytes other than the current pair' % (fn.name, mode, s.line))
    rels = []
    for s in loops:
        p, q = (roots[(id(s), c1)][0], 0), (roots[(id(s), c2)][0], 0)
        retf = None
        if s.end[0] == 'return' and not (s.end[1] is not None and s.end[1][0] == 'k') and s.end_node is not None and s.end_node.expr is not None:
            retf = bp.pair_value(ex, s.st, s.end_node.expr, p, q)
        rels.append((s, bp.pair_relation(ex, s, p, q), p, q, retf))
    folds = {'lower': bp._tolower, 'upper': bp._toupper} if not exact else {'identity': lambda v: v}
    alive = dict(folds)
    first_bad = {}
    pairs = 0
    for x in range(256):
        for y in range(256):
            outcomes = []
            for (s, rel, p, q, retf) in rels:
                f = rel(x, y)
                if f is None:
                    raise AnalysisBroken('CMP1: %s (%s): a condition on the path ending at line %d cannot be evaluated for bytes %d, %d'
                                         % (fn.name, mode, s.line, x, y))
                if not f:
                    continue
                if s.end[0] == 'head':
                    outcomes.append(('next', roots[(id(s), c1)][1], roots[(id(s), c2)][1], s.line))
                elif s.end[0] == 'return':
                    v = s.end[1]
                    if v is not None and v[0] == 'k':
                        val = v[1]
                    else:
                        val = retf(x, y) if retf is not None else None
                    if val is None:
                        raise AnalysisBroken('CMP1: %s (%s): the result at line %d cannot be evaluated for bytes %d, %d'
                                             % (fn.name, mode, s.line, x, y))
                    outcomes.append(('ret', val, None, s.line))
                else:
                    outcomes.append(('exit', None, None, s.line))
            pairs += 1
            if len(outcomes) != 1:
                raise AnalysisBroken('CMP1: %s (%s): %d paths for the byte pair %d, %d' % (fn.name, mode, len(outcomes), x, y))
            o = outcomes[0]
            for name, fold in list(alive.items()):
                fx, fy = fold(x), fold(y)
                if fx == fy and x != 0 and y != 0:
                    ok = o[0] == 'next' and o[1] == 1 and o[2] == 1
                    want = 'continue with the next pair'
                elif fx == fy and x == 0 and y == 0:
                    ok = o[0] == 'ret' and o[1] == 0
                    want = 'return 0'
                else:
                    ok = o[0] == 'ret' and o[1] != 0 and (not sign or _sign(o[1]) == _sign(fx - fy))
                    want = 'return a %s value' % (('negative' if fx < fy else 'positive') if sign else 'non-zero')
                if not ok:
                    first_bad[name] = 'bytes %d (%s) and %d (%s): expected to %s, the path ending at line %d %s' % (
                        x, repr(chr(x)), y, repr(chr(y)), want, o[3],
                        'continues (advancing %s, %s)' % (o[1], o[2]) if o[0] == 'next' else 'returns %s' % o[1] if o[0] == 'ret' else 'falls off the end')
                    del alive[name]
            if not alive:
                break
        if not alive:
            break
    ok = bool(alive)
    R.ob('CMP1', fn, None, '%s, %s: every byte pair continues / ends / orders as the folded bytes do%s' % (
        fn.name, mode, '' if sign else ' (callers only test for zero: the sign is free)'), ok,
        '65536 pairs, fold = %s' % sorted(alive)[0] if ok else '; '.join('%s fold: %s' % kv for kv in sorted(first_bad.items())),
        key='pairs:%s:%s' % (fn.name, mode))
